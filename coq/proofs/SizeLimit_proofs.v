From AnemoVerif Require Import Base Utf8 Bincode Status Wire SizeLimit.
From AnemoVerif.Proofs Require Import Base_proofs Bincode_proofs Wire_proofs.
From Coq Require Import Arith ZifyN ZifyNat ZifyBool.

Lemma eff_max_some m : eff_max (Some m) = N.min m u32_max.
Proof. reflexivity. Qed.

Lemma eff_max_le_u32 cfg : eff_max cfg <= u32_max.
Proof. destruct cfg as [m|]; cbn [eff_max]; unfold default_max_frame, u32_max; lia. Qed.

Lemma eff_max_exact m : m <= u32_max -> eff_max (Some m) = m.
Proof. intros H. cbn [eff_max]. lia. Qed.

(** One threshold, both directions. *)
Lemma enc_frame_exact max b : is_ok (enc_frame max b) = frame_ok max (len b).
Proof. unfold enc_frame, frame_ok. destruct (N.ltb_spec max (len b)); cbn [is_ok]; lia. Qed.

Lemma enc_frame_err max b : frame_ok max (len b) = false -> enc_frame max b = Err ETooBig.
Proof. unfold enc_frame, frame_ok. destruct (N.ltb_spec max (len b)); [reflexivity|lia]. Qed.

Lemma dec_frame_exact max b r :
  len b <= u32_max ->
  dec_frame max (be_bytes 4 (len b) ++ b ++ r) =
  if frame_ok max (len b) then Ok (b, r) else Err ETooBig.
Proof.
  intros Hb. unfold frame_ok, dec_frame.
  rewrite take_app by (now rewrite len_be_bytes).
  rewrite be_val_be_bytes by (rewrite pow_4; unfold u32_max in Hb; lia).
  destruct (N.ltb_spec max (len b)); destruct (N.leb_spec (len b) max); try lia; [reflexivity|].
  now rewrite take_app by reflexivity.
Qed.

(** The decoder refuses on the announced length alone, before any payload byte arrives. *)
Lemma dec_frame_refuses_early max n payload :
  n <= u32_max -> max < n -> dec_frame max (be_bytes 4 n ++ payload) = Err ETooBig.
Proof.
  intros Hn Hm. unfold dec_frame.
  rewrite take_app by (now rewrite len_be_bytes).
  rewrite be_val_be_bytes by (rewrite pow_4; unfold u32_max in Hn; lia).
  destruct (N.ltb_spec max n); [reflexivity|lia].
Qed.

Lemma symmetric_threshold max b :
  len b <= u32_max ->
  is_ok (enc_frame max b) = is_ok (dec_frame max (be_bytes 4 (len b) ++ b)).
Proof.
  intros Hb. rewrite enc_frame_exact.
  pose proof (dec_frame_exact max b [] Hb) as H. rewrite app_nil_r in H. rewrite H.
  destruct (frame_ok max (len b)); reflexivity.
Qed.

Lemma enc_message_sizes max v h b :
  is_ok (enc_message max v h b) = msg_size_ok max (len h) (len b).
Proof.
  unfold enc_message, msg_size_ok. rewrite <- !enc_frame_exact.
  destruct (enc_frame max h); destruct (enc_frame max b); reflexivity.
Qed.

Lemma enc_message_err max v h b :
  msg_size_ok max (len h) (len b) = false -> enc_message max v h b = Err ETooBig.
Proof.
  unfold msg_size_ok, enc_message. intros H.
  destruct (frame_ok max (len h)) eqn:E1.
  - rewrite enc_frame_ok by (unfold frame_ok in E1; lia).
    cbn [andb] in H. now rewrite enc_frame_err.
  - now rewrite enc_frame_err.
Qed.

Lemma enc_message_max_indep m1 m2 v h b bs1 bs2 :
  enc_message m1 v h b = Ok bs1 -> enc_message m2 v h b = Ok bs2 -> bs1 = bs2.
Proof.
  unfold enc_message, enc_frame.
  destruct (m1 <? len h), (m1 <? len b), (m2 <? len h), (m2 <? len b); try discriminate.
  intros E1 E2. ok_inj E1. ok_inj E2. reflexivity.
Qed.

Lemma delivered_iff cmax smax qh qb rh rb :
  rpc_size_outcome cmax smax qh qb rh rb = Delivered <->
  (qh <= N.min cmax smax /\ qb <= N.min cmax smax /\ rh <= N.min cmax smax /\ rb <= N.min cmax smax).
Proof.
  unfold rpc_size_outcome, msg_size_ok, frame_ok.
  destruct (N.leb_spec qh cmax), (N.leb_spec qb cmax), (N.leb_spec qh smax), (N.leb_spec qb smax),
    (N.leb_spec rh smax), (N.leb_spec rb smax), (N.leb_spec rh cmax), (N.leb_spec rb cmax);
    cbn [andb negb]; split; intros HH; try discriminate; try lia; reflexivity.
Qed.

(** A message both ends accept crosses intact (C07 round trip with two different limits). *)
Lemma request_crosses_intact cmax smax r :
  wf_request cmax r = true -> wf_request smax r = true ->
  exists bs, enc_request cmax r = Ok bs /\ dec_request smax bs = Ok (strip_req r, []).
Proof.
  intros Wc Ws.
  destruct (encode_total_req _ _ Wc) as [bs E]. exists bs. split; [exact E|].
  destruct (encode_total_req _ _ Ws) as [bs' E'].
  assert (bs = bs') by (eapply enc_message_max_indep; [exact E|exact E']). subst bs'.
  rewrite <- (app_nil_r bs). now apply request_roundtrip.
Qed.

Lemma response_crosses_intact cmax smax r :
  wf_response smax r = true -> wf_response cmax r = true ->
  exists bs, enc_response smax r = Ok bs /\ dec_response cmax bs = Ok (strip_resp r, []).
Proof.
  intros Ws Wc.
  destruct (encode_total_resp _ _ Ws) as [bs E]. exists bs. split; [exact E|].
  destruct (encode_total_resp _ _ Wc) as [bs' E'].
  assert (bs = bs') by (eapply enc_message_max_indep; [exact E|exact E']). subst bs'.
  rewrite <- (app_nil_r bs). now apply response_roundtrip.
Qed.

(** An oversize message is refused by the sender with [ETooBig] ... *)
Lemma oversize_request_refused_by_sender max r :
  msg_size_ok max (len (req_header_bytes (rq_route r) (rq_headers r))) (len (rq_body r)) = false ->
  enc_request max r = Err ETooBig.
Proof. intros H. unfold enc_request. now apply enc_message_err. Qed.

(** ... and by a receiver with a smaller limit, on the length prefix alone. *)
Lemma oversize_request_refused_by_receiver cmax smax r bs :
  wf_request cmax r = true -> enc_request cmax r = Ok bs ->
  msg_size_ok smax (len (req_header_bytes (rq_route r) (rq_headers r))) (len (rq_body r)) = false ->
  dec_request smax bs = Err ETooBig.
Proof.
  intros W E H. rewrite enc_request_bytes in E by assumption. ok_inj E.
  unfold wf_request in W. split_wf W.
  unfold dec_request. rewrite <- !app_assoc. rewrite parse_preamble_ok.
  unfold msg_size_ok in H.
  set (hdr := req_header_bytes (rq_route r) (rq_headers r)) in *.
  rewrite dec_frame_exact by lia.
  destruct (frame_ok smax (len hdr)) eqn:E1; [|reflexivity].
  unfold hdr at 1. rewrite dec_req_header_enc by (auto; fold hdr; unfold two64, u32_max in *; lia).
  pose proof (dec_frame_exact smax (rq_body r) [] ltac:(lia)) as D. rewrite app_nil_r in D.
  rewrite D. cbn [andb] in H. now rewrite H.
Qed.

(** Unconfigured limit: the documented "no limit" is false of the code (8 MiB default). *)
Lemma unconfigured_refuted : exists n, n <= u32_max /\ frame_ok (eff_max None) n = false.
Proof. exists 8388609. split; [unfold u32_max; lia|reflexivity]. Qed.

Lemma unconfigured_partial n : n <= 8388608 -> frame_ok (eff_max None) n = true.
Proof. intros H. unfold frame_ok, eff_max, default_max_frame. lia. Qed.

Lemma unconfigured_exactly n : frame_ok (eff_max None) n = (n <=? 8388608).
Proof. reflexivity. Qed.
