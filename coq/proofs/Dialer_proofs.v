From AnemoVerif Require Import Base Dialer.
From AnemoVerif.Proofs Require Import Base_proofs.
From Coq Require Import Arith ZArith ZifyN ZifyNat ZifyBool.
Ltac Zify.zify_post_hook ::= Z.div_mod_to_equations.

Lemma memN_in p l : memN p l = true <-> In p l.
Proof.
  unfold memN. rewrite existsb_exists. split.
  - intros [x [I E]]. apply N.eqb_eq in E. now subst.
  - intros I. exists p. split; [exact I|apply N.eqb_refl].
Qed.

Lemma firstn_In {A} (n : nat) (l : list A) x : In x (firstn n l) -> In x l.
Proof.
  revert l. induction n as [|n IH]; intros l I; [contradiction|].
  destruct l as [|y l]; [contradiction|]. cbn [firstn] in I. destruct I as [->|I]; [now left|right; now apply IH].
Qed.

Lemma check_dials_from_eligible c now res known active out s st dials elig :
  check c now res known active out s = (st, dials, elig) ->
  forall p a, In (p, a) dials ->
  exists pi, In pi known /\ pi_id pi = p
    /\ eligible c now active (fst (drain c now res (pending s) (backoff s)))
                (snd (drain c now res (pending s) (backoff s))) pi = true
    /\ a = pick_addr (snd (drain c now res (pending s) (backoff s))) pi.
Proof.
  unfold check. destruct (drain c now res (pending s) (backoff s)) as [pend1 bk1] eqn:D.
  cbn [fst snd]. intros H. inversion H; subst; clear H.
  intros p a I. apply in_map_iff in I as [pi [E I]]. inversion E; subst.
  apply firstn_In in I. apply filter_In in I as [I1 I2]. exists pi. auto.
Qed.

(** Who is dialed: never self, Allowed/Never peers, address-less peers, connected peers, peers
    already being dialed, or peers whose backoff has not expired. *)
Lemma only_eligible_dialed c now res known active out s st dials elig p a :
  check c now res known active out s = (st, dials, elig) -> In (p, a) dials ->
  exists pi, In pi known /\ pi_id pi = p /\ pi_aff pi = High /\ p <> own c /\ pi_addrs pi <> []
    /\ ~ In p active
    /\ ~ In p (fst (drain c now res (pending s) (backoff s)))
    /\ (forall b, bget p (snd (drain c now res (pending s) (backoff s))) = Some b -> b_deadline b < now).
Proof.
  intros H I. destruct (check_dials_from_eligible _ _ _ _ _ _ _ _ _ _ H p a I) as [pi [K [E [El _]]]].
  exists pi. split; [exact K|]. split; [exact E|]. unfold eligible in El.
  repeat match goal with HH : _ && _ = true |- _ => apply andb_true_iff in HH; destruct HH end.
  subst p. repeat split.
  - destruct (pi_aff pi); (reflexivity || discriminate).
  - intros E2. rewrite E2, N.eqb_refl in *. discriminate.
  - intros E2. rewrite E2 in *. discriminate.
  - intros I2. apply memN_in in I2. rewrite I2 in *. discriminate.
  - intros I2. apply memN_in in I2. rewrite I2 in *. discriminate.
  - intros b Hb. rewrite Hb in *. lia.
Qed.

(** The cap on connections being established. *)
Lemma cap_respected c now res known active out s st dials elig :
  check c now res known active out s = (st, dials, elig) ->
  len dials <= max_outstanding c - out /\ (out <= max_outstanding c -> out + len dials <= max_outstanding c).
Proof.
  unfold check. destruct (drain c now res (pending s) (backoff s)) as [pend1 bk1].
  intros H. inversion H; subst; clear H.
  assert (L : len (map (fun pi => (pi_id pi, pick_addr bk1 pi))
                       (firstn (N.to_nat (N.min (len (filter (eligible c now active pend1 bk1) known))
                                                (max_outstanding c - out)))
                               (filter (eligible c now active pend1 bk1) known)))
              <= max_outstanding c - out).
  { unfold len. rewrite map_length, firstn_length. lia. }
  split; [exact L|]. intros Ho. lia.
Qed.

(** When the cap does not bind, every eligible peer is dialed at this very check. *)
Lemma eligible_is_dialed c now res known active out s st dials elig pi :
  check c now res known active out s = (st, dials, elig) ->
  In pi known ->
  eligible c now active (fst (drain c now res (pending s) (backoff s)))
           (snd (drain c now res (pending s) (backoff s))) pi = true ->
  len elig <= max_outstanding c - out ->
  In (pi_id pi, pick_addr (snd (drain c now res (pending s) (backoff s))) pi) dials.
Proof.
  unfold check. destruct (drain c now res (pending s) (backoff s)) as [pend1 bk1]. cbn [fst snd].
  intros H K El Cap. inversion H; subst; clear H.
  unfold len in Cap. rewrite map_length in Cap.
  apply in_map_iff. exists pi. split; [reflexivity|].
  rewrite firstn_all2; [apply filter_In; auto|].
  unfold len. lia.
Qed.

(** Backoff arithmetic. *)
Lemma backoff_duration_small c k :
  k <= u32_max -> backoff_step c * k <= dur_max ->
  backoff_duration c k = N.min (max_backoff c) (k * backoff_step c).
Proof.
  intros H1 H2. unfold backoff_duration.
  rewrite (N.min_l k u32_max) by exact H1. rewrite (N.min_l _ dur_max) by exact H2.
  now rewrite N.mul_comm.
Qed.

Lemma backoff_duration_le_max c k : backoff_duration c k <= max_backoff c.
Proof. unfold backoff_duration. lia. Qed.

Lemma update_attempts c now a : b_attempts (b_update c now a) = a + 1.
Proof. reflexivity. Qed.

Lemma update_deadline c now a :
  b_deadline (b_update c now a) = now + backoff_duration c (a + 1).
Proof. reflexivity. Qed.

Lemma bget_bset_same p b l : bget p (bset p b l) = Some b.
Proof. unfold bset. cbn [bget]. now rewrite N.eqb_refl. Qed.

Lemma bget_bremove_same p l : bget p (bremove p l) = None.
Proof.
  induction l as [|[q b] r IH]; [reflexivity|]. cbn [bremove filter fst]. fold (bremove p r).
  destruct (N.eqb_spec q p) as [->|Hne]; cbn [negb]; [exact IH|].
  cbn [bget]. destruct (N.eqb_spec q p); [contradiction|exact IH].
Qed.

Lemma bget_bremove_other p q l : q <> p -> bget q (bremove p l) = bget q l.
Proof.
  intros Hne. induction l as [|[x b] r IH]; [reflexivity|]. cbn [bremove filter fst]. fold (bremove p r).
  destruct (N.eqb_spec x p) as [->|Hx]; cbn [negb bget].
  - destruct (N.eqb_spec p q); [congruence|exact IH].
  - destruct (N.eqb_spec x q); [reflexivity|exact IH].
Qed.

Lemma bget_bset_other p q b l : q <> p -> bget q (bset p b l) = bget q l.
Proof.
  intros Hne. unfold bset. cbn [bget]. destruct (N.eqb_spec p q); [congruence|].
  now apply bget_bremove_other.
Qed.

(** What the drain does to one peer that was pending exactly once. *)
Lemma drain_not_pending c now res : forall pend bk p,
  ~ In p pend -> bget p (snd (drain c now res pend bk)) = bget p bk.
Proof.
  induction pend as [|q r IH]; intros bk p Hn; [reflexivity|].
  cbn [drain]. assert (Hq : p <> q) by (intros ->; apply Hn; now left).
  assert (Hr : ~ In p r) by (intros I; apply Hn; now right).
  destruct (res q) as [[|]|].
  - rewrite IH by assumption. now apply bget_bremove_other.
  - rewrite IH by assumption. now apply bget_bset_other.
  - destruct (drain c now res r bk) as [pend' bk'] eqn:D. cbn [snd].
    specialize (IH bk p Hr). now rewrite D in IH.
Qed.

Lemma drain_pending_subset c now res : forall pend bk p,
  In p (fst (drain c now res pend bk)) -> In p pend /\ res p = None.
Proof.
  induction pend as [|q r IH]; intros bk p I; [contradiction|].
  cbn [drain] in I. destruct (res q) as [[|]|] eqn:R.
  - apply IH in I as [I1 I2]. split; [now right|exact I2].
  - apply IH in I as [I1 I2]. split; [now right|exact I2].
  - destruct (drain c now res r bk) as [pend' bk'] eqn:D. cbn [fst] in I.
    destruct I as [<-|I]; [split; [now left|exact R]|].
    specialize (IH bk p). rewrite D in IH. cbn [fst] in IH. apply IH in I as [I1 I2]. split; [now right|exact I2].
Qed.

Lemma drain_failure c now res : forall pend bk p,
  NoDup pend -> In p pend -> res p = Some false ->
  bget p (snd (drain c now res pend bk)) = Some (b_update c now (attempts_of bk p)).
Proof.
  induction pend as [|q r IH]; intros bk p Hn I R; [contradiction|].
  inversion Hn as [|? ? Hq Hn']; subst. cbn [drain].
  destruct I as [->|I].
  - rewrite R. rewrite drain_not_pending by assumption. unfold attempts_of. now rewrite bget_bset_same.
  - assert (Hne : p <> q) by (intros ->; contradiction).
    destruct (res q) as [[|]|] eqn:Rq.
    + rewrite IH by assumption. unfold attempts_of. now rewrite bget_bremove_other.
    + rewrite IH by assumption. unfold attempts_of. now rewrite bget_bset_other.
    + destruct (drain c now res r bk) as [pend' bk'] eqn:D. cbn [snd].
      specialize (IH bk p Hn' I R). now rewrite D in IH.
Qed.

Lemma drain_success c now res : forall pend bk p,
  NoDup pend -> In p pend -> res p = Some true ->
  bget p (snd (drain c now res pend bk)) = None.
Proof.
  induction pend as [|q r IH]; intros bk p Hn I R; [contradiction|].
  inversion Hn as [|? ? Hq Hn']; subst. cbn [drain].
  destruct I as [->|I].
  - rewrite R. rewrite drain_not_pending by assumption. apply bget_bremove_same.
  - destruct (res q) as [[|]|] eqn:Rq.
    + now rewrite IH.
    + now rewrite IH.
    + destruct (drain c now res r bk) as [pend' bk'] eqn:D. cbn [snd].
      specialize (IH bk p Hn' I R). now rewrite D in IH.
Qed.

(** After the k-th consecutive failure is noticed at [now], the next attempt comes no sooner than
    min(max_backoff, k * step) later: the peer is not eligible while now' <= deadline. *)
Lemma backoff_spacing c now' active pend bk pi b :
  bget (pi_id pi) bk = Some b -> now' <= b_deadline b ->
  eligible c now' active pend bk pi = false.
Proof.
  intros Hb Hle. unfold eligible. rewrite Hb.
  destruct (N.ltb_spec (b_deadline b) now'); [lia|]. now rewrite !andb_false_r.
Qed.

Lemma failure_sets_deadline c now res pend bk p k :
  NoDup pend -> In p pend -> res p = Some false -> attempts_of bk p = k ->
  k + 1 <= u32_max -> backoff_step c * (k + 1) <= dur_max ->
  exists b, bget p (snd (drain c now res pend bk)) = Some b
            /\ b_attempts b = k + 1
            /\ b_deadline b = now + N.min (max_backoff c) ((k + 1) * backoff_step c).
Proof.
  intros Hn I R Hk H1 H2. eexists. split; [now apply drain_failure|].
  rewrite Hk. split; [reflexivity|]. rewrite update_deadline. now rewrite backoff_duration_small.
Qed.

(** Rotation: the attempt made after j recorded failures uses address j mod n. *)
Lemma rotation bk pi j :
  attempts_of bk (pi_id pi) = j -> pi_addrs pi <> [] ->
  pick_addr bk pi = nth (N.to_nat (j mod len (pi_addrs pi))) (pi_addrs pi) 0
  /\ In (pick_addr bk pi) (pi_addrs pi).
Proof.
  intros Hj Hne. unfold pick_addr. rewrite Hj. split; [reflexivity|].
  apply nth_In. destruct (pi_addrs pi) as [|a r]; [contradiction|].
  assert (len (a :: r) <> 0) by (rewrite len_cons; lia).
  pose proof (N.mod_upper_bound j (len (a :: r)) H). unfold len in *. lia.
Qed.

Lemma NoDup_app_iff_local {A} (a b : list A) :
  NoDup a -> NoDup b -> (forall x, In x a -> In x b -> False) -> NoDup (a ++ b).
Proof.
  intros Ha Hb Hd. induction Ha as [|x a Hx Ha IH]; cbn [app]; [exact Hb|].
  constructor.
  - intros I. apply in_app_or in I as [I|I]; [contradiction|]. apply (Hd x); [now left|exact I].
  - apply IH. intros y I1 I2. apply (Hd y); [now right|exact I2].
Qed.

(** One dial at a time per peer. *)
Lemma pending_nodup c now res known active out s st dials elig :
  NoDup (pending s) -> NoDup (map pi_id known) ->
  check c now res known active out s = (st, dials, elig) -> NoDup (pending st).
Proof.
  intros Hp Hk. unfold check.
  destruct (drain c now res (pending s) (backoff s)) as [pend1 bk1] eqn:D.
  intros H. inversion H; subst; clear H. cbn [pending].
  assert (N1 : NoDup pend1).
  { assert (G : forall pend bk, NoDup pend -> NoDup (fst (drain c now res pend bk))).
    { induction pend as [|q r IH]; intros bk Hn; [constructor|].
      inversion Hn as [|? ? Hq Hn']; subst. cbn [drain]. destruct (res q) as [[|]|]; try now apply IH.
      destruct (drain c now res r bk) as [pend' bk'] eqn:D2. cbn [fst]. constructor.
      - intros I. pose proof (drain_pending_subset c now res r bk q) as S. rewrite D2 in S. cbn [fst] in S.
        apply S in I. tauto.
      - specialize (IH bk Hn'). now rewrite D2 in IH. }
    specialize (G (pending s) (backoff s) Hp). now rewrite D in G. }
  set (el := filter (eligible c now active pend1 bk1) known).
  assert (N2 : NoDup (map pi_id el)).
  { clear -Hk. subst el. induction known as [|x r IH]; [constructor|].
    cbn [map] in Hk. inversion Hk as [|? ? Hx Hk']; subst. cbn [filter].
    destruct (eligible c now active pend1 bk1 x); [|now apply IH].
    cbn [map]. constructor; [|now apply IH].
    intros I. apply Hx. apply in_map_iff in I as [y [E I]]. apply filter_In in I as [I _].
    rewrite <- E. now apply in_map. }
  assert (N3 : forall n, NoDup (map pi_id (firstn n el))).
  { intros n. revert N2. generalize el. induction n as [|n IH]; intros l Hl; [constructor|].
    destruct l as [|x l]; [constructor|]. cbn [firstn map] in *. inversion Hl as [|? ? Hx Hl']; subst.
    constructor; [|now apply IH]. intros I. apply Hx. apply in_map_iff in I as [y [E I]].
    apply firstn_In in I. rewrite <- E. now apply in_map. }
  (* disjointness: dialed peers were not pending *)
  apply NoDup_app_iff_local; try assumption; [apply N3|].
  intros p I1 I2. apply in_map_iff in I2 as [pi [E I2]]. apply firstn_In in I2.
  apply filter_In in I2 as [_ El]. unfold eligible in El.
  repeat match goal with HH : _ && _ = true |- _ => apply andb_true_iff in HH; destruct HH end.
  subst p. apply memN_in in I1. rewrite I1 in *. discriminate.
Qed.

(** Success clears the backoff state: the next loss makes the peer eligible at once, and the
    rotation restarts at the first address. *)
Lemma redial_after_success c now res pend bk p :
  NoDup pend -> In p pend -> res p = Some true ->
  attempts_of (snd (drain c now res pend bk)) p = 0
  /\ bget p (snd (drain c now res pend bk)) = None.
Proof.
  intros Hn I R. pose proof (drain_success c now res pend bk p Hn I R) as D.
  unfold attempts_of. rewrite D. split; reflexivity.
Qed.

Lemma eligible_without_backoff c now active pend bk pi :
  pi_aff pi = High -> pi_id pi <> own c -> pi_addrs pi <> [] ->
  ~ In (pi_id pi) active -> ~ In (pi_id pi) pend ->
  (forall b, bget (pi_id pi) bk = Some b -> b_deadline b < now) ->
  eligible c now active pend bk pi = true.
Proof.
  intros Ha Ho Had Hact Hp Hb. unfold eligible. rewrite Ha.
  destruct (N.eqb_spec (pi_id pi) (own c)); [contradiction|].
  destruct (pi_addrs pi) eqn:E; [contradiction|].
  destruct (memN (pi_id pi) active) eqn:M1; [apply memN_in in M1; contradiction|].
  destruct (memN (pi_id pi) pend) eqn:M2; [apply memN_in in M2; contradiction|].
  cbn [negb andb]. destruct (bget (pi_id pi) bk) as [b|] eqn:B; [|reflexivity].
  specialize (Hb b eq_refl). lia.
Qed.

(** Ticks: the first check at or after an instant comes less than one period later. *)
Lemma first_tick_bounds t0 p t :
  0 < p -> t0 <= t ->
  t <= first_tick_at_or_after t0 p t /\ first_tick_at_or_after t0 p t < t + p
  /\ exists i, first_tick_at_or_after t0 p t = t0 + i * p.
Proof.
  intros Hp Ht. unfold first_tick_at_or_after.
  destruct (N.leb_spec t t0).
  - assert (t = t0) by lia. subst. split; [lia|]. split; [lia|]. exists 0. lia.
  - set (d := t - t0). assert (Hd : t = t0 + d) by lia.
    pose proof (N.div_mod (d + p - 1) p ltac:(lia)) as DM.
    pose proof (N.mod_upper_bound (d + p - 1) p ltac:(lia)) as MU.
    split; [nia|]. split; [nia|]. eexists. reflexivity.
Qed.

Lemma first_tick_after_bounds t0 p t :
  0 < p -> t0 <= t ->
  t < first_tick_after t0 p t /\ first_tick_after t0 p t <= t + p.
Proof.
  intros Hp Ht. unfold first_tick_after.
  destruct (first_tick_bounds t0 p (t + 1) Hp ltac:(lia)) as [A [B _]]. lia.
Qed.

(** Timing of reconnection after k consecutive failures (the bound of C13): the k-th failure
    completes by R; it is noticed at the first tick at or after R (< R + P); the backoff ends
    min(max, k*step) later; the next dial starts at the first tick after that (<= + P). *)
Lemma reconnect_bound t0 p r bo :
  0 < p -> t0 <= r ->
  let noticed := first_tick_at_or_after t0 p r in
  let deadline := noticed + bo in
  let start := first_tick_after t0 p deadline in
  deadline < start /\ start <= r + bo + 2 * p.
Proof.
  intros Hp Hr noticed deadline start.
  destruct (first_tick_bounds t0 p r Hp Hr) as [A [B _]].
  assert (Hd : t0 <= deadline) by (subst deadline noticed; lia).
  destruct (first_tick_after_bounds t0 p deadline Hp Hd) as [C D].
  subst start deadline noticed. lia.
Qed.

(** The connected set matters only through the peers concerned: connections to anybody else - however
    many, whatever the node's connection limit - change nothing about a connectivity check. *)
Lemma eligible_ext c now active active' pend bk pi :
  memN (pi_id pi) active = memN (pi_id pi) active' ->
  eligible c now active pend bk pi = eligible c now active' pend bk pi.
Proof. intros E. unfold eligible. now rewrite E. Qed.

Lemma check_other_connections_irrelevant c now res known active active' out s :
  (forall pi, In pi known -> memN (pi_id pi) active = memN (pi_id pi) active') ->
  check c now res known active out s = check c now res known active' out s.
Proof.
  intros H. unfold check. destruct (drain c now res (pending s) (backoff s)) as [pend1 bk1].
  assert (E : filter (eligible c now active pend1 bk1) known = filter (eligible c now active' pend1 bk1) known).
  { apply filter_ext_in. intros pi I. apply eligible_ext. now apply H. }
  now rewrite E.
Qed.
