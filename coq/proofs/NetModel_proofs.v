From AnemoVerif Require Import Base Dialer NetModel.
From AnemoVerif.Proofs Require Import Base_proofs.
From Coq Require Import Arith ZifyN ZifyNat ZifyBool.

(** C10: the admission rule *)
Lemma never_rejected limit count : admission (Some Never) limit count = false.
Proof. reflexivity. Qed.

Lemma high_allowed_bypass aff limit count :
  aff = High \/ aff = Allowed -> admission (Some aff) limit count = true.
Proof. intros [->| ->]; reflexivity. Qed.

Lemma other_iff_below_limit limit count :
  admission None limit count = true <-> limit = None \/ exists l, limit = Some l /\ count < l.
Proof.
  unfold admission. destruct limit as [l|].
  - destruct (N.ltb_spec count l) as [L|L]; split; intros HH; try discriminate; try reflexivity.
    + right. exists l. split; [reflexivity|lia].
    + destruct HH as [HH|[l' [E Hl]]]; [discriminate|]. inversion E; subst. lia.
  - split; [now left|reflexivity].
Qed.

(** The dialer's own limit is never consulted: the outcome of a dial is a function of the
    listener's table, limit and count only. *)
Lemma outbound_unlimited w a addr pin l :
  match getn a (w_net w) with
  | Some na =>
      dial_outcome w a addr pin =
      dial_outcome (mkWorld (setn a (mkNode (n_primary na) (n_alt na) l (n_known na) (n_active na) (n_events na)) (w_net w)) (w_cut w)) a addr pin
      \/ a = addr
  | None => True
  end.
Proof.
  destruct (getn a (w_net w)) as [na|] eqn:Ea; [|exact I].
  destruct (N.eq_dec a addr) as [->|Hne]; [now right|]. left.
  unfold dial_outcome. cbn [w_net w_cut]. rewrite Ea.
  assert (G1 : forall s, getn a (setn a (mkNode (n_primary na) (n_alt na) l (n_known na) (n_active na) (n_events na)) s)
                         = Some (mkNode (n_primary na) (n_alt na) l (n_known na) (n_active na) (n_events na))).
  { induction s as [|[x m] r IH]; cbn [setn getn]; [now rewrite N.eqb_refl|].
    destruct (N.eqb_spec x a) as [->|Hx]; cbn [getn]; [now rewrite N.eqb_refl|].
    destruct (N.eqb_spec x a); [contradiction|exact IH]. }
  assert (G2 : forall s n, getn addr (setn a n s) = getn addr s).
  { induction s as [|[x m] r IH]; intros n; cbn [setn getn].
    - destruct (N.eqb_spec a addr); [contradiction|reflexivity].
    - destruct (N.eqb_spec x a) as [->|Hx]; cbn [getn].
      + destruct (N.eqb_spec a addr); [contradiction|reflexivity].
      + destruct (N.eqb_spec x addr); [reflexivity|apply IH]. }
  rewrite G1, G2. unfold is_cut. cbn [w_cut n_primary]. reflexivity.
Qed.

Lemma dial_ok_facts w a addr pin b :
  dial_outcome w a addr pin = DialOk b ->
  b = addr /\ a <> addr /\ is_cut w a addr = false
  /\ (forall x, pin = Some x -> x = addr)
  /\ exists na nb, getn a (w_net w) = Some na /\ getn addr (w_net w) = Some nb
       /\ accepts_name nb (n_primary na) = true
       /\ admission (lookup_aff a (n_known nb)) (n_limit nb) (len (n_active nb)) = true.
Proof.
  unfold dial_outcome. destruct (getn a (w_net w)) as [na|] eqn:Ea; [|discriminate].
  destruct (getn addr (w_net w)) as [nb|] eqn:Eb; [|discriminate].
  destruct (is_cut w a addr) eqn:C; [discriminate|].
  destruct (N.eqb_spec a addr) as [|Hne]; [discriminate|].
  destruct (accepts_name nb (n_primary na)) eqn:An; cbn [negb]; [|discriminate].
  destruct pin as [x|].
  - destruct (N.eqb_spec x addr) as [->|Hx]; cbn [negb]; [|discriminate].
    destruct (admission _ _ _) eqn:Ad; [|discriminate]. intros H. inversion H; subst.
    repeat split; auto. { intros y E. now inversion E. } exists na, nb. auto.
  - destruct (admission _ _ _) eqn:Ad; [|discriminate]. intros H. inversion H; subst.
    repeat split; auto. { intros y E. discriminate. } exists na, nb. auto.
Qed.

(** C03: a pinned dial only ever returns the pinned identity, and it is the party at the address. *)
Lemma pinned_dial_sound w a addr x y :
  dial_outcome w a addr (Some x) = DialOk y -> y = x /\ y = addr.
Proof.
  intros H. destruct (dial_ok_facts _ _ _ _ _ H) as [E [_ [_ [P _]]]]. subst y.
  split; [symmetry; now apply P|reflexivity].
Qed.

Lemma wrong_party_never_registered w a addr x :
  x <> addr -> step w (Dial a addr (Some x)) = (w, Some DialErr).
Proof.
  intros Hne. cbn [step].
  destruct (dial_outcome w a addr (Some x)) as [b|] eqn:D; [|reflexivity].
  apply pinned_dial_sound in D as [E1 E2]. subst. contradiction.
Qed.

Lemma result_is_reached_party w a addr pin y :
  dial_outcome w a addr pin = DialOk y -> y = addr.
Proof. intros H. now destruct (dial_ok_facts _ _ _ _ _ H) as [E _]. Qed.

(** get/set *)
Lemma getn_setn_same a n s : getn a (setn a n s) = Some n.
Proof.
  induction s as [|[x m] r IH]; cbn [setn getn]; [now rewrite N.eqb_refl|].
  destruct (N.eqb_spec x a) as [->|Hx]; cbn [getn]; [now rewrite N.eqb_refl|].
  destruct (N.eqb_spec x a); [contradiction|exact IH].
Qed.

Lemma getn_setn_other a b n s : b <> a -> getn b (setn a n s) = getn b s.
Proof.
  intros Hne. induction s as [|[x m] r IH]; cbn [setn getn].
  - destruct (N.eqb_spec a b); [congruence|reflexivity].
  - destruct (N.eqb_spec x a) as [->|Hx]; cbn [getn].
    + destruct (N.eqb_spec a b); [congruence|reflexivity].
    + destruct (N.eqb_spec x b); [reflexivity|exact IH].
Qed.

Lemma mem_in p l : mem p l = true <-> In p l.
Proof.
  unfold mem. rewrite existsb_exists. split.
  - intros [x [I E]]. apply N.eqb_eq in E. now subst.
  - intros I. exists p. split; [exact I|apply N.eqb_refl].
Qed.

Lemma add_peer_lists n p : mem p (n_active (add_peer n p)) = true.
Proof.
  unfold add_peer. destruct (mem p (n_active n)) eqn:M; [exact M|].
  cbn [n_active]. apply mem_in. apply in_or_app. right. now left.
Qed.

(** C03: the identity a successful dial returns is in the caller's connected set when it returns. *)
Lemma result_was_listed w a addr pin w' y :
  step w (Dial a addr pin) = (w', Some (DialOk y)) -> lists w' a y = true /\ lists w' y a = true.
Proof.
  cbn [step]. destruct (dial_outcome w a addr pin) as [b|] eqn:D; [|intros H; inversion H].
  destruct (dial_ok_facts _ _ _ _ _ D) as [-> [Hne [_ [_ [na [nb [Ea [Eb _]]]]]]]].
  rewrite Ea, Eb. intros H. inversion H; subst. unfold lists. cbn [w_net]. split.
  - rewrite getn_setn_other by assumption. rewrite getn_setn_same. apply add_peer_lists.
  - rewrite getn_setn_same. apply add_peer_lists.
Qed.

(** C14: names *)
Lemma connect_requires_accepted_name w a addr pin y :
  dial_outcome w a addr pin = DialOk y ->
  exists na nb, getn a (w_net w) = Some na /\ getn addr (w_net w) = Some nb
                /\ accepts_name nb (n_primary na) = true.
Proof.
  intros H. destruct (dial_ok_facts _ _ _ _ _ H) as [_ [_ [_ [_ [na [nb [A [B [C _]]]]]]]]].
  exists na, nb. auto.
Qed.

Lemma disjoint_never_connect w a addr pin na nb :
  getn a (w_net w) = Some na -> getn addr (w_net w) = Some nb ->
  accepts_name nb (n_primary na) = false -> dial_outcome w a addr pin = DialErr.
Proof.
  intros A B C. unfold dial_outcome. rewrite A, B.
  destruct (is_cut w a addr); [reflexivity|]. destruct (a =? addr); [reflexivity|].
  now rewrite C.
Qed.

Lemma foreign_certificate_rejected b sni cert_name :
  accepts_name b cert_name = false -> adversarial_hello_accepted b sni cert_name = false.
Proof. intros H. unfold adversarial_hello_accepted. rewrite H. apply andb_false_r. Qed.

Lemma unknown_sni_rejected b sni cert_name :
  accepts_name b sni = false -> adversarial_hello_accepted b sni cert_name = false.
Proof. intros H. unfold adversarial_hello_accepted. now rewrite H. Qed.

Lemma accepts_iff b name :
  accepts_name b name = true <-> name = n_primary b \/ n_alt b = Some name.
Proof.
  unfold accepts_name. destruct (N.eqb_spec (n_primary b) name) as [->|Hne]; cbn [orb].
  - split; [now left|reflexivity].
  - destruct (n_alt b) as [x|].
    + destruct (N.eqb_spec x name) as [->|Hx]; split; intros H; auto; try discriminate.
      destruct H as [H|H]; [congruence|inversion H; congruence].
    + split; [discriminate|]. intros [H|H]; [congruence|discriminate].
Qed.

(** C09 *)
Lemma mem_remove x p l : mem x (remove p l) = mem x l && negb (x =? p).
Proof.
  unfold remove. destruct (mem x (filter _ l)) eqn:E.
  - apply mem_in in E. apply filter_In in E as [I F].
    assert (M : mem x l = true) by now apply mem_in. rewrite M. cbn [andb]. exact (eq_sym F).
  - destruct (mem x l) eqn:M; [|reflexivity]. cbn [andb].
    destruct (N.eqb_spec x p) as [->|Hne]; [reflexivity|].
    exfalso. apply mem_in in M.
    assert (I : In x (filter (fun q => negb (q =? p)) l)).
    { apply filter_In. split; [exact M|]. destruct (N.eqb_spec x p); [contradiction|reflexivity]. }
    apply mem_in in I. congruence.
Qed.

Lemma mem_del_peer x n p r : mem x (n_active (del_peer n p r)) = mem x (n_active n) && negb (x =? p).
Proof.
  unfold del_peer. destruct (mem p (n_active n)) eqn:M; cbn [n_active].
  - apply mem_remove.
  - destruct (N.eqb_spec x p) as [->|Hne]; [now rewrite M|now rewrite andb_true_r].
Qed.

Lemma mem_fold_del x stale : forall n,
  mem x (n_active (fold_left (fun n b => del_peer n b 6) stale n)) = mem x (n_active n) && negb (mem x stale).
Proof.
  induction stale as [|b t IH]; intros n; cbn [fold_left]; [now rewrite andb_true_r|].
  rewrite IH, mem_del_peer. unfold mem at 4. cbn [existsb]. fold (mem x t).
  rewrite negb_orb. now rewrite andb_assoc.
Qed.

Lemma getn_map (f : N * nnode -> N * nnode) s a :
  (forall kv, fst (f kv) = fst kv) ->
  getn a (map f s) = match getn a s with Some n => Some (snd (f (a, n))) | None => None end.
Proof.
  intros Hf. induction s as [|[x m] r IH]; [reflexivity|].
  cbn [map getn]. pose proof (Hf (x, m)) as E. destruct (f (x, m)) as [x' m'] eqn:F. cbn [fst] in E. subst x'.
  destruct (N.eqb_spec x a) as [->|Hne]; [now rewrite F|exact IH].
Qed.

Definition stale_of (w : world) (a : N) (na : nnode) : list N :=
  filter (fun b => is_cut w a b
                   || negb (match getn b (w_net w) with
                            | Some nb => mem a (n_active nb)
                            | None => false
                            end)) (n_active na).

Lemma lists_after_quiesce w a b :
  lists (fst (step w Quiesce)) a b =
  lists w a b && negb (is_cut w a b) && lists w b a.
Proof.
  cbn [step fst]. unfold lists at 1. cbn [w_net].
  rewrite getn_map by (intros [x m]; reflexivity). cbn [fst snd].
  unfold lists. destruct (getn a (w_net w)) as [na|] eqn:Ea; [|reflexivity].
  rewrite mem_fold_del.
  destruct (mem b (n_active na)) eqn:M; [|reflexivity]. cbn [andb].
  fold (stale_of w a na).
  destruct (mem b (stale_of w a na)) eqn:S.
  - apply mem_in in S. unfold stale_of in S. apply filter_In in S as [_ S].
    destruct (is_cut w a b); [reflexivity|]. cbn [orb negb andb] in *.
    destruct (getn b (w_net w)) as [nb|]; [|reflexivity].
    destruct (mem a (n_active nb)); [discriminate|reflexivity].
  - cbn [negb].
    assert (Hn : is_cut w a b || negb (match getn b (w_net w) with Some nb => mem a (n_active nb) | None => false end) = false).
    { destruct (is_cut w a b || negb _) eqn:F; [|reflexivity].
      exfalso. assert (I : In b (stale_of w a na)).
      { unfold stale_of. apply filter_In. split; [now apply mem_in|exact F]. }
      apply mem_in in I. congruence. }
    apply orb_false_iff in Hn as [H1 H2]. rewrite H1. cbn [negb andb].
    destruct (getn b (w_net w)) as [nb|]; [|discriminate].
    destruct (mem a (n_active nb)); [reflexivity|discriminate].
Qed.

Lemma is_cut_sym w a b : is_cut w a b = is_cut w b a.
Proof.
  unfold is_cut. induction (w_cut w) as [|p r IH]; [reflexivity|]. cbn [existsb]. rewrite IH.
  f_equal. apply orb_comm.
Qed.

(** After connectivity has been fault-free for longer than the idle timeout: A lists B iff B
    lists A, and every listed peer is reachable (the link is not cut). *)
Lemma mutual_at_quiescence w a b :
  let w' := fst (step w Quiesce) in
  lists w' a b = lists w' b a /\ (lists w' a b = true -> is_cut w' a b = false).
Proof.
  cbv zeta. rewrite !lists_after_quiesce. rewrite (is_cut_sym w b a). split.
  - destruct (lists w a b), (lists w b a), (is_cut w a b); reflexivity.
  - intros H. assert (C : is_cut w a b = false).
    { destruct (is_cut w a b); [|reflexivity]. rewrite andb_false_r in H. discriminate. }
    cbn [step fst]. unfold is_cut in *. cbn [w_cut]. exact C.
Qed.

(** An explicit disconnect removes the peer locally at once, with LostPeer(Requested). *)
Lemma disconnect_immediate w a b na :
  getn a (w_net w) = Some na -> getn b (w_net w) <> None -> a <> b -> mem b (n_active na) = true ->
  let w' := fst (step w (Disconnect a b)) in
  lists w' a b = false
  /\ exists na', getn a (w_net w') = Some na' /\ n_events na' = n_events na ++ [(false, b, 0)].
Proof.
  intros Ea Eb Hne M. cbv zeta. cbn [step]. rewrite Ea.
  destruct (getn b (w_net w)) as [nb|] eqn:Eb2; [|contradiction]. rewrite M.
  assert (D : n_events (del_peer na b 0) = n_events na ++ [(false, b, 0)])
    by (unfold del_peer; now rewrite M).
  assert (L : mem b (n_active (del_peer na b 0)) = false)
    by (rewrite mem_del_peer, N.eqb_refl; apply andb_false_r).
  destruct (is_cut w a b); cbn [fst]; unfold lists; cbn [w_net].
  - rewrite getn_setn_same. split; [exact L|]. eexists. split; [reflexivity|exact D].
  - rewrite getn_setn_other by assumption. rewrite getn_setn_same.
    split; [exact L|]. eexists. split; [reflexivity|exact D].
Qed.

(** ... and, the link permitting, the other side reports the loss in the same big step. *)
Lemma disconnect_propagates w a b na nb :
  getn a (w_net w) = Some na -> getn b (w_net w) = Some nb -> a <> b ->
  mem b (n_active na) = true -> is_cut w a b = false ->
  lists (fst (step w (Disconnect a b))) b a = false.
Proof.
  intros Ea Eb Hne M C. cbn [step]. rewrite Ea, Eb, M, C. cbn [fst]. unfold lists. cbn [w_net].
  rewrite getn_setn_same. rewrite mem_del_peer, N.eqb_refl. apply andb_false_r.
Qed.

(** C10, network level: a slot is freed on disconnect; the count is all connections. *)
Lemma len_remove_lt p l : NoDup l -> In p l -> len (remove p l) + 1 = len l.
Proof.
  intros Hn. induction Hn as [|x l Hx Hn IH]; intros I; [contradiction|].
  unfold remove in *. cbn [filter]. destruct (N.eqb_spec x p) as [->|Hne]; cbn [negb].
  - rewrite len_cons.
    assert (E : filter (fun q => negb (q =? p)) l = l).
    { clear -Hx. induction l as [|y l IH]; [reflexivity|]. cbn [filter].
      destruct (N.eqb_spec y p) as [->|Hy]; [exfalso; apply Hx; now left|].
      cbn [negb]. rewrite IH; [reflexivity|]. intros I. apply Hx. now right. }
    rewrite E. lia.
  - destruct I as [E|I]; [contradiction|]. rewrite !len_cons. specialize (IH I). lia.
Qed.

Lemma slot_freed_on_disconnect n p r :
  NoDup (n_active n) -> mem p (n_active n) = true ->
  len (n_active (del_peer n p r)) + 1 = len (n_active n).
Proof.
  intros Hn M. unfold del_peer. rewrite M. cbn [n_active]. apply len_remove_lt; [exact Hn|now apply mem_in].
Qed.

Lemma add_peer_count n p :
  mem p (n_active n) = false -> len (n_active (add_peer n p)) = len (n_active n) + 1.
Proof. intros M. unfold add_peer. rewrite M. cbn [n_active]. rewrite len_app, len_cons, len_nil. lia. Qed.

(** A rejected dialer sees its connect fail and nothing is registered on either side. *)
Lemma rejected_dialer_errors w a addr pin na nb :
  getn a (w_net w) = Some na -> getn addr (w_net w) = Some nb ->
  admission (lookup_aff a (n_known nb)) (n_limit nb) (len (n_active nb)) = false ->
  step w (Dial a addr pin) = (w, Some DialErr).
Proof.
  intros Ea Eb Ad. cbn [step]. unfold dial_outcome. rewrite Ea, Eb.
  destruct (is_cut w a addr); [reflexivity|]. destruct (a =? addr); [reflexivity|].
  destruct (negb (accepts_name nb (n_primary na))); [reflexivity|].
  destruct (match pin with Some x => negb (x =? addr) | None => false end); [reflexivity|].
  now rewrite Ad.
Qed.
