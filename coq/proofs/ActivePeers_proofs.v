From AnemoVerif Require Import Base ActivePeers.
From AnemoVerif.Proofs Require Import Base_proofs.
From Coq Require Import Arith ZifyN ZifyNat ZifyBool.

(** The invariant that carries everything: the key list has no duplicates and equals the event
    log applied to the empty set; the log alternates per peer. *)
Definition inv (s : state) : Prop :=
  NoDup (peers s) /\ peers s = apply_events [] (log s)
  /\ forall p, alternates p false (log s) = Some (existsb (N.eqb p) (peers s)).

Lemma find_none_not_in p l : find p l = None <-> ~ In p (map fst l).
Proof.
  induction l as [|[q v] r IH]; cbn [find map fst In]; [tauto|].
  destruct (N.eqb_spec q p) as [->|Hne]; split; intros H.
  - discriminate.
  - exfalso. apply H. now left.
  - intros [E|E]; [contradiction|]. now apply IH in E.
  - apply IH. intros E. apply H. now right.
Qed.

Lemma find_some_in p l v : find p l = Some v -> In p (map fst l).
Proof.
  intros H. destruct (find p l) eqn:E; [|discriminate].
  destruct (in_dec N.eq_dec p (map fst l)) as [I|I]; [exact I|].
  apply find_none_not_in in I. congruence.
Qed.

Lemma map_fst_remove_key p l :
  map fst (remove_key p l) = filter (fun q => negb (q =? p)) (map fst l).
Proof.
  induction l as [|[q v] r IH]; [reflexivity|].
  cbn [remove_key filter map fst]. fold (remove_key p r).
  destruct (q =? p); cbn [negb map fst]; now rewrite IH.
Qed.

Lemma filter_not_in p l : ~ In p l -> filter (fun q => negb (q =? p)) l = l.
Proof.
  induction l as [|x r IH]; intros H; [reflexivity|]. cbn [filter].
  destruct (N.eqb_spec x p) as [->|Hne]; [exfalso; apply H; now left|].
  cbn [negb]. rewrite IH; [reflexivity|]. intros I. apply H. now right.
Qed.

Lemma in_filter_ne p q l : In q (filter (fun x => negb (x =? p)) l) <-> In q l /\ q <> p.
Proof.
  rewrite filter_In. split; intros [A B]; split; auto.
  - destruct (N.eqb_spec q p); [discriminate|assumption].
  - destruct (N.eqb_spec q p); [contradiction|reflexivity].
Qed.

Lemma nodup_filter {A} (f : A -> bool) (l : list A) : NoDup l -> NoDup (filter f l).
Proof.
  induction 1 as [|x l Hx Hn IH]; cbn [filter]; [constructor|].
  destruct (f x); [|exact IH]. constructor; [|exact IH].
  intros I. apply filter_In in I. tauto.
Qed.

Lemma nodup_app_one {A} (p : A) (l : list A) : NoDup l -> ~ In p l -> NoDup (l ++ [p]).
Proof.
  intros Hn Hp. induction Hn as [|x l Hx Hn IH]; cbn [app]; [repeat constructor; auto|].
  constructor.
  - intros I. apply in_app_or in I as [I|[I|[]]]; [contradiction|]. subst. apply Hp. now left.
  - apply IH. intros I. apply Hp. now right.
Qed.

Lemma apply_events_app l a b : apply_events l (a ++ b) = apply_events (apply_events l a) b.
Proof. unfold apply_events. apply fold_left_app. Qed.

Lemma alternates_app p b es1 es2 :
  alternates p b (es1 ++ es2) =
  match alternates p b es1 with Some b' => alternates p b' es2 | None => None end.
Proof.
  revert b. induction es1 as [|e r IH]; intros b; [reflexivity|].
  cbn [app alternates]. destruct e as [q|q rs]; destruct (q =? p); try apply IH;
    destruct b; try reflexivity; apply IH.
Qed.

Lemma existsb_eq_in p l : existsb (N.eqb p) l = true <-> In p l.
Proof.
  rewrite existsb_exists. split.
  - intros [x [I E]]. apply N.eqb_eq in E. now subst.
  - intros I. exists p. split; [exact I|apply N.eqb_refl].
Qed.

Lemma existsb_filter_self p l : existsb (N.eqb p) (filter (fun q => negb (q =? p)) l) = false.
Proof.
  destruct (existsb (N.eqb p) _) eqn:E; [|reflexivity].
  apply existsb_eq_in in E. apply in_filter_ne in E. tauto.
Qed.

Lemma existsb_filter_other p x l :
  x <> p -> existsb (N.eqb x) (filter (fun q => negb (q =? p)) l) = existsb (N.eqb x) l.
Proof.
  intros Hne. destruct (existsb (N.eqb x) l) eqn:E.
  - apply existsb_eq_in. apply in_filter_ne. split; [now apply existsb_eq_in|assumption].
  - destruct (existsb (N.eqb x) (filter _ l)) eqn:E2; [|reflexivity].
    apply existsb_eq_in in E2. apply in_filter_ne in E2 as [I _].
    apply existsb_eq_in in I. congruence.
Qed.

Lemma existsb_app_one x p l : existsb (N.eqb x) (l ++ [p]) = existsb (N.eqb x) l || (x =? p).
Proof. rewrite existsb_app. cbn [existsb]. now rewrite orb_false_r. Qed.

(** One step on the abstract side: adding a peer that is absent / removing one that is present. *)
Lemma inv_new s p v :
  inv s -> ~ In p (peers s) ->
  inv (mkState (conns s ++ [(p, v)]) (log s ++ [NewPeer p]) (closed s)).
Proof.
  intros [Hn [Ha Hl]] Hp. unfold inv, peers in *. cbn [conns log].
  rewrite map_app. cbn [map fst]. split; [now apply nodup_app_one|]. split.
  - rewrite apply_events_app, <- Ha. cbn [apply_events fold_left apply_event].
    now rewrite filter_not_in.
  - intros x. rewrite alternates_app, Hl. cbn [alternates]. rewrite existsb_app_one.
    destruct (N.eqb_spec p x) as [->|Hne].
    + assert (E : existsb (N.eqb x) (map fst (conns s)) = false).
      { destruct (existsb _ _) eqn:E; [|reflexivity]. apply existsb_eq_in in E. contradiction. }
      rewrite E. now rewrite N.eqb_refl.
    + destruct (N.eqb_spec x p); [congruence|]. now rewrite orb_false_r.
Qed.

Lemma inv_lost s p r c :
  inv s -> In p (peers s) ->
  inv (mkState (remove_key p (conns s)) (log s ++ [LostPeer p r]) c).
Proof.
  intros [Hn [Ha Hl]] Hp. unfold inv, peers in *. cbn [conns log].
  rewrite map_fst_remove_key. split; [now apply nodup_filter|]. split.
  - rewrite apply_events_app, <- Ha. reflexivity.
  - intros x. rewrite alternates_app, Hl. cbn [alternates].
    destruct (N.eqb_spec p x) as [->|Hne].
    + assert (E : existsb (N.eqb x) (map fst (conns s)) = true) by now apply existsb_eq_in.
      rewrite E. now rewrite existsb_filter_self.
    + now rewrite existsb_filter_other by congruence.
Qed.

Lemma step_inv s o : inv s -> inv (fst (step s o)).
Proof.
  intros H. destruct o as [own p id orig|p r|p id r| |]; cbn [step]; try exact H.
  - destruct (find p (conns s)) as [[eid eorig]|] eqn:F.
    + destruct (tie_break own p eorig orig); cbn [fst].
      * (* replaced: Lost then New *)
        pose proof (inv_lost s p 0 (eid :: closed s) H (find_some_in _ _ _ F)) as H1.
        pose proof (inv_new _ p (id, orig) H1) as H2. cbn [conns log closed peers] in H2.
        rewrite <- app_assoc in H2. cbn [app] in H2. apply H2.
        unfold peers. cbn [conns]. rewrite map_fst_remove_key. intros I. apply in_filter_ne in I. tauto.
      * destruct H as [A [B C]]. split; [|split]; assumption.
    + cbn [fst]. apply inv_new; [exact H|]. now apply find_none_not_in.
  - destruct (find p (conns s)) as [[eid eorig]|] eqn:F; cbn [fst]; [|exact H].
    apply inv_lost; [exact H|]. exact (find_some_in _ _ _ F).
  - destruct (find p (conns s)) as [[eid eorig]|] eqn:F; cbn [fst]; [|exact H].
    destruct (eid =? id); cbn [fst]; [|exact H].
    apply inv_lost; [exact H|]. exact (find_some_in _ _ _ F).
Qed.

Lemma inv_empty : inv empty.
Proof. unfold inv, empty, peers. cbn. split; [constructor|]. split; [reflexivity|]. intros p. reflexivity. Qed.

Lemma fold_inv ops : forall s, inv s -> inv (fold_left (fun s o => fst (step s o)) ops s).
Proof. induction ops as [|o t IH]; intros s H; cbn [fold_left]; [exact H|]. apply IH. now apply step_inv. Qed.

Lemma run_inv ops : inv (run ops).
Proof. apply fold_inv, inv_empty. Qed.

(** the statements of C04 *)
Lemma listing_nodup ops : NoDup (peers (run ops)).
Proof. apply run_inv. Qed.

Lemma refines_spec ops : peers (run ops) = apply_events [] (log (run ops)).
Proof. apply run_inv. Qed.

Lemma alternation ops p :
  alternates p false (log (run ops)) = Some (existsb (N.eqb p) (peers (run ops))).
Proof. apply run_inv. Qed.

Lemma log_monotone o : forall s, exists later, log (fst (step s o)) = log s ++ later.
Proof.
  intros s. destruct o as [own p id orig|p r|p id r| |]; cbn [step]; try (exists []; now rewrite app_nil_r).
  - destruct (find p (conns s)) as [[eid eorig]|]; [destruct (tie_break own p eorig orig)|]; cbn [fst log];
      eexists; try reflexivity. now rewrite app_nil_r.
  - destruct (find p (conns s)) as [[eid eorig]|]; cbn [fst log]; eexists; try reflexivity. now rewrite app_nil_r.
  - destruct (find p (conns s)) as [[eid eorig]|]; [destruct (eid =? id)|]; cbn [fst log];
      eexists; try reflexivity; now rewrite app_nil_r.
Qed.

Lemma fold_log_monotone ops : forall s,
  exists later, log (fold_left (fun s o => fst (step s o)) ops s) = log s ++ later.
Proof.
  induction ops as [|o t IH]; intros s; cbn [fold_left]; [exists []; now rewrite app_nil_r|].
  destruct (log_monotone o s) as [l1 E1]. destruct (IH (fst (step s o))) as [l2 E2].
  exists (l1 ++ l2). now rewrite E2, E1, app_assoc.
Qed.

(** A subscription taken after [ops1] (snapshot = listing then, receiver positioned at the end
    of the log) reproduces the listing after any further operations. *)
Lemma snapshot_plus_events ops1 ops2 :
  let s1 := run ops1 in
  let s2 := run (ops1 ++ ops2) in
  exists later, log s2 = log s1 ++ later /\ apply_events (peers s1) later = peers s2.
Proof.
  intros s1 s2. unfold s1, s2, run. rewrite fold_left_app.
  destruct (fold_log_monotone ops2 (fold_left (fun s o => fst (step s o)) ops1 empty)) as [later E].
  exists later. split; [exact E|].
  pose proof (run_inv ops1) as [_ [A1 _]]. pose proof (run_inv (ops1 ++ ops2)) as [_ [A2 _]].
  unfold run in A1, A2. rewrite fold_left_app in A2. rewrite A2, E, apply_events_app, <- A1. reflexivity.
Qed.

(** The end of an older, replaced connection never disturbs its replacement. *)
Lemma replacement_undisturbed s p old new o r :
  find p (conns s) = Some (new, o) -> new <> old -> step s (RemoveStable p old r) = (s, Done).
Proof.
  intros F Hne. cbn [step]. rewrite F. destruct (N.eqb_spec new old); [contradiction|reflexivity].
Qed.

Lemma find_remove_key_same p l : find p (remove_key p l) = None.
Proof.
  apply find_none_not_in. rewrite map_fst_remove_key. intros I. apply in_filter_ne in I. tauto.
Qed.

(** No listed connection has been closed by this side, given fresh connection ids. *)
Definition listed_ids (s : state) : list N := map (fun kv => fst (snd kv)) (conns s).

Definition cinv (s : state) (used : list N) : Prop :=
  NoDup (listed_ids s)
  /\ (forall q i o, In (q, (i, o)) (conns s) -> In i used /\ ~ In i (closed s))
  /\ (forall i, In i (closed s) -> In i used).

Lemma find_in p l v : find p l = Some v -> In (p, v) l.
Proof.
  induction l as [|[q w] r IH]; cbn [find]; [discriminate|].
  destruct (N.eqb_spec q p) as [->|Hne]; intros H.
  - inversion H. now left.
  - right. now apply IH.
Qed.

Lemma in_remove_key p l x : In x (remove_key p l) <-> In x l /\ fst x <> p.
Proof.
  unfold remove_key. rewrite filter_In. split; intros [A B]; split; auto.
  - destruct (N.eqb_spec (fst x) p); [discriminate|assumption].
  - destruct (N.eqb_spec (fst x) p); [contradiction|reflexivity].
Qed.

Lemma nodup_map_inj {A B} (f : A -> B) (l : list A) x y :
  NoDup (map f l) -> In x l -> In y l -> f x = f y -> x = y.
Proof.
  induction l as [|a r IH]; intros Hn Hx Hy E; [contradiction|].
  cbn [map] in Hn. inversion Hn as [|? ? Hnot Hn']; subst.
  destruct Hx as [->|Hx], Hy as [->|Hy]; auto.
  - exfalso. apply Hnot. rewrite E. now apply in_map.
  - exfalso. apply Hnot. rewrite <- E. now apply in_map.
Qed.

Lemma nodup_map_filter {A B} (f : A -> B) (g : A -> bool) (l : list A) :
  NoDup (map f l) -> NoDup (map f (filter g l)).
Proof.
  induction l as [|a r IH]; intros Hn; [constructor|].
  cbn [map] in Hn. inversion Hn as [|? ? Hnot Hn']; subst. cbn [filter].
  destruct (g a); [|now apply IH]. cbn [map]. constructor; [|now apply IH].
  intros I. apply in_map_iff in I as [x [E I]]. apply filter_In in I as [I _].
  apply Hnot. rewrite <- E. now apply in_map.
Qed.

Lemma cinv_remove s used p eid eo r :
  cinv s used -> find p (conns s) = Some (eid, eo) ->
  cinv (mkState (remove_key p (conns s)) r (eid :: closed s)) used.
Proof.
  intros [C1 [C2 C3]] F. unfold cinv, listed_ids in *. cbn [conns closed].
  split; [now apply nodup_map_filter|]. split.
  - intros q i o I. apply in_remove_key in I as [I Hq]. cbn [fst] in Hq.
    destruct (C2 _ _ _ I) as [U NC]. split; [exact U|].
    intros [E|I2]; [|contradiction]. subst i.
    pose proof (find_in _ _ _ F) as Ip.
    pose proof (nodup_map_inj (fun kv : N * (N * origin) => fst (snd kv)) (conns s)
                  (q, (eid, o)) (p, (eid, eo)) C1 I Ip eq_refl) as E.
    inversion E. contradiction.
  - intros i [E|I]; [subst|now apply C3].
    apply find_in in F. now destruct (C2 _ _ _ F).
Qed.

Lemma cinv_append s used p id o lg cl :
  NoDup (map (fun kv : N * (N * origin) => fst (snd kv)) (conns s)) ->
  (forall q i o0, In (q, (i, o0)) (conns s) -> In i used /\ ~ In i cl) ->
  (forall i, In i cl -> In i used) -> ~ In id used ->
  cinv (mkState (conns s ++ [(p, (id, o))]) lg cl) (id :: used).
Proof.
  intros C1 C2 C3 Hf. unfold cinv, listed_ids. cbn [conns closed]. split; [|split].
  - rewrite map_app. cbn [map fst snd]. apply nodup_app_one; [exact C1|].
    intros I. apply in_map_iff in I as [[q [i o0]] [E I]]. cbn in E. subst i.
    apply C2 in I. tauto.
  - intros q i o0 I. apply in_app_or in I as [I|[I|[]]].
    + destruct (C2 _ _ _ I). split; [now right|assumption].
    + inversion I; subst. split; [now left|]. intros I2. apply C3 in I2. contradiction.
  - intros i I. right. now apply C3.
Qed.

Lemma step_cinv s o used :
  cinv s used ->
  (forall own p id orig, o = Add own p id orig -> ~ In id used) ->
  cinv (fst (step s o)) (match o with Add _ _ id _ => id :: used | _ => used end).
Proof.
  intros C Hfresh. destruct o as [own p id orig|p r|p id r| |]; cbn [step]; try exact C.
  - specialize (Hfresh own p id orig eq_refl).
    destruct (find p (conns s)) as [[eid eorig]|] eqn:F.
    + destruct (tie_break own p eorig orig); cbn [fst].
      * pose proof (cinv_remove s used p eid eorig (log s) C F) as [R1 [R2 R3]].
        unfold listed_ids in R1. cbn [conns closed] in *.
        apply (cinv_append (mkState (remove_key p (conns s)) (log s) (eid :: closed s)) used p id orig);
          cbn [conns closed]; assumption.
      * destruct C as [C1 [C2 C3]]. unfold cinv, listed_ids. cbn [conns closed]. split; [exact C1|]. split.
        -- intros q i o0 I. destruct (C2 _ _ _ I) as [U NC]. split; [now right|].
           intros [E|I2]; [subst; contradiction|contradiction].
        -- intros i [E|I]; [subst; now left|right; now apply C3].
    + cbn [fst]. destruct C as [C1 [C2 C3]]. apply cinv_append; assumption.
  - destruct (find p (conns s)) as [[eid eorig]|] eqn:F; cbn [fst]; [|exact C].
    eapply cinv_remove; eassumption.
  - destruct (find p (conns s)) as [[eid eorig]|] eqn:F; cbn [fst]; [|exact C].
    destruct (eid =? id); cbn [fst]; [|exact C]. eapply cinv_remove; eassumption.
Qed.

Lemma fold_cinv ops : forall s used,
  cinv s used -> NoDup (ids_added ops) -> (forall i, In i (ids_added ops) -> ~ In i used) ->
  exists used', cinv (fold_left (fun s o => fst (step s o)) ops s) used'.
Proof.
  induction ops as [|o t IH]; intros s used C Hn Hf; cbn [fold_left]; [now exists used|].
  apply (IH _ (match o with Add _ _ id _ => id :: used | _ => used end)).
  - apply step_cinv; [exact C|]. intros own p id orig ->. apply Hf. cbn [ids_added flat_map app]. now left.
  - destruct o; cbn [ids_added flat_map app] in Hn; try exact Hn. now inversion Hn.
  - intros i I. destruct o as [own p id orig| | | |]; cbn [ids_added flat_map app] in *;
      try (apply Hf; exact I).
    inversion Hn as [|? ? Hnot Hn']; subst.
    intros [E|U]; [subst; contradiction|]. revert U. apply Hf. now right.
Qed.

(** With fresh connection ids, no listed connection has been closed by this side. *)
Lemma never_lists_closed ops q i o :
  NoDup (ids_added ops) -> In (q, (i, o)) (conns (run ops)) -> ~ In i (closed (run ops)).
Proof.
  intros Hn I. destruct (fold_cinv ops empty [] ) as [used [_ [C2 _]]].
  - unfold cinv, listed_ids, empty. cbn. split; [constructor|]. split; [intros ? ? ? []|intros ? []].
  - exact Hn.
  - intros ? _ [].
  - exact (proj2 (C2 _ _ _ I)).
Qed.

Lemma remove_stable_unlists s p id r o :
  find p (conns (fst (step s (RemoveStable p id r)))) <> Some (id, o).
Proof.
  cbn [step]. destruct (find p (conns s)) as [[eid eorig]|] eqn:F.
  - destruct (N.eqb_spec eid id) as [->|Hne]; cbn [fst conns].
    + now rewrite find_remove_key_same.
    + rewrite F. intros H. inversion H. contradiction.
  - cbn [fst]. rewrite F. discriminate.
Qed.
