From AnemoVerif Require Import Base Router.
From AnemoVerif.Proofs Require Import Base_proofs.
From Coq Require Import Arith ZifyN ZifyNat ZifyBool.

Lemma is_prefix_refl a : is_prefix a a = true.
Proof. induction a as [|x a IH]; cbn [is_prefix]; [reflexivity|]. now rewrite N.eqb_refl, IH. Qed.

Lemma is_prefix_app a b : is_prefix a (a ++ b) = true.
Proof. induction a as [|x a IH]; cbn [is_prefix app]; [reflexivity|]. now rewrite N.eqb_refl, IH. Qed.

Lemma is_prefix_spec p l : is_prefix p l = true <-> exists r, l = p ++ r.
Proof.
  split.
  - revert l. induction p as [|x p IH]; intros l H.
    + now exists l.
    + destruct l as [|y l]; cbn [is_prefix] in H; [discriminate|].
      apply andb_true_iff in H as [H1 H2]. apply N.eqb_eq in H1. subst y.
      destruct (IH l H2) as [r ->]. now exists r.
  - intros [r ->]. apply is_prefix_app.
Qed.

Lemma is_prefix_trans a b c : is_prefix a b = true -> is_prefix b c = true -> is_prefix a c = true.
Proof.
  intros H1 H2. apply is_prefix_spec in H1 as [r1 ->]. apply is_prefix_spec in H2 as [r2 ->].
  rewrite <- app_assoc. apply is_prefix_app.
Qed.

(** Two prefixes of the same list are comparable. *)
Lemma prefixes_comparable a b l :
  is_prefix a l = true -> is_prefix b l = true -> is_prefix a b = true \/ is_prefix b a = true.
Proof.
  revert b l. induction a as [|x a IH]; intros b l Ha Hb; [now left|].
  destruct b as [|y b]; [now right|].
  destruct l as [|z l]; cbn [is_prefix] in *; [discriminate|].
  apply andb_true_iff in Ha as [A1 A2]. apply andb_true_iff in Hb as [B1 B2].
  apply N.eqb_eq in A1, B1. subst. rewrite N.eqb_refl. cbn [andb]. eapply IH; eassumption.
Qed.

Lemma both_match_conflict p q path :
  matches p path = true -> matches q path = true -> conflict p q = true.
Proof.
  destruct p as [a|s], q as [b|u]; cbn [matches conflict]; intros H1 H2.
  - apply bytes_eqb_eq in H1, H2. subst. apply bytes_eqb_refl.
  - apply bytes_eqb_eq in H1. now subst.
  - apply bytes_eqb_eq in H2. now subst.
  - destruct (prefixes_comparable _ _ _ H1 H2) as [H|H]; rewrite H; [reflexivity|apply orb_true_r].
Qed.

Lemma conflict_sym p q : conflict p q = conflict q p.
Proof.
  destruct p as [a|s], q as [b|u]; cbn [conflict]; try reflexivity.
  - destruct (bytes_eqb a b) eqn:E.
    + apply bytes_eqb_eq in E. subst. now rewrite bytes_eqb_refl.
    + destruct (bytes_eqb b a) eqn:E2; [|reflexivity]. apply bytes_eqb_eq in E2. subst.
      now rewrite bytes_eqb_refl in E.
  - apply orb_comm.
Qed.

(** exactly-one-service *)
Lemma no_match_count r path :
  (forall e, In e r -> matches (e_pat e) path = false) -> count_matches r path = O.
Proof.
  induction r as [|e r IH]; intros H; [reflexivity|].
  cbn [count_matches]. rewrite (H e (or_introl eq_refl)). rewrite IH; [reflexivity|].
  intros e' He'. apply H. now right.
Qed.

Lemma compatible_count r path : compatible r = true -> (count_matches r path <= 1)%nat.
Proof.
  induction r as [|e r IH]; intros C; [cbn; lia|].
  cbn [compatible] in C. apply andb_true_iff in C as [C1 C3]. apply andb_true_iff in C1 as [C1 C2].
  cbn [count_matches]. destruct (matches (e_pat e) path) eqn:M.
  - rewrite no_match_count; [lia|]. intros e' He'.
    destruct (matches (e_pat e') path) eqn:M'; [|reflexivity].
    pose proof (both_match_conflict _ _ _ M M') as K.
    apply negb_true_iff in C2. rewrite <- C2. symmetry. apply existsb_exists. exists e'. now split.
  - specialize (IH C3). lia.
Qed.

Lemma dispatch_found_in r path svc ls :
  dispatch r path = Found svc ls ->
  exists e, In e r /\ matches (e_pat e) path = true /\ e_svc e = svc /\ e_layers e = ls.
Proof.
  induction r as [|e r IH]; cbn [dispatch]; [discriminate|].
  destruct (matches (e_pat e) path) eqn:M.
  - intros H. inversion H; subst. exists e. repeat split; auto. now left.
  - intros H. destruct (IH H) as [e' [A B]]. exists e'. split; [now right|exact B].
Qed.

Lemma dispatch_not_found r path :
  dispatch r path = NotFound <-> (forall e, In e r -> matches (e_pat e) path = false).
Proof.
  induction r as [|e r IH]; cbn [dispatch].
  - split; [intros _ e []|reflexivity].
  - destruct (matches (e_pat e) path) eqn:M.
    + split; [discriminate|]. intros H. rewrite (H e (or_introl eq_refl)) in M. discriminate.
    + rewrite IH. split.
      * intros H e' [<-|He']; [exact M|now apply H].
      * intros H e' He'. apply H. now right.
Qed.

(** In a compatible table the matching entry is the one dispatched to, wherever it sits. *)
Lemma dispatch_in r path e :
  compatible r = true -> In e r -> matches (e_pat e) path = true ->
  dispatch r path = Found (e_svc e) (e_layers e).
Proof.
  induction r as [|e0 r IH]; intros C Hin M; [contradiction|].
  cbn [compatible] in C. apply andb_true_iff in C as [C1 C3]. apply andb_true_iff in C1 as [C1 C2].
  cbn [dispatch]. destruct Hin as [->|Hin]; [now rewrite M|].
  destruct (matches (e_pat e0) path) eqn:M0; [|now apply IH].
  exfalso. pose proof (both_match_conflict _ _ _ M0 M) as K.
  apply negb_true_iff in C2. assert (existsb (fun e' => conflict (e_pat e0) (e_pat e')) r = true).
  { apply existsb_exists. exists e. now split. }
  congruence.
Qed.

Lemma exact_hits r a svc ls :
  compatible r = true -> In (mkEntry (Exact a) svc ls) r -> dispatch r a = Found svc ls.
Proof.
  intros C Hin. apply (dispatch_in r a _ C Hin). cbn. apply bytes_eqb_refl.
Qed.

Lemma tail_hits r s svc ls rest :
  compatible r = true -> In (mkEntry (Tail s) svc ls) r -> dispatch r (s ++ rest) = Found svc ls.
Proof.
  intros C Hin. apply (dispatch_in r (s ++ rest) _ C Hin). cbn. apply is_prefix_app.
Qed.

(** compat is preserved by every builder operation *)
Lemma compatible_app_one r e :
  compatible r = true -> starts_with_slash (pat_path (e_pat e)) = true ->
  existsb (fun e' => conflict (e_pat e) (e_pat e')) r = false ->
  compatible (r ++ [e]) = true.
Proof.
  induction r as [|e0 r IH]; intros C S X.
  - cbn. now rewrite S.
  - cbn [compatible app] in *. apply andb_true_iff in C as [C1 C3]. apply andb_true_iff in C1 as [C1 C2].
    cbn [existsb] in X. apply orb_false_iff in X as [X1 X2].
    rewrite C1. cbn [andb]. rewrite IH by assumption. rewrite andb_true_r.
    rewrite existsb_app. cbn [existsb]. apply negb_true_iff in C2. rewrite C2.
    rewrite conflict_sym, X1. reflexivity.
Qed.

Lemma route_some r p svc ls r' :
  route r p svc ls = Some r' ->
  r' = r ++ [mkEntry p svc ls] /\ starts_with_slash (pat_path p) = true
  /\ existsb (fun e => conflict p (e_pat e)) r = false.
Proof.
  unfold route. destruct (starts_with_slash (pat_path p)) eqn:S; cbn [andb]; [|discriminate].
  destruct (existsb (fun e => conflict p (e_pat e)) r) eqn:X; cbn [negb]; [discriminate|].
  intros H. inversion H. auto.
Qed.

Lemma route_compatible r p svc ls r' :
  compatible r = true -> route r p svc ls = Some r' -> compatible r' = true.
Proof.
  intros C H. apply route_some in H as [-> [S X]]. now apply compatible_app_one.
Qed.

Lemma existsb_map {A B} (f : B -> bool) (g : A -> B) l :
  existsb f (map g l) = existsb (fun x => f (g x)) l.
Proof. induction l as [|x l IH]; [reflexivity|]. cbn [map existsb]. now rewrite IH. Qed.

Lemma route_layer_compatible l r : compatible (route_layer l r) = compatible r.
Proof.
  induction r as [|e r IH]; [reflexivity|].
  cbn [route_layer map compatible e_pat]. fold (route_layer l r). rewrite IH.
  unfold route_layer. rewrite existsb_map. reflexivity.
Qed.

Definition add_layer (l : N) (d : dispatched) : dispatched :=
  match d with Found svc ls => Found svc (l :: ls) | NotFound => NotFound end.

(** A route layer applies to exactly the routes present when it is called ... *)
Lemma route_layer_dispatch l r path :
  dispatch (route_layer l r) path = add_layer l (dispatch r path).
Proof.
  induction r as [|e r IH]; [reflexivity|].
  cbn [route_layer map dispatch e_pat e_svc e_layers]. fold (route_layer l r).
  destruct (matches (e_pat e) path); [reflexivity|exact IH].
Qed.

Lemma dispatch_app r1 r2 path :
  dispatch (r1 ++ r2) path =
  match dispatch r1 path with Found s ls => Found s ls | NotFound => dispatch r2 path end.
Proof.
  induction r1 as [|e r1 IH]; [reflexivity|].
  cbn [app dispatch]. destruct (matches (e_pat e) path); [reflexivity|exact IH].
Qed.

(** ... and not to a route registered afterwards. *)
Lemma route_after_layer l r p svc r' path :
  route (route_layer l r) p svc [] = Some r' -> matches p path = true ->
  compatible r = true -> dispatch r' path = Found svc [].
Proof.
  intros H M C. pose proof H as H0. apply route_some in H as [-> [S X]].
  assert (C' : compatible (route_layer l r ++ [mkEntry p svc []]) = true).
  { eapply route_compatible; [|exact H0]. now rewrite route_layer_compatible. }
  apply (dispatch_in _ path (mkEntry p svc []) C'); [|exact M].
  apply in_or_app. right. now left.
Qed.

(** merge *)
Lemma merge_compatible o : forall r r', compatible r = true -> merge r o = Some r' -> compatible r' = true.
Proof.
  induction o as [|e o IH]; intros r r' C H; cbn [merge] in H.
  - now inversion H; subst.
  - destruct (route r (e_pat e) (e_svc e) (e_layers e)) as [r1|] eqn:E; [|discriminate].
    eapply IH; [|exact H]. eapply route_compatible; eassumption.
Qed.

Lemma merge_app o : forall r r', merge r o = Some r' -> r' = r ++ o.
Proof.
  induction o as [|e o IH]; intros r r' H; cbn [merge] in H.
  - inversion H. now rewrite app_nil_r.
  - destruct (route r (e_pat e) (e_svc e) (e_layers e)) as [r1|] eqn:E; [|discriminate].
    apply route_some in E as [-> _]. rewrite (IH _ _ H), <- app_assoc. cbn [app].
    destruct e; reflexivity.
Qed.

(** Merging preserves every route's service and its route-level middleware, on both sides. *)
Lemma merge_preserves r o r' path :
  merge r o = Some r' ->
  dispatch r' path =
  match dispatch r path with Found s ls => Found s ls | NotFound => dispatch o path end.
Proof. intros H. rewrite (merge_app _ _ _ H). apply dispatch_app. Qed.

Lemma merge_preserves_other_side r o r' path svc ls :
  compatible r = true -> merge r o = Some r' -> dispatch o path = Found svc ls ->
  dispatch r' path = Found svc ls.
Proof.
  intros C H D. pose proof (merge_compatible _ _ _ C H) as C'.
  rewrite (merge_app _ _ _ H) in *.
  destruct (dispatch_found_in _ _ _ _ D) as [e [Hin [M [<- <-]]]].
  apply (dispatch_in _ path e C'); [|exact M]. apply in_or_app. now right.
Qed.

(** every table a builder program produces is compatible *)
Lemma build_compatible fuel : forall ops r r',
  compatible r = true -> build fuel ops r = Some r' -> compatible r' = true.
Proof.
  induction fuel as [|f IH]; intros ops r r' C H; [discriminate|].
  cbn [build] in H. destruct ops as [|o t]; [now inversion H; subst|].
  destruct o as [p svc|name svc|l|sub].
  - destruct (route r p svc []) as [r1|] eqn:E; [|discriminate].
    eapply IH; [|exact H]. eapply route_compatible; eassumption.
  - unfold add_rpc_service in H. destruct (route r (Tail (rpc_prefix name)) svc []) as [r1|] eqn:E; [|discriminate].
    eapply IH; [|exact H]. eapply route_compatible; eassumption.
  - eapply IH; [|exact H]. now rewrite route_layer_compatible.
  - destruct (build f sub []) as [o|] eqn:E1; [|discriminate].
    destruct (merge r o) as [r1|] eqn:E2; [|discriminate].
    eapply IH; [|exact H]. eapply merge_compatible; eassumption.
Qed.

Lemma build_dispatch_functional fuel ops r' path :
  build fuel ops [] = Some r' -> (count_matches r' path <= 1)%nat.
Proof. intros H. apply compatible_count. eapply build_compatible; [|exact H]. reflexivity. Qed.

(** unmatched routes, the empty route in particular *)
Lemma empty_path_not_found r : compatible r = true -> dispatch r [] = NotFound.
Proof.
  intros C. apply dispatch_not_found. intros e He.
  assert (S : starts_with_slash (pat_path (e_pat e)) = true).
  { clear -C He. induction r as [|e0 r IH]; [contradiction|].
    cbn [compatible] in C. apply andb_true_iff in C as [C1 C3]. apply andb_true_iff in C1 as [C1 C2].
    destruct He as [<-|He]; [exact C1|now apply IH]. }
  destruct (e_pat e) as [a|s]; cbn [pat_path matches] in *.
  - destruct a; [discriminate|reflexivity].
  - destruct s; [discriminate|reflexivity].
Qed.

Lemma no_leading_slash_not_found r b path :
  compatible r = true -> b <> slash -> dispatch r (b :: path) = NotFound.
Proof.
  intros C Hb. apply dispatch_not_found. intros e He.
  assert (S : starts_with_slash (pat_path (e_pat e)) = true).
  { clear -C He. induction r as [|e0 r IH]; [contradiction|].
    cbn [compatible] in C. apply andb_true_iff in C as [C1 C3]. apply andb_true_iff in C1 as [C1 C2].
    destruct He as [<-|He]; [exact C1|now apply IH]. }
  destruct (e_pat e) as [a|s]; cbn [pat_path matches] in *.
  - destruct a as [|x a]; [reflexivity|]. cbn [starts_with_slash] in S. apply N.eqb_eq in S. subst x.
    cbn [bytes_eqb]. destruct (N.eqb_spec slash b); [congruence|reflexivity].
  - destruct s as [|x s]; [discriminate|]. cbn [starts_with_slash] in S. apply N.eqb_eq in S. subst x.
    cbn [is_prefix]. destruct (N.eqb_spec slash b); [congruence|reflexivity].
Qed.

(** an RPC service is reachable under exactly its prefix *)
Lemma rpc_service_prefix r name svc r' rest :
  compatible r = true -> add_rpc_service r name svc = Some r' ->
  dispatch r' (rpc_prefix name ++ rest) = Found svc [].
Proof.
  intros C H. unfold add_rpc_service in H.
  pose proof (route_compatible _ _ _ _ _ C H) as C'.
  apply route_some in H as [-> _].
  apply (tail_hits _ (rpc_prefix name) svc [] rest C'). apply in_or_app. right. now left.
Qed.

Lemma route_then_dispatch r p svc ls r' path :
  compatible r = true -> route r p svc ls = Some r' -> matches p path = true ->
  dispatch r' path = Found svc ls.
Proof.
  intros C H M. pose proof (route_compatible _ _ _ _ _ C H) as C'.
  apply route_some in H as [-> _].
  apply (dispatch_in _ path (mkEntry p svc ls) C'); [|exact M]. apply in_or_app. right. now left.
Qed.

(** registering a route never changes where other paths go *)
Lemma route_preserves_others r p svc ls r' path :
  route r p svc ls = Some r' -> matches p path = false -> dispatch r' path = dispatch r path.
Proof.
  intros H M. apply route_some in H as [-> _]. rewrite dispatch_app. cbn [dispatch e_pat].
  rewrite M. destruct (dispatch r path); reflexivity.
Qed.
