From AnemoVerif Require Import Base AuthLayer.

Lemma invoked_iff_accepted auth r :
  (exists r', call auth r = Invoke r') <-> snd (auth r) = None.
Proof.
  unfold call. destruct (auth r) as [r' [[st p]|]]; cbn [snd]; split; intros H.
  - destruct H; discriminate.
  - discriminate.
  - reflexivity.
  - now exists r'.
Qed.

Lemma refusal_is_authorizers_response auth r st p :
  snd (auth r) = Some (st, p) -> call auth r = Reply st p.
Proof. unfold call. destruct (auth r) as [r' [[st' p']|]]; cbn [snd]; intros H; now inversion H. Qed.

Lemma reply_only_from_authorizer auth r st p :
  call auth r = Reply st p -> snd (auth r) = Some (st, p).
Proof. unfold call. destruct (auth r) as [r' [[st' p']|]]; cbn [snd]; intros H; now inversion H. Qed.

Lemma mem_in p l : mem p l = true <-> In p l.
Proof.
  unfold mem. rewrite existsb_exists. split.
  - intros [x [Hx E]]. apply N.eqb_eq in E. now subst.
  - intros H. exists p. split; [assumption|apply N.eqb_refl].
Qed.

Lemma allow_list_exact l r :
  match a_sender r with
  | None => call (allowed_peers l) r = Reply 500 0
  | Some p => (In p l -> call (allowed_peers l) r = Invoke r)
              /\ (~ In p l -> call (allowed_peers l) r = Reply 404 0)
  end.
Proof.
  unfold call, allowed_peers. destruct (a_sender r) as [p|]; [|reflexivity].
  destruct (mem p l) eqn:E; split; intros H; try reflexivity.
  - apply mem_in in E. contradiction.
  - apply mem_in in H. congruence.
Qed.

Lemma calls_independent auth reqs i d :
  (i < length reqs)%nat -> nth i (run auth reqs) (call auth d) = call auth (nth i reqs d).
Proof. intros H. unfold run. now rewrite map_nth. Qed.

Lemma run_app auth a b : run auth (a ++ b) = run auth a ++ run auth b.
Proof. unfold run. apply map_app. Qed.

Lemma invocations_exact auth reqs :
  invocations (run auth reqs) =
  map (fun r => fst (auth r)) (filter (fun r => match snd (auth r) with None => true | Some _ => false end) reqs).
Proof.
  induction reqs as [|r t IH]; [reflexivity|].
  unfold run in *. cbn [map filter]. unfold call at 1.
  destruct (auth r) as [r' [[st p]|]] eqn:E; cbn [snd fst invocations map]; rewrite IH; try rewrite E; reflexivity.
Qed.

Lemma length_run auth reqs : length (run auth reqs) = length reqs.
Proof. unfold run. apply map_length. Qed.
