From AnemoVerif Require Import Base Utf8 Bincode Status Wire.
From AnemoVerif.Proofs Require Import Base_proofs Bincode_proofs.
From Coq Require Import Arith ZifyN ZifyNat ZifyBool Permutation.

Lemma pairs_utf8_eq h : Wire.pairs_utf8 h = Bincode_proofs.pairs_utf8 h.
Proof. reflexivity. Qed.

Lemma status_new_to_u16 s : status_new (status_to_u16 s) = Some s.
Proof. destruct s; reflexivity. Qed.

Lemma status_new_some c s : status_new c = Some s -> c = status_to_u16 s.
Proof.
  unfold status_new.
  repeat (match goal with |- context [?x =? ?y] => destruct (N.eqb_spec x y) as [->|] end;
          [intros E; inversion E; reflexivity|]).
  discriminate.
Qed.

Lemma status_to_u16_lt s : status_to_u16 s < 65536.
Proof. destruct s; cbn; lia. Qed.

Lemma preamble_length v : length (preamble v) = 8%nat.
Proof. unfold preamble. rewrite !app_length, length_be_bytes. reflexivity. Qed.

Lemma parse_preamble_ok r : parse_preamble (preamble 1 ++ r) = Ok (1, r).
Proof. reflexivity. Qed.

Lemma parse_preamble_short s : (length s < 8)%nat -> parse_preamble s = Err EShort.
Proof.
  intros H. do 8 (destruct s as [|? s]; [reflexivity|]). cbn [length] in H. lia.
Qed.

Lemma dec_frame_enc max b r :
  len b <= max -> max <= u32_max ->
  dec_frame max (be_bytes 4 (len b) ++ b ++ r) = Ok (b, r).
Proof.
  intros H1 H2. unfold dec_frame.
  rewrite take_app by (now rewrite len_be_bytes).
  rewrite be_val_be_bytes by (rewrite pow_4; unfold u32_max in H2; lia).
  destruct (N.ltb_spec max (len b)); [lia|].
  now rewrite take_app by reflexivity.
Qed.

(** Every strict prefix of [frame ++ anything] where only a strict prefix of the frame is
    present is an incomplete frame. *)
Lemma dec_frame_prefix max b y m :
  len b <= max -> max <= u32_max -> (m < 4 + length b)%nat ->
  dec_frame max (firstn m ((be_bytes 4 (len b) ++ b) ++ y)) = Err EShort.
Proof.
  intros H1 H2 Hm. unfold dec_frame.
  destruct (Nat.lt_ge_cases m 4) as [Hlt|Hge].
  - rewrite take_none; [reflexivity|]. unfold len. rewrite firstn_length. lia.
  - rewrite <- app_assoc. rewrite firstn_app_ge by (rewrite length_be_bytes; lia).
    rewrite length_be_bytes.
    rewrite take_app by (now rewrite len_be_bytes).
    rewrite be_val_be_bytes by (rewrite pow_4; unfold u32_max in H2; lia).
    destruct (N.ltb_spec max (len b)); [lia|].
    rewrite take_none; [reflexivity|].
    unfold len. rewrite firstn_length. lia.
Qed.

Lemma enc_frame_ok max b : len b <= max -> enc_frame max b = Ok (be_bytes 4 (len b) ++ b).
Proof. intros H. unfold enc_frame. destruct (N.ltb_spec max (len b)); [lia|reflexivity]. Qed.

Lemma enc_frame_iff max b : is_ok (enc_frame max b) = true <-> len b <= max.
Proof.
  unfold enc_frame. destruct (N.ltb_spec max (len b)); cbn [is_ok]; split; intros; try lia; auto; discriminate.
Qed.

Lemma dec_req_header_enc route h :
  utf8_valid route = true -> Wire.pairs_utf8 h = true ->
  len (req_header_bytes route h) < two64 ->
  dec_req_header (req_header_bytes route h) = Some (route, h).
Proof.
  intros Hr Hh Hl. unfold dec_req_header, req_header_bytes in *.
  rewrite len_app, len_enc_str in Hl.
  rewrite dec_str_enc by (auto; lia).
  rewrite <- (app_nil_r (enc_map h)).
  rewrite dec_map_enc by (auto; lia). reflexivity.
Qed.

Lemma dec_resp_header_enc st h :
  Wire.pairs_utf8 h = true ->
  len (resp_header_bytes st h) < two64 ->
  dec_resp_header (resp_header_bytes st h) = Some (status_to_u16 st, h).
Proof.
  intros Hh Hl. unfold dec_resp_header, resp_header_bytes in *.
  unfold enc_u16 in Hl. rewrite len_app, len_le_bytes in Hl.
  rewrite dec_u16_enc by apply status_to_u16_lt.
  rewrite <- (app_nil_r (enc_map h)).
  rewrite dec_map_enc by (auto; lia). reflexivity.
Qed.

Ltac ok_inj E :=
  match type of E with
  | Ok ?a = Ok ?b =>
      let E' := fresh in
      assert (E' : a = b)
        by exact (f_equal (fun x => match x with Ok y => y | Err _ => a end) E);
      clear E; subst b
  end.

Ltac split_wf H :=
  repeat match type of H with
         | (_ && _) = true => let H' := fresh "W" in apply andb_true_iff in H as [H H']
         end.

Lemma enc_request_bytes max r :
  wf_request max r = true ->
  enc_request max r =
  Ok (preamble 1 ++ (be_bytes 4 (len (req_header_bytes (rq_route r) (rq_headers r)))
                      ++ req_header_bytes (rq_route r) (rq_headers r))
                 ++ (be_bytes 4 (len (rq_body r)) ++ rq_body r)).
Proof.
  intros W. unfold wf_request in W. split_wf W.
  unfold enc_request, enc_message.
  rewrite !enc_frame_ok by lia.
  apply N.eqb_eq in W. now rewrite W.
Qed.

Lemma enc_response_bytes max r :
  wf_response max r = true ->
  enc_response max r =
  Ok (preamble 1 ++ (be_bytes 4 (len (resp_header_bytes (rs_status r) (rs_headers r)))
                      ++ resp_header_bytes (rs_status r) (rs_headers r))
                 ++ (be_bytes 4 (len (rs_body r)) ++ rs_body r)).
Proof.
  intros W. unfold wf_response in W. split_wf W.
  unfold enc_response, enc_message.
  rewrite !enc_frame_ok by lia.
  apply N.eqb_eq in W. now rewrite W.
Qed.

Lemma request_roundtrip max r rest bs :
  wf_request max r = true -> enc_request max r = Ok bs ->
  dec_request max (bs ++ rest) = Ok (strip_req r, rest).
Proof.
  intros W E. rewrite enc_request_bytes in E by assumption. ok_inj E.
  unfold wf_request in W. split_wf W.
  unfold dec_request. rewrite <- !app_assoc. rewrite parse_preamble_ok.
  rewrite dec_frame_enc by lia.
  rewrite dec_req_header_enc by (auto; unfold two64, u32_max in *; lia).
  rewrite dec_frame_enc by lia.
  apply N.eqb_eq in W. unfold strip_req. now rewrite W.
Qed.

Lemma response_roundtrip max r rest bs :
  wf_response max r = true -> enc_response max r = Ok bs ->
  dec_response max (bs ++ rest) = Ok (strip_resp r, rest).
Proof.
  intros W E. rewrite enc_response_bytes in E by assumption. ok_inj E.
  unfold wf_response in W. split_wf W.
  unfold dec_response. rewrite <- !app_assoc. rewrite parse_preamble_ok.
  rewrite dec_frame_enc by lia.
  rewrite dec_resp_header_enc by (auto; unfold two64, u32_max in *; lia).
  rewrite status_new_to_u16.
  rewrite dec_frame_enc by lia.
  apply N.eqb_eq in W. unfold strip_resp. now rewrite W.
Qed.

(** Strict prefixes. *)
Lemma message_prefix_short max hdr body n (K : Type)
      (k : bytes -> bytes -> res K) :
  len hdr <= max -> len body <= max -> max <= u32_max ->
  (n < 8 + (4 + length hdr) + (4 + length body))%nat ->
  let bs := preamble 1 ++ (be_bytes 4 (len hdr) ++ hdr) ++ (be_bytes 4 (len body) ++ body) in
  match parse_preamble (firstn n bs) with
  | Err e => Err e
  | Ok (v, r0) =>
      match dec_frame max r0 with
      | Err e => Err e
      | Ok (h, r1) =>
          if bytes_eqb h hdr then
            match dec_frame max r1 with
            | Err e => Err e
            | Ok (b, r2) => k b r2
            end
          else Err EBincode
      end
  end = Err EShort.
Proof.
  intros Hh Hb Hm Hn bs. subst bs.
  destruct (Nat.lt_ge_cases n 8) as [Hlt|Hge].
  { rewrite parse_preamble_short; [reflexivity|]. rewrite firstn_length. lia. }
  rewrite firstn_app_ge by (rewrite preamble_length; lia).
  rewrite preamble_length. rewrite parse_preamble_ok.
  destruct (Nat.lt_ge_cases (n - 8) (4 + length hdr)) as [Hl2|Hg2].
  { rewrite dec_frame_prefix by (auto; lia). reflexivity. }
  rewrite firstn_app_ge by (rewrite app_length, length_be_bytes; lia).
  rewrite app_length, length_be_bytes.
  rewrite <- app_assoc. rewrite dec_frame_enc by lia.
  rewrite bytes_eqb_refl.
  rewrite <- (app_nil_r (be_bytes 4 (len body) ++ body)).
  rewrite dec_frame_prefix by (auto; lia). reflexivity.
Qed.

Lemma request_prefix_rejected max r bs n :
  wf_request max r = true -> enc_request max r = Ok bs -> (n < length bs)%nat ->
  dec_request max (firstn n bs) = Err EShort.
Proof.
  intros W E Hn. rewrite enc_request_bytes in E by assumption. ok_inj E.
  pose proof W as W0. unfold wf_request in W. split_wf W.
  rewrite !app_length, preamble_length, !length_be_bytes in Hn.
  set (hdr := req_header_bytes (rq_route r) (rq_headers r)) in *.
  pose proof (message_prefix_short max hdr (rq_body r) n _
               (fun b r2 => Ok (mkRequest 1 (rq_route r) (rq_headers r) b [], r2))) as P.
  cbv zeta in P. specialize (P ltac:(lia) ltac:(lia) ltac:(lia) ltac:(lia)).
  unfold dec_request.
  destruct (parse_preamble _) as [[v r0]|e]; [|exact P].
  destruct (dec_frame max r0) as [[h r1]|e]; [|exact P].
  destruct (bytes_eqb h hdr) eqn:Eh; [|discriminate].
  apply bytes_eqb_eq in Eh. subst h. unfold hdr at 1.
  rewrite dec_req_header_enc by (auto; fold hdr; unfold two64, u32_max in *; lia).
  destruct (dec_frame max r1) as [[b r2]|e]; [discriminate|exact P].
Qed.

Lemma response_prefix_rejected max r bs n :
  wf_response max r = true -> enc_response max r = Ok bs -> (n < length bs)%nat ->
  dec_response max (firstn n bs) = Err EShort.
Proof.
  intros W E Hn. rewrite enc_response_bytes in E by assumption. ok_inj E.
  pose proof W as W0. unfold wf_response in W. split_wf W.
  rewrite !app_length, preamble_length, !length_be_bytes in Hn.
  set (hdr := resp_header_bytes (rs_status r) (rs_headers r)) in *.
  pose proof (message_prefix_short max hdr (rs_body r) n _
               (fun b r2 => Ok (mkResponse 1 (rs_status r) (rs_headers r) b [], r2))) as P.
  cbv zeta in P. specialize (P ltac:(lia) ltac:(lia) ltac:(lia) ltac:(lia)).
  unfold dec_response.
  destruct (parse_preamble _) as [[v r0]|e]; [|exact P].
  destruct (dec_frame max r0) as [[h r1]|e]; [|exact P].
  destruct (bytes_eqb h hdr) eqn:Eh; [|discriminate].
  apply bytes_eqb_eq in Eh. subst h. unfold hdr at 1.
  rewrite dec_resp_header_enc by (auto; fold hdr; unfold two64, u32_max in *; lia).
  rewrite status_new_to_u16.
  destruct (dec_frame max r1) as [[b r2]|e]; [discriminate|exact P].
Qed.

(** Rejections. *)
Lemma bad_preamble_rejected a b c d e v1 v0 z rest :
  [a; b; c; d; e] <> magic \/ z <> 0 ->
  parse_preamble (a :: b :: c :: d :: e :: v1 :: v0 :: z :: rest) = Err EPreamble.
Proof.
  intros H. cbn [parse_preamble].
  destruct (bytes_eqb [a; b; c; d; e] magic) eqn:E1.
  - apply bytes_eqb_eq in E1. destruct H as [H|H]; [contradiction|].
    destruct (N.eqb_spec z 0); [contradiction|reflexivity].
  - reflexivity.
Qed.

Lemma unknown_version_rejected v rest :
  v < 65536 -> v <> 1 -> parse_preamble (preamble v ++ rest) = Err EVersion.
Proof.
  intros Hv Hne. unfold preamble, magic, be_bytes. cbn [le_bytes rev app].
  cbn [parse_preamble]. rewrite bytes_eqb_refl. cbn [andb N.eqb].
  unfold be_val. cbn [rev app le_val].
  replace (v mod 256 + 256 * (v / 256 mod 256 + 256 * 0)) with v.
  - unfold version_new. destruct (N.eqb_spec v 1); [contradiction|reflexivity].
  - pose proof (N.div_mod v 256). pose proof (N.mod_small (v / 256) 256).
    assert (v / 256 < 256) by (apply N.div_lt_upper_bound; lia). lia.
Qed.

Lemma unknown_status_rejected max code h body rest :
  code < 65536 -> status_new code = None -> Wire.pairs_utf8 h = true ->
  len (enc_u16 code ++ enc_map h) <= max -> max <= u32_max ->
  dec_response max (preamble 1 ++ (be_bytes 4 (len (enc_u16 code ++ enc_map h))
                                     ++ (enc_u16 code ++ enc_map h)) ++ body ++ rest)
  = Err EStatus.
Proof.
  intros Hc Hs Hh Hl Hm. unfold dec_response. rewrite parse_preamble_ok.
  rewrite <- app_assoc. rewrite dec_frame_enc by lia.
  unfold dec_resp_header. rewrite dec_u16_enc by assumption.
  unfold enc_u16 in Hl. rewrite len_app, len_le_bytes in Hl.
  rewrite <- (app_nil_r (enc_map h)).
  rewrite dec_map_enc by (auto; unfold two64, u32_max in *; lia).
  now rewrite Hs.
Qed.

(** Local extensions never travel. *)
Lemma ext_never_travels_req max r e :
  enc_request max (mkRequest (rq_version r) (rq_route r) (rq_headers r) (rq_body r) e)
  = enc_request max r.
Proof. reflexivity. Qed.

Lemma ext_never_travels_resp max r e :
  enc_response max (mkResponse (rs_version r) (rs_status r) (rs_headers r) (rs_body r) e)
  = enc_response max r.
Proof. reflexivity. Qed.

(** Hash order: any permutation of a duplicate-free header list denotes the same map. *)
Lemma lookup_not_in k l : ~ In k (map fst l) -> lookup k l = None.
Proof.
  induction l as [|[k' v] l IH]; intros H; [reflexivity|].
  cbn [lookup map fst In] in *. rewrite IH by tauto.
  destruct (bytes_eqb k k') eqn:E; [|reflexivity].
  apply bytes_eqb_eq in E. subst. tauto.
Qed.

Lemma lookup_in k v l : NoDup (map fst l) -> In (k, v) l -> lookup k l = Some v.
Proof.
  induction l as [|[k' v'] l IH]; intros Hn Hi; [contradiction|].
  cbn [map fst] in Hn. inversion Hn as [|? ? Hnot Hn']; subst.
  cbn [lookup]. destruct Hi as [E|Hi].
  - inversion E; subst. rewrite lookup_not_in by assumption. now rewrite bytes_eqb_refl.
  - now rewrite (IH Hn' Hi).
Qed.

Lemma lookup_perm l l' k :
  NoDup (map fst l) -> Permutation l l' -> lookup k l' = lookup k l.
Proof.
  intros Hn Hp.
  assert (Hn' : NoDup (map fst l')).
  { eapply Permutation_NoDup; [|exact Hn]. now apply Permutation_map. }
  destruct (lookup k l) as [v|] eqn:E.
  - assert (In (k, v) l).
    { clear Hp Hn'. induction l as [|[k0 v0] l IH]; [discriminate|].
      cbn [lookup] in E. cbn [map fst] in Hn. inversion Hn; subst.
      destruct (lookup k l) eqn:E2.
      - inversion E; subst. right. now apply IH.
      - destruct (bytes_eqb k k0) eqn:E3; [|discriminate].
        apply bytes_eqb_eq in E3. inversion E; subst. now left. }
    apply lookup_in; [assumption|]. eapply Permutation_in; eassumption.
  - apply lookup_not_in. intros Hin.
    apply in_map_iff in Hin as [[k0 v0] [Hk Hin]]. cbn [fst] in Hk. subst k0.
    apply Permutation_sym in Hp. pose proof (Permutation_in _ Hp Hin) as Hin2.
    rewrite (lookup_in k v0 l Hn Hin2) in E. discriminate.
Qed.

Lemma wf_request_perm max r h' :
  Permutation (rq_headers r) h' -> wf_request max r = true ->
  wf_request max (mkRequest (rq_version r) (rq_route r) h' (rq_body r) (rq_ext r)) = true.
Proof.
  intros Hp W. unfold wf_request in *. cbn [rq_version rq_route rq_headers rq_body].
  split_wf W. rewrite W, W4, W1, W0. cbn [andb].
  assert (E1 : Wire.pairs_utf8 h' = true).
  { unfold Wire.pairs_utf8 in *. rewrite forallb_forall in *. intros x Hx.
    apply W3. eapply Permutation_in; [apply Permutation_sym; eassumption|assumption]. }
  rewrite E1. cbn [andb]. rewrite andb_true_r.
  assert (E2 : forall l1 l2, Permutation l1 l2 -> len (enc_pairs l1) = len (enc_pairs l2)).
  { induction 1 as [|[k v] ? ? ? IH|[k1 v1] [k2 v2] ?|? ? ? ? IH1 ? IH2]; [reflexivity| | |lia].
    - rewrite !len_enc_pairs_cons. lia.
    - rewrite !len_enc_pairs_cons. lia. }
  unfold req_header_bytes, enc_map, enc_u64 in *.
  rewrite !len_app, !len_le_bytes in *.
  pose proof (E2 _ _ Hp) as E3. lia.
Qed.

Lemma wf_response_perm max r h' :
  Permutation (rs_headers r) h' -> wf_response max r = true ->
  wf_response max (mkResponse (rs_version r) (rs_status r) h' (rs_body r) (rs_ext r)) = true.
Proof.
  intros Hp W. unfold wf_response in *. cbn [rs_version rs_status rs_headers rs_body].
  split_wf W. rewrite W, W1, W0. cbn [andb].
  assert (E1 : Wire.pairs_utf8 h' = true).
  { unfold Wire.pairs_utf8 in *. rewrite forallb_forall in *. intros x Hx.
    apply W3. eapply Permutation_in; [apply Permutation_sym; eassumption|assumption]. }
  rewrite E1. cbn [andb]. rewrite andb_true_r.
  assert (E2 : forall l1 l2, Permutation l1 l2 -> len (enc_pairs l1) = len (enc_pairs l2)).
  { induction 1 as [|[k v] ? ? ? IH|[k1 v1] [k2 v2] ?|? ? ? ? IH1 ? IH2]; [reflexivity| | |lia].
    - rewrite !len_enc_pairs_cons. lia.
    - rewrite !len_enc_pairs_cons. lia. }
  unfold resp_header_bytes, enc_map, enc_u64, enc_u16 in *.
  rewrite !len_app, !len_le_bytes in *.
  pose proof (E2 _ _ Hp) as E3. lia.
Qed.

Lemma encode_total_req max r : wf_request max r = true -> exists bs, enc_request max r = Ok bs.
Proof. intros W. eexists. now apply enc_request_bytes. Qed.

Lemma encode_total_resp max r : wf_response max r = true -> exists bs, enc_response max r = Ok bs.
Proof. intros W. eexists. now apply enc_response_bytes. Qed.

(** Full round trip, for every order in which the hash map may hand out the headers. *)
Lemma request_roundtrip_perm max r h' rest :
  wf_request max r = true -> NoDup (map fst (rq_headers r)) -> Permutation (rq_headers r) h' ->
  exists bs r',
    enc_request max (mkRequest (rq_version r) (rq_route r) h' (rq_body r) (rq_ext r)) = Ok bs
    /\ dec_request max (bs ++ rest) = Ok (r', rest)
    /\ rq_version r' = rq_version r /\ rq_route r' = rq_route r /\ rq_body r' = rq_body r
    /\ rq_ext r' = []
    /\ forall k, lookup k (rq_headers r') = lookup k (rq_headers r).
Proof.
  intros W Hn Hp.
  pose proof (wf_request_perm max r h' Hp W) as W'.
  destruct (encode_total_req _ _ W') as [bs E].
  exists bs. eexists. split; [exact E|]. split; [apply request_roundtrip; eassumption|].
  cbn. repeat split; try reflexivity. intros k. now apply lookup_perm.
Qed.

Lemma response_roundtrip_perm max r h' rest :
  wf_response max r = true -> NoDup (map fst (rs_headers r)) -> Permutation (rs_headers r) h' ->
  exists bs r',
    enc_response max (mkResponse (rs_version r) (rs_status r) h' (rs_body r) (rs_ext r)) = Ok bs
    /\ dec_response max (bs ++ rest) = Ok (r', rest)
    /\ rs_version r' = rs_version r /\ rs_status r' = rs_status r /\ rs_body r' = rs_body r
    /\ rs_ext r' = []
    /\ forall k, lookup k (rs_headers r') = lookup k (rs_headers r).
Proof.
  intros W Hn Hp.
  pose proof (wf_response_perm max r h' Hp W) as W'.
  destruct (encode_total_resp _ _ W') as [bs E].
  exists bs. eexists. split; [exact E|]. split; [apply response_roundtrip; eassumption|].
  cbn. repeat split; try reflexivity. intros k. now apply lookup_perm.
Qed.

(** Layout, spelled out down to the bytes. *)
Definition le64 (n : N) : bytes := le_bytes 8 n.
Definition be32 (n : N) : bytes := be_bytes 4 n.

Fixpoint layout_pairs (l : list (bytes * bytes)) : bytes :=
  match l with
  | [] => []
  | (k, v) :: r => le64 (len k) ++ k ++ le64 (len v) ++ v ++ layout_pairs r
  end.

Lemma layout_pairs_eq l : enc_pairs l = layout_pairs l.
Proof.
  induction l as [|[k v] l IH]; [reflexivity|].
  cbn [enc_pairs layout_pairs]. unfold enc_str, enc_u64, le64. rewrite IH, <- !app_assoc. reflexivity.
Qed.

Lemma request_layout max r bs :
  rq_version r = 1 -> enc_request max r = Ok bs ->
  let H := le64 (len (rq_route r)) ++ rq_route r
           ++ le64 (len (rq_headers r)) ++ layout_pairs (rq_headers r) in
  bs = [97; 110; 101; 109; 111] ++ [0; 1] ++ [0]
       ++ be32 (len H) ++ H ++ be32 (len (rq_body r)) ++ rq_body r.
Proof.
  intros Hv E H. unfold enc_request, enc_message, enc_frame in E. rewrite Hv in E.
  assert (EH : req_header_bytes (rq_route r) (rq_headers r) = H).
  { unfold req_header_bytes, enc_str, enc_map, enc_u64, H, le64.
    rewrite layout_pairs_eq, <- !app_assoc. reflexivity. }
  rewrite EH in E.
  destruct (max <? len H); [discriminate|].
  destruct (max <? len (rq_body r)); [discriminate|].
  ok_inj E. unfold be32. rewrite <- !app_assoc. reflexivity.
Qed.

Lemma response_layout max r bs :
  rs_version r = 1 -> enc_response max r = Ok bs ->
  let H := le_bytes 2 (status_to_u16 (rs_status r))
           ++ le64 (len (rs_headers r)) ++ layout_pairs (rs_headers r) in
  bs = [97; 110; 101; 109; 111] ++ [0; 1] ++ [0]
       ++ be32 (len H) ++ H ++ be32 (len (rs_body r)) ++ rs_body r.
Proof.
  intros Hv E H. unfold enc_response, enc_message, enc_frame in E. rewrite Hv in E.
  assert (EH : resp_header_bytes (rs_status r) (rs_headers r) = H).
  { unfold resp_header_bytes, enc_u16, enc_map, enc_u64, H, le64.
    rewrite layout_pairs_eq, <- ?app_assoc. reflexivity. }
  rewrite EH in E.
  destruct (max <? len H); [discriminate|].
  destruct (max <? len (rs_body r)); [discriminate|].
  ok_inj E. unfold be32. rewrite <- !app_assoc. reflexivity.
Qed.

Lemma version_new_only_one v : (exists x, version_new v = Ok x) <-> v = 1.
Proof.
  unfold version_new. destruct (N.eqb_spec v 1) as [->|Hne]; split; intros H.
  - reflexivity.
  - now exists 1.
  - destruct H; discriminate.
  - contradiction.
Qed.
