From AnemoVerif Require Import Base Gcra.
From AnemoVerif.Proofs Require Import Base_proofs.
From Coq Require Import Arith ZArith ZifyN ZifyNat ZifyBool.

Lemma step_refused_keeps q tat now : fst (gcra_step q tat now) = false -> snd (gcra_step q tat now) = tat.
Proof. unfold gcra_step. destruct (now <? tat - tau q); [reflexivity|discriminate]. Qed.

Lemma step_admitted q tat now :
  fst (gcra_step q tat now) = true ->
  tat - tau q <= now /\ snd (gcra_step q tat now) = N.max tat now + q_t q.
Proof.
  unfold gcra_step. destruct (N.ltb_spec now (tat - tau q)); cbn [fst snd]; [discriminate|].
  intros _. split; [assumption|reflexivity].
Qed.

(** Refused requests never reach the service, and carry a positive hint when the clock is read
    at the decision instant. *)
Lemma refused_never_forwarded q st k now na w st' :
  rate_call q st k now na = (TooMany w, st') ->
  fst (gcra_step q (tat_of q st k now) now) = false /\ st' = kset k (tat_of q st k now) st.
Proof.
  unfold rate_call. destruct (gcra_step q (tat_of q st k now) now) as [ok tat'] eqn:E.
  destruct ok; intros H; inversion H; subst. cbn [fst]. split; [reflexivity|].
  pose proof (step_refused_keeps q (tat_of q st k now) now) as K. rewrite E in K. cbn in K.
  now rewrite K.
Qed.

Lemma forwarded_iff_admitted q st k now na :
  fst (rate_call q st k now na) = Forward <-> fst (gcra_step q (tat_of q st k now) now) = true.
Proof.
  unfold rate_call. destruct (gcra_step q (tat_of q st k now) now) as [[|] tat']; cbn [fst];
    split; intros H; try reflexivity; discriminate.
Qed.

Lemma wait_hint_positive q st k now na w st' :
  rate_call q st k now na = (TooMany w, st') ->
  0 < w /\ (na = now -> w = tat_of q st k now - tau q - now).
Proof.
  unfold rate_call, wait_hint, gcra_step.
  destruct (N.ltb_spec now (tat_of q st k now - tau q)) as [L|L]; intros HH; inversion HH; subst.
  split; [lia|]. intros ->. lia.
Qed.

(** After waiting out the hint the same request conforms (absent other traffic of that key). *)
Lemma hint_is_sufficient q tat now :
  fst (gcra_step q tat now) = false ->
  fst (gcra_step q tat (now + wait_hint q tat now)) = true.
Proof.
  unfold gcra_step, wait_hint. destruct (N.ltb_spec now (tat - tau q)); [|discriminate].
  intros _. destruct (N.ltb_spec (now + (tat - tau q - now)) (tat - tau q)); [lia|reflexivity].
Qed.

Lemma block_admit_time_conforms q tat now :
  fst (gcra_step q tat (block_admit_time q tat now)) = true /\ now <= block_admit_time q tat now.
Proof.
  unfold gcra_step, block_admit_time.
  destruct (N.ltb_spec (N.max now (tat - tau q)) (tat - tau q)); cbn [fst]; split; lia.
Qed.

(** keys *)
Lemma kget_kset_same k v st : kget k (kset k v st) = Some v.
Proof.
  induction st as [|[k' v'] r IH]; cbn [kset kget].
  - now rewrite N.eqb_refl.
  - destruct (N.eqb_spec k' k) as [->|Hne]; cbn [kget].
    + now rewrite N.eqb_refl.
    + destruct (N.eqb_spec k' k); [contradiction|exact IH].
Qed.

Lemma kget_kset_other k k2 v st : k2 <> k -> kget k2 (kset k v st) = kget k2 st.
Proof.
  intros Hne. induction st as [|[k' v'] r IH]; cbn [kset kget].
  - destruct (N.eqb_spec k k2); [congruence|reflexivity].
  - destruct (N.eqb_spec k' k) as [->|Hx]; cbn [kget].
    + destruct (N.eqb_spec k k2); [congruence|reflexivity].
    + destruct (N.eqb_spec k' k2); [reflexivity|exact IH].
Qed.

Lemma keys_independent q st k k2 now na :
  k2 <> k -> kget k2 (snd (rate_call q st k now na)) = kget k2 st.
Proof.
  intros Hne. unfold rate_call. destruct (gcra_step q (tat_of q st k now) now) as [ok tat'].
  cbn [snd]. now apply kget_kset_other.
Qed.

Lemma keys_independent_decision q st k k2 now na now2 na2 :
  k2 <> k ->
  fst (rate_call q (snd (rate_call q st k now na)) k2 now2 na2) = fst (rate_call q st k2 now2 na2).
Proof.
  intros Hne. pose proof (keys_independent q st k k2 now na Hne) as K.
  unfold rate_call at 1 3. unfold tat_of. rewrite K.
  destruct (gcra_step q match kget k2 st with Some v => v | None => now2 + q_t q end now2) as [ok t'].
  reflexivity.
Qed.

(** The window bound.  Potential: phi(tat) = b + tau + t - max(tat, a). *)
Lemma admitted_in_potential q : forall ts tat a b,
  (forall x, In x ts -> a <= x) -> a <= b ->
  admitted_in q tat ts a b * q_t q + N.max tat a <= b + tau q + q_t q
  \/ admitted_in q tat ts a b = 0.
Proof.
  induction ts as [|now r IH]; intros tat a b Hall Hab; [right; reflexivity|].
  cbn [admitted_in].
  destruct (gcra_step q tat now) as [ok tat'] eqn:E.
  assert (Hr : forall x, In x r -> a <= x) by (intros x Hx; apply Hall; now right).
  assert (Hnow : a <= now) by (apply Hall; now left).
  destruct ok.
  - pose proof (step_admitted q tat now) as SA. rewrite E in SA. cbn [fst snd] in SA.
    destruct (SA eq_refl) as [Hear Htat]. subst tat'.
    destruct (N.leb_spec a now); [|lia]. cbn [andb].
    destruct (N.leb_spec now b) as [Hb|Hb].
    + destruct (IH (N.max tat now + q_t q) a b Hr Hab) as [I|I]; left; lia.
    + (* now > b: this one is not counted; the rest is beyond b as well only if sorted, but the
         potential argument does not need that *)
      destruct (IH (N.max tat now + q_t q) a b Hr Hab) as [I|I]; [left; lia|right; lia].
  - pose proof (step_refused_keeps q tat now) as K. rewrite E in K. cbn [fst snd] in K.
    rewrite (K eq_refl). cbn [andb]. rewrite N.add_0_l. apply IH; assumption.
Qed.

Lemma admitted_skip_before q tat now r a b :
  now < a -> admitted_in q tat (now :: r) a b = admitted_in q (snd (gcra_step q tat now)) r a b.
Proof.
  intros H. cbn [admitted_in]. destruct (gcra_step q tat now) as [ok tat']. cbn [snd].
  destruct (N.leb_spec a now); [lia|]. rewrite andb_false_r. cbn [andb]. lia.
Qed.

Lemma sorted_tail x r : sorted (x :: r) = true -> sorted r = true.
Proof. cbn [sorted]. destruct r; [reflexivity|]. intros H. apply andb_true_iff in H. tauto. Qed.

Lemma sorted_head_le x r : sorted (x :: r) = true -> forall y, In y r -> x <= y.
Proof.
  revert x. induction r as [|z r IH]; intros x H y Hy; [contradiction|].
  cbn [sorted] in H. apply andb_true_iff in H as [H1 H2].
  destruct Hy as [<-|Hy]; [lia|]. specialize (IH z H2 y Hy). lia.
Qed.

Lemma window_bound_general q ts : forall tat a b,
  sorted ts = true -> a <= b ->
  admitted_in q tat ts a b * q_t q <= (b - a) + (q_burst q + 1) * N.max (q_t q) 1.
Proof.
  induction ts as [|now r IH]; intros tat a b Hs Hab; [cbn; lia|].
  destruct (N.lt_ge_cases now a) as [Hlt|Hge].
  - rewrite admitted_skip_before by assumption. apply IH; [now apply sorted_tail in Hs|assumption].
  - assert (Hall : forall x, In x (now :: r) -> a <= x).
    { intros x [<-|Hx]; [lia|]. pose proof (sorted_head_le now r Hs x Hx). lia. }
    destruct (admitted_in_potential q (now :: r) tat a b Hall Hab) as [P|P].
    + unfold tau in P. nia.
    + rewrite P. lia.
Qed.

(** The bound as stated in C19 (burst + replenishment), with the one extra cell governor admits. *)
Lemma window_bound_div q ts tat a b :
  sorted ts = true -> a <= b -> 0 < q_t q ->
  admitted_in q tat ts a b <= q_burst q + 1 + (b - a) / q_t q.
Proof.
  intros Hs Hab Ht. pose proof (window_bound_general q ts tat a b Hs Hab) as W.
  replace (N.max (q_t q) 1) with (q_t q) in W by lia.
  assert (admitted_in q tat ts a b * q_t q <= (q_burst q + 1 + (b - a) / q_t q) * q_t q + (q_t q - 1)).
  { pose proof (N.div_mod (b - a) (q_t q) ltac:(lia)).
    pose proof (N.mod_upper_bound (b - a) (q_t q) ltac:(lia)). nia. }
  nia.
Qed.

(** The bound stated in C19 holds whenever the first arrival of the window finds the key not
    fully replenished (tat >= a + t). *)
Lemma window_bound_partial q ts tat a b :
  (forall x, In x ts -> a <= x) -> a <= b -> 0 < q_t q -> a + q_t q <= tat ->
  admitted_in q tat ts a b * q_t q <= (b - a) + q_burst q * q_t q.
Proof.
  intros Hall Hab Ht Htat.
  destruct (admitted_in_potential q ts tat a b Hall Hab) as [P|P].
  - unfold tau in P. replace (N.max (q_t q) 1) with (q_t q) in P by lia. nia.
  - rewrite P. lia.
Qed.

(** ... and is false in general: after an idle period burst+1 requests pass at one instant. *)
Lemma window_bound_refuted :
  exists q tat ts a b,
    sorted ts = true /\ a <= b /\ 0 < q_t q /\
    q_burst q + (b - a) / q_t q < admitted_in q tat ts a b.
Proof.
  exists (mkQuota 10 1), 0, [100; 100; 100], 100, 100.
  repeat split; vm_compute; try reflexivity; discriminate.
Qed.

(** Fresh key: exactly [burst] pass at the first instant. *)
Lemma fresh_key_burst q now :
  0 < q_t q -> 0 < q_burst q ->
  fst (gcra_step q (now + q_t q) now) = true.
Proof.
  intros Ht Hb. unfold gcra_step, tau.
  destruct (N.ltb_spec now (now + q_t q - N.max (q_t q) 1 * q_burst q)); [|reflexivity].
  replace (N.max (q_t q) 1) with (q_t q) in * by lia. nia.
Qed.
