From AnemoVerif Require Import Base Tls.
From Coq Require Import Arith ZifyN ZifyNat ZifyBool.

Ltac split_andb :=
  repeat match goal with HH : _ && _ = true |- _ => apply andb_true_iff in HH; destruct HH end.

Lemma verify_cert_facts names c :
  verify_cert names c = true ->
  c_wellformed c = true /\ alg_ok (c_spki_alg c) = true /\ alg_ok (c_sig_alg c) = true
  /\ c_signed_by c = c_key c /\ c_valid_now c = true /\ c_usage_ok c = true
  /\ existsb (fun n => memN n (c_names c)) names = true.
Proof.
  unfold verify_cert. intros V.
  apply andb_true_iff in V as [V V7]. apply andb_true_iff in V as [V V6].
  apply andb_true_iff in V as [V V5]. apply andb_true_iff in V as [V V4].
  apply andb_true_iff in V as [V V3]. apply andb_true_iff in V as [V1 V2].
  apply N.eqb_eq in V4. repeat split; assumption.
Qed.

Lemma peer_id_of_verified names c : verify_cert names c = true -> peer_id c = Some (c_key c).
Proof.
  intros V. destruct (verify_cert_facts _ _ V) as [W [A _]]. unfold peer_id. now rewrite W, A.
Qed.

Lemma accept_remote_facts pin names c p t x :
  accept_remote pin names c p t = Some x ->
  x = c_key c /\ verify_cert names c = true /\ verify_hs c p t = true
  /\ (forall y, pin = Some y -> y = x).
Proof.
  unfold accept_remote. destruct pin as [y|].
  - destruct (verify_cert_pinned y names c) eqn:V; cbn [andb]; [|discriminate].
    destruct (verify_hs c p t) eqn:H; [|discriminate].
    unfold verify_cert_pinned in V.
    apply andb_true_iff in V as [V V4]. apply andb_true_iff in V as [V V3].
    rewrite (peer_id_of_verified _ _ V4). intros E. inversion E; subst.
    apply N.eqb_eq in V3. repeat split; auto. intros z Ez. inversion Ez; subst. reflexivity.
  - destruct (verify_cert names c) eqn:V; cbn [andb]; [|discriminate].
    destruct (verify_hs c p t) eqn:H; [|discriminate].
    rewrite (peer_id_of_verified _ _ V). intros E. inversion E; subst.
    repeat split; auto. intros z Ez. discriminate.
Qed.

Lemma verify_hs_facts c p t :
  verify_hs c p t = true -> alg_ok (p_scheme p) = true /\ p_key p = c_key c /\ p_transcript p = t.
Proof.
  unfold verify_hs. intros V. apply andb_true_iff in V as [V V3]. apply andb_true_iff in V as [V1 V2].
  apply N.eqb_eq in V2, V3. auto.
Qed.

Section Adversary.
  (** The adversary holds the private keys in [K] only.  Unforgeability (Ed25519, TLS 1.3):
      whatever certificate and handshake proof it presents over a fresh transcript,
      - a proof verifying under key k can only be produced for k in K;
      - a certificate signature by key k can only be produced for k in K
        (or copied from an existing certificate: then [c_signed_by] and all signed fields are
        those of the original, which is covered by the honest-certificate case). *)
  Variable K : list N.
  Variable fresh : N.   (* the transcript of this handshake *)

  Definition producible_proof (p : hsproof) : Prop :=
    alg_ok (p_scheme p) = true -> p_transcript p = fresh -> In (p_key p) K.

  (** If a connection is established and identity X attributed to the remote, the remote
      produced a handshake proof under X: X is one of its keys. *)
  Lemma attributed_identity_is_proven pin names c p x :
    producible_proof p ->
    accept_remote pin names c p fresh = Some x -> In x K.
  Proof.
    intros Hp H. destruct (accept_remote_facts _ _ _ _ _ _ H) as [-> [_ [Vh _]]].
    destruct (verify_hs_facts _ _ _ Vh) as [A [B C]]. rewrite <- B. now apply Hp.
  Qed.

  (** Replaying X's certificate (any certificate whose key the adversary lacks) never works. *)
  Lemma replay_rejected pin names c p :
    producible_proof p -> ~ In (c_key c) K -> accept_remote pin names c p fresh = None.
  Proof.
    intros Hp Hk. destruct (accept_remote pin names c p fresh) as [x|] eqn:E; [|reflexivity].
    pose proof (attributed_identity_is_proven _ _ _ _ _ Hp E) as I.
    destruct (accept_remote_facts _ _ _ _ _ _ E) as [-> _]. contradiction.
  Qed.
End Adversary.

(** Chains: only the end-entity certificate matters, for admission and for the identity. *)
Lemma chain_tail_irrelevant pin names c r1 r2 p t :
  accept_chain pin names (c :: r1) p t = accept_chain pin names (c :: r2) p t.
Proof. reflexivity. Qed.

Lemma chain_identity_is_end_entity K fresh pin names ch p x :
  producible_proof K fresh p ->
  accept_chain pin names ch p fresh = Some x ->
  In x K /\ exists c rest, ch = c :: rest /\ x = c_key c.
Proof.
  intros Hp H. destruct ch as [|c rest]; [discriminate|]. cbn [accept_chain] in H. split.
  - eapply attributed_identity_is_proven; eassumption.
  - exists c, rest. split; [reflexivity|]. now destruct (accept_remote_facts _ _ _ _ _ _ H) as [-> _].
Qed.

(** Appending (or inserting anywhere behind the first place) certificates of identities whose
    keys the adversary lacks never gets it attributed one of them. *)
Lemma chain_extra_certificates_useless K fresh pin names c extra p x :
  producible_proof K fresh p ->
  accept_chain pin names (c :: extra) p fresh = Some x ->
  x = c_key c /\ In x K.
Proof.
  intros Hp H. destruct (chain_identity_is_end_entity _ _ _ _ _ _ _ Hp H) as [I [c' [r [E X]]]].
  inversion E; subst. auto.
Qed.

(** A certificate carrying X's key but signed with another key is rejected (self-signed policy). *)
Lemma resigned_rejected pin names c p t :
  c_signed_by c <> c_key c -> accept_remote pin names c p t = None.
Proof.
  intros Hne.
  assert (V : verify_cert names c = false).
  { unfold verify_cert. destruct (N.eqb_spec (c_signed_by c) (c_key c)); [contradiction|].
    now rewrite !andb_false_r. }
  unfold accept_remote. destruct pin as [y|].
  - unfold verify_cert_pinned. rewrite V. now rewrite !andb_false_r.
  - now rewrite V.
Qed.

Lemma non_ed25519_rejected pin names c p t :
  c_spki_alg c = OtherAlg \/ c_sig_alg c = OtherAlg \/ p_scheme p = OtherAlg ->
  accept_remote pin names c p t = None.
Proof.
  intros H.
  destruct (accept_remote pin names c p t) as [x|] eqn:E; [|reflexivity].
  destruct (accept_remote_facts _ _ _ _ _ _ E) as [_ [V [Vh _]]].
  destruct (verify_cert_facts _ _ V) as [_ [A1 [A2 _]]]. destruct (verify_hs_facts _ _ _ Vh) as [A3 _].
  destruct H as [H|[H|H]]; rewrite H in *; discriminate.
Qed.

Lemma expired_rejected pin names c p t :
  c_valid_now c = false -> accept_remote pin names c p t = None.
Proof.
  intros H. destruct (accept_remote pin names c p t) as [x|] eqn:E; [|reflexivity].
  destruct (accept_remote_facts _ _ _ _ _ _ E) as [_ [V _]].
  destruct (verify_cert_facts _ _ V) as [_ [_ [_ [_ [A _]]]]]. congruence.
Qed.

Lemma malformed_rejected pin names c p t :
  c_wellformed c = false -> accept_remote pin names c p t = None.
Proof.
  intros H. destruct (accept_remote pin names c p t) as [x|] eqn:E; [|reflexivity].
  destruct (accept_remote_facts _ _ _ _ _ _ E) as [_ [V _]].
  destruct (verify_cert_facts _ _ V) as [A _]. congruence.
Qed.

Lemma wrong_name_rejected pin names c p t :
  (forall n, In n names -> ~ In n (c_names c)) -> accept_remote pin names c p t = None.
Proof.
  intros H. destruct (accept_remote pin names c p t) as [x|] eqn:E; [|reflexivity].
  destruct (accept_remote_facts _ _ _ _ _ _ E) as [_ [V _]].
  destruct (verify_cert_facts _ _ V) as [_ [_ [_ [_ [_ [_ X]]]]]].
  apply existsb_exists in X as [n [I M]]. exfalso. apply (H n I).
  unfold memN in M. apply existsb_exists in M as [y [Iy Ey]]. apply N.eqb_eq in Ey. now subst.
Qed.

Lemma client_auth_mandatory names p t : accept_client names None p t = None.
Proof. reflexivity. Qed.

(** Pinned dials: the attributed identity is the pin. *)
Lemma pinned_identity pin names c p t x :
  accept_remote (Some pin) names c p t = Some x -> x = pin.
Proof.
  intros H. destruct (accept_remote_facts _ _ _ _ _ _ H) as [_ [_ [_ P]]]. symmetry. now apply P.
Qed.

(** Honest parties are accepted and attributed their own key. *)
Lemma honest_accepted k n names t :
  In n names -> accept_remote None names (honest_cert k n) (honest_proof k t) t = Some k.
Proof.
  intros I. unfold accept_remote, verify_cert, verify_hs, honest_cert, honest_proof, peer_id.
  cbn [c_wellformed c_spki_alg c_sig_alg c_signed_by c_key c_valid_now c_usage_ok c_names alg_ok
       p_scheme p_key p_transcript andb].
  rewrite !N.eqb_refl. cbn [andb].
  assert (E : existsb (fun m => memN m [n]) names = true).
  { apply existsb_exists. exists n. split; [exact I|]. unfold memN. cbn. now rewrite N.eqb_refl. }
  now rewrite E.
Qed.

(** The identity is a function of the verified certificate only: nothing carried in a message
    can influence it (the request/response extension is written from the connection's
    identity after decoding; by C07 no decoder output reaches the extensions). *)
Lemma identity_fixed_by_certificate pin names c p1 p2 t1 t2 x y :
  accept_remote pin names c p1 t1 = Some x -> accept_remote pin names c p2 t2 = Some y -> x = y.
Proof.
  intros H1 H2. destruct (accept_remote_facts _ _ _ _ _ _ H1) as [-> _].
  destruct (accept_remote_facts _ _ _ _ _ _ H2) as [-> _]. reflexivity.
Qed.
