From AnemoVerif Require Import Base Inflight.
From AnemoVerif.Proofs Require Import Base_proofs.
From Coq Require Import Arith ZifyN ZifyNat ZifyBool.

(** Per-peer invariant: permits are conserved, and nobody waits while a permit is free. *)
Definition pinv (max : N) (s : pstate) : Prop :=
  free s + len (holding s) = max /\ (0 < free s -> waiting s = []).

Lemma pinv_init max : pinv max (init max).
Proof. unfold pinv, init; cbn. split; [lia|reflexivity]. Qed.

Lemma mem_in r l : mem r l = true <-> In r l.
Proof.
  unfold mem. rewrite existsb_exists. split.
  - intros [x [Hx E]]. apply N.eqb_eq in E. now subst.
  - intros H. exists r. split; [assumption|apply N.eqb_refl].
Qed.

Lemma len_remove1 r l : In r l -> len (remove1 r l) + 1 = len l.
Proof.
  induction l as [|x t IH]; intros H; [contradiction|].
  cbn [remove1]. destruct (N.eqb_spec x r).
  - rewrite len_cons. lia.
  - destruct H as [H|H]; [contradiction|]. rewrite !len_cons. specialize (IH H). lia.
Qed.

Lemma pinv_arrive m max s r : pinv max s -> pinv max (fst (p_arrive m s r)).
Proof.
  intros [H1 H2]. unfold p_arrive. destruct (N.ltb_spec 0 (free s)).
  - cbn [fst]. split; cbn [free holding waiting].
    + rewrite len_app, len_cons, len_nil. lia.
    + intros _. now apply H2.
  - destruct m; cbn [fst]; split; cbn [free holding waiting]; auto; lia.
Qed.

Lemma pinv_release max s r : pinv max s -> In r (holding s) -> pinv max (fst (p_release s r)).
Proof.
  intros [H1 H2] Hin. unfold p_release. pose proof (len_remove1 r _ Hin) as L.
  destruct (waiting s) as [|w ws] eqn:W; cbn [fst]; split; cbn [free holding waiting].
  - lia.
  - reflexivity.
  - rewrite len_app, len_cons, len_nil. lia.
  - intros Hf. specialize (H2 Hf). discriminate.
Qed.

Lemma pinv_finish max s r : pinv max s -> pinv max (fst (p_finish s r)).
Proof.
  intros H. unfold p_finish. destruct (mem r (holding s)) eqn:E; [|exact H].
  apply pinv_release; [exact H|now apply mem_in].
Qed.

Lemma pinv_cancel max s r : pinv max s -> pinv max (fst (p_cancel s r)).
Proof.
  intros H. unfold p_cancel. destruct (mem r (waiting s)) eqn:E; [|now apply pinv_finish].
  destruct H as [H1 H2]. cbn [fst]. split; cbn [free holding waiting]; [exact H1|].
  intros Hf. rewrite (H2 Hf). reflexivity.
Qed.

(** state-level *)
Definition inv (max : N) (st : state) : Prop := forall p, pinv max (get max p st).

Lemma get_set_same max p s st : get max p (set p s st) = s.
Proof.
  induction st as [|[q s0] t IH]; cbn [set get].
  - now rewrite N.eqb_refl.
  - destruct (N.eqb_spec q p) as [->|Hne]; cbn [get].
    + now rewrite N.eqb_refl.
    + destruct (N.eqb_spec q p); [contradiction|exact IH].
Qed.

Lemma get_set_other max p q s st : q <> p -> get max q (set p s st) = get max q st.
Proof.
  intros Hne. induction st as [|[x s0] t IH]; cbn [set get].
  - destruct (N.eqb_spec p q); [congruence|reflexivity].
  - destruct (N.eqb_spec x p) as [->|Hx]; cbn [get].
    + destruct (N.eqb_spec p q); [congruence|reflexivity].
    + destruct (N.eqb_spec x q); [reflexivity|exact IH].
Qed.

Definition peer_of (e : event) : N :=
  match e with Arrive p _ | Finish p _ | Cancel p _ => p end.

Lemma step_other m max st e q :
  q <> peer_of e -> get max q (fst (step m max st e)) = get max q st.
Proof.
  intros Hne. destruct e as [p r|p r|p r]; cbn [step peer_of] in *.
  - destruct (p_arrive m (get max p st) r) as [s o]. cbn [fst]. now apply get_set_other.
  - destruct (p_finish (get max p st) r) as [s o]. cbn [fst]. now apply get_set_other.
  - destruct (p_cancel (get max p st) r) as [s o]. cbn [fst]. now apply get_set_other.
Qed.

Lemma step_inv m max st e : inv max st -> inv max (fst (step m max st e)).
Proof.
  intros H q. destruct (N.eq_dec q (peer_of e)) as [->|Hne].
  - destruct e as [p r|p r|p r]; cbn [step peer_of].
    + pose proof (pinv_arrive m max _ r (H p)) as P.
      destruct (p_arrive m (get max p st) r) as [s o]. cbn [fst] in *. now rewrite get_set_same.
    + pose proof (pinv_finish max _ r (H p)) as P.
      destruct (p_finish (get max p st) r) as [s o]. cbn [fst] in *. now rewrite get_set_same.
    + pose proof (pinv_cancel max _ r (H p)) as P.
      destruct (p_cancel (get max p st) r) as [s o]. cbn [fst] in *. now rewrite get_set_same.
  - rewrite step_other by assumption. apply H.
Qed.

Lemma inv_nil max : inv max [].
Proof. intros p. cbn [get]. apply pinv_init. Qed.

Lemma fold_inv m max evs st : inv max st -> inv max (fold_left (fun st e => fst (step m max st e)) evs st).
Proof.
  revert st. induction evs as [|e evs IH]; intros st H; cbn [fold_left]; [exact H|].
  apply IH. now apply step_inv.
Qed.

Lemma run_inv m max evs : inv max (run m max evs).
Proof. apply fold_inv, inv_nil. Qed.

Lemma gauge_le_max m max evs p : gauge max p (run m max evs) <= max.
Proof. unfold gauge. destruct (run_inv m max evs p) as [H _]. lia. Qed.

Lemma permits_conserved m max evs p :
  free (get max p (run m max evs)) + len (holding (get max p (run m max evs))) = max.
Proof. apply (run_inv m max evs p). Qed.

Lemma no_idle_permit_while_waiting m max evs p :
  waiting (get max p (run m max evs)) <> [] -> free (get max p (run m max evs)) = 0.
Proof.
  intros Hw. destruct (run_inv m max evs p) as [_ H2].
  destruct (N.eq_dec (free (get max p (run m max evs))) 0) as [E|E]; [exact E|].
  exfalso. apply Hw, H2. lia.
Qed.

(** Quiescence: when nothing is inside the service, every permit is back. *)
Lemma quiescent_all_free m max evs p :
  holding (get max p (run m max evs)) = [] -> free (get max p (run m max evs)) = max.
Proof. intros H. pose proof (permits_conserved m max evs p) as C. rewrite H in C. cbn in C. lia. Qed.

Lemma quiescent_nobody_waits m max evs p :
  0 < max -> holding (get max p (run m max evs)) = [] -> waiting (get max p (run m max evs)) = [].
Proof.
  intros Hm H. destruct (run_inv m max evs p) as [_ H2]. apply H2.
  rewrite (quiescent_all_free m max evs p H). exact Hm.
Qed.

(** Excess requests wait (Block) or are answered 429 (ReturnError); otherwise they enter. *)
Lemma arrive_outcome m s r :
  (0 < free s -> snd (p_arrive m s r) = Entered [r]) /\
  (free s = 0 -> match m with
                 | Block => p_arrive m s r = (mkP 0 (holding s) (waiting s ++ [r]), Queued)
                 | ReturnError => p_arrive m s r = (s, Rejected)
                 end).
Proof.
  unfold p_arrive. split; intros H.
  - destruct (N.ltb_spec 0 (free s)); [reflexivity|lia].
  - destruct (N.ltb_spec 0 (free s)); [lia|]. destruct m; [now rewrite H|reflexivity].
Qed.

(** One peer's load never touches another peer's slots. *)
Lemma peers_independent m max st e q :
  q <> peer_of e -> get max q (fst (step m max st e)) = get max q st.
Proof. exact (step_other m max st e q). Qed.

(** Every finish/cancel of a request holding a permit hands the permit to the queue head. *)
Lemma release_grants_fifo_head s r w ws :
  waiting s = w :: ws ->
  p_release s r = (mkP (free s) (remove1 r (holding s) ++ [w]) ws, Entered [w]).
Proof. intros H. unfold p_release. now rewrite H. Qed.

(** Progress in Block mode: a request at position [k] of the queue enters the service after
    [k+1] releases, whatever else arrives meanwhile at the tail. *)
Fixpoint releases (s : pstate) (rs : list N) : pstate :=
  match rs with
  | [] => s
  | r :: t => releases (fst (p_release s r)) t
  end.

Lemma fifo_progress : forall pre s w post rs,
  waiting s = pre ++ w :: post -> length rs = S (length pre) ->
  In w (holding (releases s rs)).
Proof.
  induction pre as [|x pre IH]; intros s w post rs Hw Hl.
  - destruct rs as [|r [|? ?]]; try discriminate. cbn [releases].
    cbn [app] in Hw. rewrite (release_grants_fifo_head s r w post Hw). cbn [fst holding].
    apply in_or_app. right. now left.
  - destruct rs as [|r rs]; [discriminate|]. cbn [releases].
    cbn [app] in Hw. rewrite (release_grants_fifo_head s r x (pre ++ w :: post) Hw). cbn [fst].
    apply IH with (post := post); [reflexivity|]. cbn [length] in Hl. lia.
Qed.
