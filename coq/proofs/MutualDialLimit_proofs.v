From AnemoVerif Require Import Base ActivePeers MutualDial MutualDialLimit.
From Coq Require Import Arith ZifyN ZifyNat ZifyBool.

Lemma lsys_eqb_eq a b : lsys_eqb a b = true -> a = b.
Proof.
  destruct a as [[a1 a2 a3 a4 a5 a6 a7] [b1 b2 b3 b4 b5 b6 b7]].
  destruct b as [[c1 c2 c3 c4 c5 c6 c7] [d1 d2 d3 d4 d5 d6 d7]].
  unfold lsys_eqb, ln_eqb. cbn [la lb lX lY rX rY kX kY lentry].
  intros H.
  repeat match goal with HH : _ && _ = true |- _ => apply andb_true_iff in HH; destruct HH end.
  repeat match goal with
         | H : lhs_eqb ?x ?y = true |- _ => assert (x = y) by (destruct x, y; (reflexivity || discriminate)); clear H
         | H : Bool.eqb ?x ?y = true |- _ => apply Bool.eqb_prop in H
         | H : ocid_eqb ?x ?y = true |- _ =>
             assert (x = y) by (destruct x as [[|]|], y as [[|]|]; (reflexivity || discriminate)); clear H
         end.
  subst. reflexivity.
Qed.

Lemma lsys_eqb_refl a : lsys_eqb a a = true.
Proof.
  destruct a as [[a1 a2 a3 a4 a5 a6 a7] [b1 b2 b3 b4 b5 b6 b7]].
  unfold lsys_eqb, ln_eqb. cbn [la lb lX lY rX rY kX kY lentry].
  rewrite !Bool.eqb_reflx.
  destruct a1, a2, b1, b2, a7 as [[|]|], b7 as [[|]|]; reflexivity.
Qed.

Lemma lmem_in s l : lmem s l = true <-> In s l.
Proof.
  unfold lmem. rewrite existsb_exists. split.
  - intros [x [I E]]. apply lsys_eqb_eq in E. now subst.
  - intros I. exists s. split; [exact I|apply lsys_eqb_refl].
Qed.

Inductive lreachable lim late lt : lsys -> Prop :=
| lr_init : lreachable lim late lt linit
| lr_step s l : lreachable lim late lt s -> lenabled s l = true -> lreachable lim late lt (ldo_step lim late lt s l).

Lemma lall_labels_complete l : In l lall_labels.
Proof. destruct l as [[|] [|]|[|] [|]|[|] [|]|[|] [|]]; cbn; tauto. Qed.

Lemma lsuccessor_in lim late lt s l :
  lenabled s l = true -> In (ldo_step lim late lt s l) (lsuccessors lim late lt s).
Proof.
  intros E. unfold lsuccessors. apply in_map. apply filter_In. split; [apply lall_labels_complete|exact E].
Qed.

Definition lclosed lim late lt (l : list lsys) : bool :=
  lmem linit l && forallb (fun s => forallb (fun s' => lmem s' l) (lsuccessors lim late lt s)) l.

Lemma lreachable_in_closed lim late lt (L : list lsys) s :
  lclosed lim late lt L = true -> lreachable lim late lt s -> In s L.
Proof.
  intros C. unfold lclosed in C.
  apply andb_true_iff in C as [C1 C2]. rewrite forallb_forall in C2.
  induction 1 as [|s l R IH E].
  - apply lmem_in. exact C1.
  - specialize (C2 s IH). rewrite forallb_forall in C2.
    apply lmem_in. apply C2. apply lsuccessor_in. exact E.
Qed.

(** The three placements of the limit: nowhere, at A, at B (as functions, compared extensionally
    on the two nodes only). *)
Definition placement (k : N) : node -> bool :=
  match k with 0 => no_limit | 1 => limit_at NA | _ => limit_at NB end.

Lemma lreach_closed : forall k lt, (k <? 3) = true -> lclosed (placement k) false lt (lreach (placement k) false lt) = true.
Proof.
  intros k lt H. assert (E : k = 0 \/ k = 1 \/ k = 2) by lia.
  destruct E as [->|[->| ->]]; destruct lt; vm_compute; reflexivity.
Qed.

Lemma lreach_terminal_converged : forall k lt, (k <? 3) = true ->
  forallb (fun s => implb (lterminal s) (converged_somewhere s)) (lreach (placement k) false lt) = true.
Proof.
  intros k lt H. assert (E : k = 0 \/ k = 1 \/ k = 2) by lia.
  destruct E as [->|[->| ->]]; destruct lt; vm_compute; reflexivity.
Qed.

Lemma lreach_nolimit_survivor : forall lt,
  forallb (fun s => implb (lterminal s) (converged_on (survivor lt) s)) (lreach no_limit false lt) = true.
Proof. intros [|]; vm_compute; reflexivity. Qed.

Lemma lreach_measure_decreases : forall k lt, (k <? 3) = true ->
  forallb (fun s => forallb (fun s' => lmeasure s' <? lmeasure s) (lsuccessors (placement k) false lt s))
          (lreach (placement k) false lt) = true.
Proof.
  intros k lt H. assert (E : k = 0 \/ k = 1 \/ k = 2) by lia.
  destruct E as [->|[->| ->]]; destruct lt; vm_compute; reflexivity.
Qed.

(** Lifted to every reachable state of every schedule. *)
Lemma limit_convergence k lt s :
  (k <? 3) = true -> lreachable (placement k) false lt s -> lterminal s = true -> converged_somewhere s = true.
Proof.
  intros H R T. pose proof (lreach_terminal_converged k lt H) as F. rewrite forallb_forall in F.
  specialize (F s (lreachable_in_closed _ _ _ _ s (lreach_closed k lt H) R)). rewrite T in F. exact F.
Qed.

Lemma nolimit_convergence lt s :
  lreachable no_limit false lt s -> lterminal s = true -> converged_on (survivor lt) s = true.
Proof.
  intros R T. pose proof (lreach_nolimit_survivor lt) as F. rewrite forallb_forall in F.
  specialize (F s (lreachable_in_closed _ _ _ _ s (lreach_closed 0 lt eq_refl) R)). rewrite T in F. exact F.
Qed.

Lemma limit_step_decreases k lt s l :
  (k <? 3) = true -> lreachable (placement k) false lt s -> lenabled s l = true ->
  lmeasure (ldo_step (placement k) false lt s l) < lmeasure s.
Proof.
  intros H R E. pose proof (lreach_measure_decreases k lt H) as F. rewrite forallb_forall in F.
  specialize (F s (lreachable_in_closed _ _ _ _ s (lreach_closed k lt H) R)). rewrite forallb_forall in F.
  specialize (F _ (lsuccessor_in (placement k) false lt s l E)). lia.
Qed.

(** The late re-check (seeded change C05-f) is refuted by the model: with the limit at A and A
    the smaller identity there is a schedule after which neither end holds a connection. *)
Fixpoint lrun lim late lt (s : lsys) (ls : list llabel) : option lsys :=
  match ls with
  | [] => Some s
  | l :: t => if lenabled s l then lrun lim late lt (ldo_step lim late lt s l) t else None
  end.

Lemma late_recheck_refuted :
  exists ls s, lrun (limit_at NA) true true linit ls = Some s
               /\ lterminal s = true /\ lentry (la s) = None /\ lentry (lb s) = None.
Proof.
  exists [LArrive NA CY; LArrive NB CX; LReady NA CX; LReady NB CY; LReady NB CX; LReady NA CY;
          LNotice NB CY; LNotice NA CX].
  eexists. vm_compute. repeat split.
Qed.

(** Who can survive: without a limit the tie-break's choice; with the limit at the greater identity
    that node's own dial; with the limit at the smaller identity either (the tie-break's choice, or
    the limited node's own dial when the other one was refused on arrival). *)
Lemma possible_survivors_table :
  possible_survivors no_limit true = [CY] /\ possible_survivors no_limit false = [CX]
  /\ possible_survivors (limit_at NA) true = [CX; CY] /\ possible_survivors (limit_at NA) false = [CX]
  /\ possible_survivors (limit_at NB) true = [CY] /\ possible_survivors (limit_at NB) false = [CX; CY].
Proof. vm_compute. repeat split. Qed.

Lemma terminal_survivor_is_possible k lt s c :
  (k <? 3) = true -> lreachable (placement k) false lt s -> lterminal s = true -> converged_on c s = true ->
  In c (possible_survivors (placement k) lt).
Proof.
  intros H R T C. unfold possible_survivors. apply filter_In. split; [destruct c; cbn; tauto|].
  apply existsb_exists. exists s. split; [|now rewrite T, C].
  exact (lreachable_in_closed _ _ _ _ s (lreach_closed k lt H) R).
Qed.
