From AnemoVerif Require Import Base Status Router Codegen.
From AnemoVerif.Proofs Require Import Base_proofs Router_proofs.
From Coq Require Import Arith ZifyN ZifyNat ZifyBool.

Lemma paths_agree pkg svc m : client_path pkg svc m = server_path pkg svc m.
Proof. reflexivity. Qed.

Lemma path_under_prefix pkg svc m :
  client_path pkg svc m = rpc_prefix (service_name pkg svc) ++ m.
Proof.
  unfold client_path, rpc_prefix, service_name, qualified. cbn [app]. f_equal.
  rewrite <- !app_assoc. reflexivity.
Qed.

Lemma app_inj_l {A} (p a b : list A) : p ++ a = p ++ b -> a = b.
Proof. induction p as [|x p IH]; cbn [app]; intros H; [exact H|]. inversion H. auto. Qed.

Lemma method_injective pkg svc m1 m2 : client_path pkg svc m1 = client_path pkg svc m2 -> m1 = m2.
Proof. rewrite !path_under_prefix. apply app_inj_l. Qed.

(** The typed client's route is dispatched by the router to the service registered with
    [add_rpc_service], whatever else is in the (compatible) table. *)
Lemma client_route_reaches_service r pkg svc id r' m :
  compatible r = true -> add_rpc_service r (service_name pkg svc) id = Some r' ->
  dispatch r' (client_path pkg svc m) = Found id [].
Proof. intros C H. rewrite path_under_prefix. eapply rpc_service_prefix; eassumption. Qed.

(** ... and inside the generated server, to the method of the same name. *)
Lemma server_select_hits pkg svc methods i d :
  NoDup methods -> (i < length methods)%nat ->
  server_select pkg svc methods (client_path pkg svc (nth i methods d)) = Some i.
Proof.
  revert i. induction methods as [|m t IH]; intros i Hn Hi; [cbn in Hi; lia|].
  inversion Hn as [|? ? Hnot Hn']; subst. cbn [server_select].
  destruct i as [|i].
  - cbn [nth]. rewrite <- paths_agree. now rewrite bytes_eqb_refl.
  - cbn [nth]. cbn [length] in Hi.
    destruct (bytes_eqb (server_path pkg svc m) (client_path pkg svc (nth i t d))) eqn:E.
    + apply bytes_eqb_eq in E. rewrite <- paths_agree in E. apply method_injective in E.
      exfalso. apply Hnot. rewrite E. apply nth_In. lia.
    + rewrite IH by (auto; lia). reflexivity.
Qed.

Lemma server_select_unknown pkg svc methods route :
  (forall m, In m methods -> server_path pkg svc m <> route) ->
  server_select pkg svc methods route = None.
Proof.
  induction methods as [|m t IH]; intros H; [reflexivity|]. cbn [server_select].
  destruct (bytes_eqb (server_path pkg svc m) route) eqn:E.
  - apply bytes_eqb_eq in E. exfalso. exact (H m (or_introl eq_refl) E).
  - rewrite IH; [reflexivity|]. intros m' Hm'. apply H. now right.
Qed.

(** Status mapping *)
Lemma lookup_app_last k v l : lookup k (l ++ [(k, v)]) = Some v.
Proof.
  induction l as [|[k' v'] l IH]; cbn [app lookup].
  - now rewrite bytes_eqb_refl.
  - now rewrite IH.
Qed.

Lemma lookup_app_other k k' v l : k <> k' -> lookup k (l ++ [(k', v)]) = lookup k l.
Proof.
  intros Hne. induction l as [|[k0 v0] l IH]; cbn [app lookup].
  - destruct (bytes_eqb k k') eqn:E; [apply bytes_eqb_eq in E; contradiction|reflexivity].
  - now rewrite IH.
Qed.

Lemma status_roundtrip st :
  let st' := status_from_response (status_into_response st) in
  st_code st' = st_code st
  /\ st_message st' = match st_message st with
                      | Some m => Some m
                      | None => lookup status_message_key (st_headers st)
                      end
  /\ (forall k, k <> status_message_key -> lookup k (st_headers st') = lookup k (st_headers st)).
Proof.
  unfold status_from_response, status_into_response. cbn [st_code st_message st_headers w_status w_headers].
  split; [reflexivity|]. split.
  - destruct (st_message st) as [m|]; [apply lookup_app_last|now rewrite app_nil_r].
  - intros k Hk. destruct (st_message st) as [m|]; [now apply lookup_app_other|now rewrite app_nil_r].
Qed.

Lemma into_response_body_empty st : w_body (status_into_response st) = [].
Proof. reflexivity. Qed.

Section TypedProofs.
  Variables (Req Resp : Type).
  Variable enc_q : Req -> bytes.
  Variable dec_q : bytes -> option Req.
  Variable enc_r : Resp -> option bytes.
  Variable dec_r : bytes -> option Resp.
  Variable format_name : bytes.
  Hypothesis dec_enc_q : forall m, dec_q (enc_q m) = Some m.
  Hypothesis dec_enc_r : forall m b, enc_r m = Some b -> dec_r b = Some m.

  Notation call := (typed_call Req Resp enc_q dec_q enc_r dec_r format_name).

  Lemma typed_ok handler e m code hdrs r b :
    handler m = inl (code, hdrs, r) -> is_success code = true -> enc_r r = Some b ->
    call handler e m = inl (code, hdrs ++ [(content_type_key, format_name)], r).
  Proof.
    intros H S E. unfold typed_call, server_unary, client_unary.
    rewrite dec_enc_q, H, E. cbn [w_status w_body w_headers]. rewrite S.
    now rewrite (dec_enc_r _ _ E).
  Qed.

  Lemma typed_err handler e m st :
    handler m = inr st -> is_success (st_code st) = false ->
    call handler e m = inr (status_from_response (status_into_response st)).
  Proof.
    intros H S. unfold typed_call, server_unary, client_unary.
    rewrite dec_enc_q, H. cbn [status_into_response w_status]. now rewrite S.
  Qed.

  Lemma typed_never_ok_from_non_success handler e m code hdrs r :
    call handler e m = inl (code, hdrs, r) -> is_success code = true.
  Proof.
    unfold typed_call, client_unary.
    set (w := server_unary Req Resp dec_q enc_r format_name handler e (enc_q m)).
    destruct (is_success (w_status w)) eqn:S; [|discriminate].
    destruct (dec_r (w_body w)); [|discriminate]. intros H. inversion H; subst. exact S.
  Qed.

  Lemma undecodable_request_is_unknown handler e g :
    dec_q g = None ->
    w_status (server_unary Req Resp dec_q enc_r format_name handler e g) = Unknown.
  Proof. intros H. unfold server_unary. now rewrite H. Qed.

  Lemma undecodable_response_is_unknown e w :
    is_success (w_status w) = true -> dec_r (w_body w) = None ->
    client_unary Resp dec_r e w = inr (unknown_status e).
  Proof. intros S D. unfold client_unary. now rewrite S, D. Qed.

  Lemma non_success_is_error e w :
    is_success (w_status w) = false ->
    client_unary Resp dec_r e w = inr (status_from_response w).
  Proof. intros S. unfold client_unary. now rewrite S. Qed.
End TypedProofs.
