From AnemoVerif Require Import Base ActivePeers MutualDial.
From Coq Require Import Arith ZifyN ZifyNat ZifyBool.

(** The model's tie-break is [ActivePeers.tie_break] evaluated at each node. *)
Lemma tb_is_tie_break a b n e o :
  a <> b ->
  tb (a <? b) n e o =
  match n with NA => tie_break a b e o | NB => tie_break b a e o end.
Proof.
  intros Hne. unfold tb, tie_break. destruct n, e, o; try reflexivity;
    destruct (N.ltb_spec a b), (N.ltb_spec b a); cbn [negb]; try reflexivity; lia.
Qed.

(** Both ends decide for the same connection, whatever order each saw the two in. *)
Lemma tie_break_agreement a b :
  a <> b ->
  let keepY_at_A_XthenY := tie_break a b Outbound Inbound in          (* true: drop X, keep Y *)
  let keepX_at_A_YthenX := tie_break a b Inbound Outbound in          (* true: drop Y, keep X *)
  let keepY_at_B_XthenY := tie_break b a Inbound Outbound in
  let keepX_at_B_YthenX := tie_break b a Outbound Inbound in
  keepY_at_A_XthenY = (a <? b) /\ keepX_at_A_YthenX = negb (a <? b)
  /\ keepY_at_B_XthenY = (a <? b) /\ keepX_at_B_YthenX = negb (a <? b).
Proof.
  intros Hne. unfold tie_break. cbv zeta.
  destruct (N.ltb_spec a b), (N.ltb_spec b a); cbn [negb]; repeat split; try reflexivity; lia.
Qed.

Lemma sys_eqb_eq a b : sys_eqb a b = true -> a = b.
Proof.
  destruct a as [[a1 a2 a3 a4 a5 a6 a7 a8] [b1 b2 b3 b4 b5 b6 b7 b8]].
  destruct b as [[c1 c2 c3 c4 c5 c6 c7 c8] [d1 d2 d3 d4 d5 d6 d7 d8]].
  unfold sys_eqb, n_eqb. cbn [sa sb hsX hsY hX hY clX clY entry nevents].
  intros H.
  repeat match goal with HH : _ && _ = true |- _ => apply andb_true_iff in HH; destruct HH end.
  repeat match goal with
         | H : hs_eqb ?x ?y = true |- _ => assert (x = y) by (destruct x, y; (reflexivity || discriminate)); clear H
         | H : Bool.eqb ?x ?y = true |- _ => apply Bool.eqb_prop in H
         | H : ocid_eqb ?x ?y = true |- _ =>
             assert (x = y) by (destruct x as [[|]|], y as [[|]|]; (reflexivity || discriminate)); clear H
         | H : (?x =? ?y) = true |- _ => apply N.eqb_eq in H
         end.
  subst. reflexivity.
Qed.

Lemma sys_eqb_refl a : sys_eqb a a = true.
Proof.
  destruct a as [[a1 a2 a3 a4 a5 a6 a7 a8] [b1 b2 b3 b4 b5 b6 b7 b8]].
  unfold sys_eqb, n_eqb. cbn [sa sb hsX hsY hX hY clX clY entry nevents].
  rewrite !N.eqb_refl, !Bool.eqb_reflx.
  destruct a1, a2, b1, b2, a7 as [[|]|], b7 as [[|]|]; reflexivity.
Qed.

Lemma mem_sys_in s l : mem_sys s l = true <-> In s l.
Proof.
  unfold mem_sys. rewrite existsb_exists. split.
  - intros [x [I E]]. apply sys_eqb_eq in E. now subst.
  - intros I. exists s. split; [exact I|apply sys_eqb_refl].
Qed.

(** Schedules: any list of enabled steps. *)
Inductive reachable (lt : bool) : sys -> Prop :=
| r_init : reachable lt init
| r_step s l : reachable lt s -> enabled s l = true -> reachable lt (do_step lt s l).

Lemma all_labels_complete l : In l all_labels.
Proof. destruct l as [[|] [|]|[|] [|]|[|] [|]]; cbn; tauto. Qed.

Lemma successor_in lt s l : enabled s l = true -> In (do_step lt s l) (successors lt s).
Proof.
  intros E. unfold successors. apply in_map. apply filter_In. split; [apply all_labels_complete|exact E].
Qed.

(** The computed set contains the initial state and is closed under every enabled step. *)
Definition closed_under_steps (lt : bool) (l : list sys) : bool :=
  mem_sys init l && forallb (fun s => forallb (fun s' => mem_sys s' l) (successors lt s)) l.

Lemma reach_closed : forall lt, closed_under_steps lt (reach lt) = true.
Proof. intros [|]; vm_compute; reflexivity. Qed.

Lemma reachable_in_closed lt (L : list sys) s :
  closed_under_steps lt L = true -> reachable lt s -> In s L.
Proof.
  intros C. unfold closed_under_steps in C.
  apply andb_true_iff in C as [C1 C2]. rewrite forallb_forall in C2.
  induction 1 as [|s l R IH E].
  - apply mem_sys_in. exact C1.
  - specialize (C2 s IH). rewrite forallb_forall in C2.
    apply mem_sys_in. apply C2. apply successor_in. exact E.
Qed.

Lemma reachable_in_reach lt s : reachable lt s -> In s (reach lt).
Proof. apply reachable_in_closed. apply reach_closed. Qed.

(** Invariants by exhaustive evaluation over the (finite) reachable set. *)
Lemma reach_survivor_open : forall lt, forallb (survivor_open lt) (reach lt) = true.
Proof. intros [|]; vm_compute; reflexivity. Qed.

Lemma reach_terminal_converged :
  forall lt, forallb (fun s => implb (terminal s) (converged lt s)) (reach lt) = true.
Proof. intros [|]; vm_compute; reflexivity. Qed.

Lemma reach_measure_decreases :
  forall lt, forallb (fun s => forallb (fun s' => measure s' <? measure s) (successors lt s)) (reach lt) = true.
Proof. intros [|]; vm_compute; reflexivity. Qed.

Lemma reach_events_bounded : forall lt, forallb (fun s => (nevents (sa s) <=? 4) && (nevents (sb s) <=? 4)) (reach lt) = true.
Proof. intros [|]; vm_compute; reflexivity. Qed.

(** ... lifted to every reachable state of every schedule. *)
Lemma survivor_never_closed lt s : reachable lt s -> survivor_open lt s = true.
Proof.
  intros R. pose proof (reach_survivor_open lt) as F. rewrite forallb_forall in F.
  apply F. now apply reachable_in_reach.
Qed.

Lemma convergence lt s : reachable lt s -> terminal s = true -> converged lt s = true.
Proof.
  intros R T. pose proof (reach_terminal_converged lt) as F. rewrite forallb_forall in F.
  specialize (F s (reachable_in_reach lt s R)). rewrite T in F. exact F.
Qed.

Lemma step_decreases_measure lt s l :
  reachable lt s -> enabled s l = true -> measure (do_step lt s l) < measure s.
Proof.
  intros R E. pose proof (reach_measure_decreases lt) as F. rewrite forallb_forall in F.
  specialize (F s (reachable_in_reach lt s R)). rewrite forallb_forall in F.
  specialize (F _ (successor_in lt s l E)). lia.
Qed.

(** Every schedule is finite: at most [measure init = 8] steps. *)
Fixpoint run_schedule (lt : bool) (s : sys) (ls : list step_label) : option sys :=
  match ls with
  | [] => Some s
  | l :: t => if enabled s l then run_schedule lt (do_step lt s l) t else None
  end.

Lemma schedule_length_bounded lt : forall ls s s',
  reachable lt s -> run_schedule lt s ls = Some s' ->
  N.of_nat (length ls) + measure s' <= measure s /\ reachable lt s'.
Proof.
  induction ls as [|l t IH]; intros s s' R H; cbn [run_schedule] in H.
  - inversion H; subst. cbn [length]. split; [lia|exact R].
  - destruct (enabled s l) eqn:E; [|discriminate].
    pose proof (step_decreases_measure lt s l R E) as D.
    destruct (IH _ _ (r_step lt s l R E) H) as [B R']. split; [|exact R'].
    cbn [length]. lia.
Qed.

Lemma schedules_terminate lt ls s' :
  run_schedule lt init ls = Some s' -> (length ls <= 8)%nat.
Proof.
  intros H. destruct (schedule_length_bounded lt ls init s' (r_init lt) H) as [B _].
  change (measure init) with 8 in B. lia.
Qed.

(** The outcome depends only on the two identities: every maximal schedule ends in a state
    where both ends hold the survivor, with its handlers running, and nothing else. *)
Lemma maximal_schedule_outcome lt ls s' :
  run_schedule lt init ls = Some s' -> terminal s' = true ->
  entry (sa s') = Some (survivor lt) /\ entry (sb s') = Some (survivor lt).
Proof.
  intros H T. destruct (schedule_length_bounded lt ls init s' (r_init lt) H) as [_ R].
  pose proof (convergence lt s' R T) as C. unfold converged in C.
  repeat match goal with HH : _ && _ = true |- _ => apply andb_true_iff in HH; destruct HH end.
  split.
  - destruct (entry (sa s')) as [[|]|], (survivor lt); (reflexivity || discriminate).
  - destruct (entry (sb s')) as [[|]|], (survivor lt); (reflexivity || discriminate).
Qed.

Lemma reach_size : length (reach true) = length (reach false).
Proof. vm_compute. reflexivity. Qed.

(** The [Ready] step registers the connection exactly as [ActivePeers.step (Add ..)] does. *)
Definition idc (c : cid) : N := match c with CX => 1 | CY => 2 end.
Definition abs_conns (peer : N) (n : node) (x : nstate) : list (N * (N * origin)) :=
  match entry x with Some e => [(peer, (idc e, origin_at n e))] | None => [] end.

Lemma ready_refines_add a b n c s :
  a <> b -> entry (get s n) <> Some c ->
  let own := match n with NA => a | NB => b end in
  let peer := match n with NA => b | NB => a end in
  let before := mkState (abs_conns peer n (get s n)) [] [] in
  let after := fst (ActivePeers.step before (Add own peer (idc c) (origin_at n c))) in
  conns after = abs_conns peer n (get (do_step (a <? b) s (Ready n c)) n).
Proof.
  intros Hne He own peer before after. subst before after own peer.
  assert (Hab : (a =? a) = true) by apply N.eqb_refl.
  assert (Hbb : (b =? b) = true) by apply N.eqb_refl.
  destruct s as [xa xb]. destruct n; cbn [get sa sb] in *.
  - destruct xa as [h1 h2 r1 r2 c1 c2 [e|] ev]; cbn [entry] in He.
    + destruct e, c; try (exfalso; apply He; reflexivity);
        unfold abs_conns, do_step; cbn [get sa sb entry set_hs set_h set_cl set_entry put origin_at dialer node_eqb cid_eqb];
        cbn [ActivePeers.step conns find fst]; rewrite Hbb; cbn [tb];
        unfold tie_break; destruct (N.ltb_spec a b), (N.ltb_spec b a); try lia;
        cbn [negb fst conns remove_key filter app entry get sa sb set_hs set_h set_cl set_entry put abs_conns idc origin_at dialer node_eqb];
        rewrite ?Hbb; reflexivity.
    + destruct c; unfold abs_conns, do_step;
        cbn [get sa sb entry set_hs set_h set_cl set_entry put origin_at dialer node_eqb cid_eqb ActivePeers.step conns find fst app idc];
        reflexivity.
  - destruct xb as [h1 h2 r1 r2 c1 c2 [e|] ev]; cbn [entry] in He.
    + destruct e, c; try (exfalso; apply He; reflexivity);
        unfold abs_conns, do_step; cbn [get sa sb entry set_hs set_h set_cl set_entry put origin_at dialer node_eqb cid_eqb];
        cbn [ActivePeers.step conns find fst]; rewrite Hab; cbn [tb];
        unfold tie_break; destruct (N.ltb_spec a b), (N.ltb_spec b a); try lia;
        cbn [negb fst conns remove_key filter app entry get sa sb set_hs set_h set_cl set_entry put abs_conns idc origin_at dialer node_eqb];
        rewrite ?Hab; reflexivity.
    + destruct c; unfold abs_conns, do_step;
        cbn [get sa sb entry set_hs set_h set_cl set_entry put origin_at dialer node_eqb cid_eqb ActivePeers.step conns find fst app idc];
        reflexivity.
Qed.
