From Coq Require Import Arith.
From AnemoVerif Require Import Base Shutdown.
From AnemoVerif.Proofs Require Import Base_proofs.
From Coq Require Import ZifyN ZifyNat ZifyBool.

Ltac brk H :=
  repeat match type of H with
         | context [match ?x with _ => _ end] => let E := fresh "E" in destruct x eqn:E; try discriminate
         | context [if ?x then _ else _] => let E := fresh "E" in destruct x eqn:E; try discriminate
         end.

(** ---------- handler-list lemmas ---------- *)
Lemma find_h_some i l h : find_h i l = Some h -> In h l /\ h_id h = i.
Proof.
  induction l as [|x r IH]; cbn [find_h]; [discriminate|].
  destruct (N.eqb_spec (h_id x) i) as [E|Hne]; intros H.
  - inversion H; subst. split; [now left|reflexivity].
  - destruct (IH H). split; [now right|assumption].
Qed.

Lemma find_h_upd_same i f l :
  (forall h, h_id (f h) = h_id h) ->
  find_h i (upd_h i f l) = match find_h i l with Some h => Some (f h) | None => None end.
Proof.
  intros Hf. induction l as [|x r IH]; [reflexivity|]. cbn [upd_h map find_h]. fold (upd_h i f r).
  destruct (N.eqb_spec (h_id x) i) as [E|Hne].
  - rewrite Hf, E, N.eqb_refl. reflexivity.
  - destruct (N.eqb_spec (h_id x) i); [contradiction|exact IH].
Qed.

Lemma find_h_upd_other i j f l :
  (forall h, h_id (f h) = h_id h) -> j <> i -> find_h j (upd_h i f l) = find_h j l.
Proof.
  intros Hf Hne. induction l as [|x r IH]; [reflexivity|]. cbn [upd_h map find_h]. fold (upd_h i f r).
  destruct (N.eqb_spec (h_id x) i) as [E|Hx].
  - rewrite Hf. destruct (N.eqb_spec (h_id x) j); [congruence|exact IH].
  - destruct (N.eqb_spec (h_id x) j); [reflexivity|exact IH].
Qed.

Lemma find_h_del_other i j l : j <> i -> find_h j (del_h i l) = find_h j l.
Proof.
  intros Hne. induction l as [|x r IH]; [reflexivity|]. cbn [del_h filter find_h]. fold (del_h i r).
  destruct (N.eqb_spec (h_id x) i) as [E|Hx]; cbn [negb find_h].
  - destruct (N.eqb_spec (h_id x) j); [congruence|exact IH].
  - destruct (N.eqb_spec (h_id x) j); [reflexivity|exact IH].
Qed.

Lemma find_h_app j l h :
  find_h j (l ++ [h]) = match find_h j l with Some x => Some x | None => if h_id h =? j then Some h else None end.
Proof.
  induction l as [|x r IH]; cbn [app find_h]; [reflexivity|].
  destruct (h_id x =? j); [reflexivity|exact IH].
Qed.

Lemma find_h_none_fresh j l : (forall h, In h l -> h_id h < j) -> find_h j l = None.
Proof.
  induction l as [|x r IH]; intros H; [reflexivity|]. cbn [find_h].
  pose proof (H x (or_introl eq_refl)). destruct (N.eqb_spec (h_id x) j); [lia|].
  apply IH. intros h I. apply H. now right.
Qed.

(** ---------- the invariant of runs without runtime teardown ---------- *)
Definition inv (s : state) : Prop :=
  (forall p i, In (p, i) (entries s) ->
     exists h, find_h i (hands s) = Some h /\ h_peer h = p /\ h_ph h = HRunning)
  /\ (forall h, In h (hands s) -> h_id h < next_id s /\ h_ph h <> HCancelled)
  /\ (ph s <> MPanicked)
  /\ (match ph s with MAssert | MWaitIdle | MDone => hands s = [] | _ => True end)
  /\ (match ph s with MDone => entries s = [] /\ inbound s = O /\ forallb answered (calls s) = true | _ => True end).

Lemma inv_init : inv init.
Proof.
  unfold inv, init. cbn. repeat split; try (intros; contradiction); try discriminate.
Qed.

Lemma in_upd_h i f l h : In h (upd_h i f l) -> exists h0, In h0 l /\ (h = h0 \/ h = f h0).
Proof.
  unfold upd_h. intros I. apply in_map_iff in I as [h0 [E I]]. exists h0. split; [exact I|].
  destruct (h_id h0 =? i); auto.
Qed.

Lemma in_del_h i l h : In h (del_h i l) -> In h l.
Proof. unfold del_h. intros I. apply filter_In in I. tauto. Qed.

Lemma in_del_entry_peer p l e : In e (del_entry_peer p l) -> In e l /\ fst e <> p.
Proof.
  unfold del_entry_peer. intros I. apply filter_In in I as [A B]. split; [exact A|].
  destruct (N.eqb_spec (fst e) p); [discriminate|assumption].
Qed.

Lemma in_del_entry_exact p i l e : In e (del_entry_exact p i l) -> In e l /\ ~ (fst e = p /\ snd e = i).
Proof.
  unfold del_entry_exact. intros I. apply filter_In in I as [A B]. split; [exact A|].
  intros [E1 E2]. rewrite E1, E2, !N.eqb_refl in B. discriminate.
Qed.

Lemma inv_add_peer s peer :
  inv s -> in_loop s = true -> inv (add_peer s peer).
Proof.
  intros [I1 [I2 [I3 [I4 I5]]]] L. unfold in_loop in L. destruct (ph s) eqn:P; try discriminate.
  unfold inv, add_peer. cbn [entries hands ph next_id inbound calls]. rewrite ?P.
  split; [|split; [|split; [|split]]]; try exact I; try discriminate.
  - intros p i I. apply in_app_or in I as [I|[I|[]]].
    + apply in_del_entry_peer in I as [I _]. destruct (I1 p i I) as [h [F [A B]]].
      exists h. rewrite find_h_app, F. auto.
    + inversion I; subst. eexists. rewrite find_h_app.
      rewrite find_h_none_fresh by (intros h Ih; apply (I2 h Ih)).
      cbn [h_id]. rewrite N.eqb_refl. repeat split; reflexivity.
  - intros h I. apply in_app_or in I as [I|[I|[]]].
    + destruct (I2 h I). split; [lia|assumption].
    + subst. cbn. split; [lia|discriminate].
Qed.

Lemma inv_calls s c :
  inv s -> (ph s = MDone -> forallb answered c = true) -> inv (set_calls s c).
Proof.
  intros [I1 [I2 [I3 [I4 I5]]]] Hc. unfold inv, set_calls. cbn [entries hands ph next_id inbound calls].
  split; [exact I1|]. split; [exact I2|]. split; [exact I3|]. split; [exact I4|].
  destruct (ph s); try exact I. destruct I5 as [A [B C]]. repeat split; auto.
Qed.

Lemma first_waiting_spec l k pre post :
  first_waiting l = Some (k, pre, post) -> l = pre ++ Waiting k :: post.
Proof.
  revert pre. induction l as [|c r IH]; intros pre H; [discriminate|].
  cbn [first_waiting] in H. destruct c as [k0| | |b|k0].
  - destruct (first_waiting r) as [[[k1 p1] q1]|]; inversion H; subst. cbn [app]. f_equal. now apply IH.
  - destruct (first_waiting r) as [[[k1 p1] q1]|]; inversion H; subst. cbn [app]. f_equal. now apply IH.
  - destruct (first_waiting r) as [[[k1 p1] q1]|]; inversion H; subst. cbn [app]. f_equal. now apply IH.
  - destruct (first_waiting r) as [[[k1 p1] q1]|]; inversion H; subst. cbn [app]. f_equal. now apply IH.
  - inversion H; subst. reflexivity.
Qed.

Lemma answered_no_waiting l k pre post :
  forallb answered l = true -> first_waiting l = Some (k, pre, post) -> False.
Proof.
  intros A F. apply first_waiting_spec in F. subst l. rewrite forallb_app in A.
  apply andb_true_iff in A as [_ A]. cbn in A. discriminate.
Qed.

Lemma step_inv s l s' :
  inv s -> teardown_label l = false -> step s l = Some s' -> inv s'.
Proof.
  intros Hi T H. pose proof Hi as [I1 [I2 [I3 [I4 I5]]]].
  destruct l; cbn [teardown_label] in T; try discriminate; cbn [step] in H.
  - (* Submit *)
    destruct (receiver_gone s) eqn:R; inversion H; subst; clear H; apply inv_calls; try exact Hi.
    + intros P. rewrite P in I5. destruct I5 as [_ [_ C]].
      rewrite forallb_app, C. reflexivity.
    + intros P. unfold receiver_gone in R. rewrite P in R. discriminate.
  - (* Issue *)
    destruct (receiver_gone s) eqn:R; inversion H; subst; clear H; apply inv_calls; try exact Hi.
    + intros P. rewrite P in I5. destruct I5 as [_ [_ C]].
      rewrite forallb_app, C. reflexivity.
    + intros P. unfold receiver_gone in R. rewrite P in R. discriminate.
  - (* Admit *)
    destruct (first_waiting (calls s)) as [[[k pre] post]|] eqn:F; [|discriminate].
    inversion H; subst; clear H. apply inv_calls; [exact Hi|].
    intros P. rewrite P in I5. destruct I5 as [_ [_ C]]. exfalso. eapply answered_no_waiting; eassumption.
  - (* Process *)
    unfold in_loop in H. destruct (ph s) eqn:P; try discriminate.
    destruct (first_queued (calls s)) as [[[k0 pre] post]|]; [|discriminate]. rename k0 into k.
    destruct k; inversion H; subst; clear H.
    + apply inv_calls; [exact Hi|]. intros P2. congruence.
    + unfold inv. cbn [entries hands ph next_id inbound calls].
      repeat split; try assumption; try discriminate; try exact I; try (now apply I1); try (apply I2; assumption).
  - (* Incoming *)
    brk H. inversion H; subst; clear H. unfold in_loop in *. destruct (ph s) eqn:P; try discriminate.
    unfold inv. cbn [entries hands ph next_id inbound calls]. rewrite ?P.
    repeat split; try assumption; try discriminate; try exact I; try (now apply I1); try (apply I2; assumption).
  - (* InboundDone *)
    destruct (in_loop s) eqn:L; [|discriminate]. destruct (inbound s) as [|n] eqn:Ib; [discriminate|].
    assert (Hi1 : inv (mkS (ph s) n (hands s) (entries s) (calls s) (lost_events s) (endpoint_closed s) (next_id s))).
    { unfold in_loop in L. destruct (ph s) eqn:P; try discriminate. unfold inv. cbn [entries hands ph next_id inbound calls].
      rewrite ?P. repeat split; try assumption; try discriminate; try exact I; try (now apply I1); try (apply I2; assumption). }
    destruct ok; inversion H; subst; clear H; [|exact Hi1]. apply inv_add_peer; [exact Hi1|exact L].
  - (* DialDone *)
    destruct (in_loop s) eqn:L; [|discriminate].
    destruct (answer_first_indial ok (calls s)) as [c|]; [|discriminate].
    assert (Hi1 : inv (set_calls s c)).
    { unfold in_loop in L. destruct (ph s) eqn:P; try discriminate. unfold inv, set_calls. cbn [entries hands ph next_id inbound calls].
      rewrite ?P. repeat split; try assumption; try discriminate; try exact I; try (now apply I1); try (apply I2; assumption). }
    destruct ok; inversion H; subst; clear H; [|exact Hi1]. apply inv_add_peer; [exact Hi1|exact L].
  - (* Disconnect *)
    brk H. inversion H; subst; clear H. unfold inv. cbn [entries hands ph next_id inbound calls].
    split; [|split; [|split; [|split]]]; try assumption.
    + intros p i I. apply in_del_entry_peer in I as [I _]. now apply I1.
    + destruct (ph s); try exact I. destruct I5 as [A _]. rewrite A in E. discriminate.
  - (* StreamArrive *)
    destruct (find_h h (hands s)) as [x|] eqn:F; [|discriminate].
    destruct (h_ph x) eqn:Px; try discriminate. destruct (endpoint_closed s); [discriminate|].
    inversion H; subst; clear H. unfold inv, set_hands. cbn [entries hands ph next_id inbound calls].
    split; [|split; [|split; [|split]]]; try assumption.
    1: { intros p i I. destruct (I1 p i I) as [y [Fy [A B]]].
         destruct (N.eq_dec i h) as [->|Hne].
         * rewrite find_h_upd_same by reflexivity. rewrite Fy. eexists. split; [reflexivity|]. cbn. auto.
         * rewrite find_h_upd_other by (auto; reflexivity). eauto. }
    1: { intros y I. apply in_upd_h in I as [y0 [I0 [->| ->]]]; [now apply I2|]. cbn. now apply I2. }
    all: destruct (ph s); try exact I; try (rewrite I4 in F; discriminate).
  - (* ReqStart *)
    destruct (find_h h (hands s)) as [x|] eqn:F; [|discriminate].
    destruct (h_ph x) eqn:Px; try discriminate. destruct (h_backlog x) as [|b] eqn:Bx; [discriminate|].
    inversion H; subst; clear H. unfold inv, set_hands. cbn [entries hands ph next_id inbound calls].
    split; [|split; [|split; [|split]]]; try assumption.
    1: { intros p i I. destruct (I1 p i I) as [y [Fy [A B]]].
         destruct (N.eq_dec i h) as [->|Hne].
         * rewrite find_h_upd_same by reflexivity. rewrite Fy. eexists. split; [reflexivity|]. cbn. auto.
         * rewrite find_h_upd_other by (auto; reflexivity). eauto. }
    1: { intros y I. apply in_upd_h in I as [y0 [I0 [->| ->]]]; [now apply I2|]. cbn. now apply I2. }
    all: destruct (ph s); try exact I; try (rewrite I4 in F; discriminate).
  - (* ReqEnd *)
    destruct (find_h h (hands s)) as [x|] eqn:F; [|discriminate].
    assert (Hres : exists n, s' = set_hands s (upd_h h (fun h => set_reqs h n) (hands s))).
    { destruct (h_ph x); try discriminate; destruct (h_reqs x); try discriminate; inversion H; eauto. }
    destruct Hres as [n ->]. clear H. unfold inv, set_hands. cbn [entries hands ph next_id inbound calls].
    split; [|split; [|split; [|split]]]; try assumption.
    1: { intros p i I. destruct (I1 p i I) as [y [Fy [A B]]].
         destruct (N.eq_dec i h) as [->|Hne].
         * rewrite find_h_upd_same by reflexivity. rewrite Fy. eexists. split; [reflexivity|]. cbn. auto.
         * rewrite find_h_upd_other by (auto; reflexivity). eauto. }
    1: { intros y I. apply in_upd_h in I as [y0 [I0 [->| ->]]]; [now apply I2|]. cbn. now apply I2. }
    all: destruct (ph s); try exact I; try (rewrite I4 in F; discriminate).
  - (* HExit *)
    destruct (find_h h (hands s)) as [x|] eqn:F; [|discriminate].
    destruct (h_ph x) eqn:Px; try discriminate. inversion H; subst; clear H.
    unfold inv. cbn [entries hands ph next_id inbound calls].
    split; [|split; [|split; [|split]]]; try assumption.
    1: { intros p i I. apply in_del_entry_exact in I as [I Hne].
         destruct (I1 p i I) as [y [Fy [A B]]]. cbn [fst snd] in Hne.
         destruct (N.eq_dec i h) as [->|Hn].
         * exfalso. apply Hne. rewrite Fy in F. inversion F; subst. auto.
         * rewrite find_h_upd_other by (auto; reflexivity). eauto. }
    1: { intros y I. apply in_upd_h in I as [y0 [I0 [->| ->]]]; [now apply I2|]. cbn. split; [now apply I2|discriminate]. }
    all: destruct (ph s); try exact I; try (rewrite I4 in F; discriminate).
  - (* HAbort *)
    destruct (find_h h (hands s)) as [x|] eqn:F; [|discriminate].
    destruct (h_ph x) eqn:Px; try discriminate. inversion H; subst; clear H.
    unfold inv, set_hands. cbn [entries hands ph next_id inbound calls].
    split; [|split; [|split; [|split]]]; try assumption.
    1: { intros p i I. destruct (I1 p i I) as [y [Fy [A B]]].
         destruct (N.eq_dec i h) as [->|Hn].
         * rewrite Fy in F. inversion F; subst. congruence.
         * rewrite find_h_upd_other by (auto; reflexivity). eauto. }
    1: { intros y I. apply in_upd_h in I as [y0 [I0 [->| ->]]]; [now apply I2|]. cbn. split; [now apply I2|discriminate]. }
    all: destruct (ph s); try exact I; try (rewrite I4 in F; discriminate).
  - (* Join *)
    destruct (find_h h (hands s)) as [x|] eqn:F; [|destruct (ph s); discriminate].
    destruct (find_h_some _ _ _ F) as [Ix _]. destruct (I2 x Ix) as [_ Hc].
    assert (Hres : (ph s = MLoop \/ ph s = MWaitHandlers) /\ h_ph x = HEnded /\ s' = set_hands s (del_h h (hands s))).
    { destruct (ph s); try discriminate; destruct (h_ph x); try discriminate; try contradiction;
        inversion H; auto. }
    destruct Hres as [Hp [Px ->]]. clear H. unfold inv, set_hands. cbn [entries hands ph next_id inbound calls].
    split; [|split; [|split; [|split]]]; try assumption.
    1: { intros p i I. destruct (I1 p i I) as [y [Fy [A B]]].
         destruct (N.eq_dec i h) as [->|Hn].
         * rewrite Fy in F. inversion F; subst. congruence.
         * rewrite find_h_del_other by auto. eauto. }
    1: { intros y I. apply in_del_h in I. now apply I2. }
    all: destruct Hp as [Hp|Hp]; rewrite Hp in *; try exact I; try discriminate.
  - (* LastHandleDropped *)
    brk H. inversion H; subst; clear H. unfold inv. cbn [entries hands ph next_id inbound calls].
    repeat split; try assumption; try discriminate; try exact I; try (now apply I1); try (apply I2; assumption).
  - (* AbortPending *)
    destruct (ph s) eqn:P; try discriminate. inversion H; subst; clear H.
    unfold inv. cbn [entries hands ph next_id inbound calls].
    repeat split; try assumption; try discriminate; try exact I; try (now apply I1); try (apply I2; assumption).
  - (* AllJoined *)
    destruct (ph s) eqn:P; try discriminate. destruct (hands s) eqn:Hh; [|discriminate].
    inversion H; subst; clear H. unfold inv, set_phase. cbn [entries hands ph next_id inbound calls]. rewrite Hh.
    repeat split; try discriminate; try exact I; try (intros; contradiction).
    intros p i I. destruct (I1 p i I) as [y [Fy _]]. cbn in Fy. discriminate.
  - (* Assert / cleanup *)
    destruct (ph s) eqn:P; try discriminate. inversion H; subst; clear H.
    unfold inv. cbn [entries hands ph next_id inbound calls].
    repeat split; try assumption; try discriminate; try exact I; try (intros; contradiction); try (apply I2; assumption).
  - (* Finish *)
    destruct (ph s) eqn:P; try discriminate. inversion H; subst; clear H.
    unfold inv. cbn [entries hands ph next_id inbound calls].
    repeat split; try discriminate; try (intros; contradiction).
    unfold finish_calls. rewrite forallb_forall. intros c I. apply in_map_iff in I as [c0 [<- _]].
    destruct c0 as [k| | |b|k]; reflexivity.
Qed.

Lemma run_inv ls : forall s s',
  inv s -> forallb (fun l => negb (teardown_label l)) ls = true -> run s ls = Some s' -> inv s'.
Proof.
  induction ls as [|l t IH]; intros s s' Hi Ht H; cbn [run] in H; [now inversion H; subst|].
  cbn [forallb] in Ht. apply andb_true_iff in Ht as [T1 T2]. apply negb_true_iff in T1.
  destruct (step s l) as [s1|] eqn:E; [|discriminate].
  eapply IH; [|exact T2|exact H]. eapply step_inv; eassumption.
Qed.

(** ---------- the statements ---------- *)
Theorem never_panics_without_teardown ls s :
  forallb (fun l => negb (teardown_label l)) ls = true -> run init ls = Some s -> ph s <> MPanicked.
Proof. intros Ht H. exact (proj1 (proj2 (proj2 (run_inv ls init s inv_init Ht H)))). Qed.

Theorem assertion_holds ls s :
  forallb (fun l => negb (teardown_label l)) ls = true -> run init ls = Some s ->
  ph s = MAssert -> entries s = [].
Proof.
  intros Ht H P. destruct (run_inv ls init s inv_init Ht H) as [I1 [_ [_ [I4 _]]]]. rewrite P in I4.
  destruct (entries s) as [|[p i] r] eqn:E; [reflexivity|].
  destruct (I1 p i (or_introl eq_refl)) as [y [Fy _]]. rewrite I4 in Fy. discriminate.
Qed.

Theorem post_state ls s :
  forallb (fun l => negb (teardown_label l)) ls = true -> run init ls = Some s -> ph s = MDone ->
  entries s = [] /\ hands s = [] /\ inbound s = O /\ forallb answered (calls s) = true.
Proof.
  intros Ht H P. destruct (run_inv ls init s inv_init Ht H) as [_ [_ [_ [I4 I5]]]]. rewrite P in *.
  destruct I5 as [A [B C]]. auto.
Qed.

(** API calls issued after the manager has gone are answered at once, with an error. *)
Theorem late_calls_err s k :
  receiver_gone s = true -> step s (Submit k) = Some (set_calls s (calls s ++ [Answered false])).
Proof. intros R. cbn [step]. now rewrite R. Qed.

(** The shutdown sequence cannot get stuck: in every shutdown phase some step is enabled. *)
Theorem shutdown_progress s :
  inv s -> ph s <> MLoop -> ph s <> MDone ->
  exists l s', teardown_label l = false /\ progress_label l = true /\ step s l = Some s'.
Proof.
  intros [I1 [I2 [I3 [I4 I5]]]] NL ND. destruct (ph s) eqn:P; try contradiction.
  - exists AbortPending. eexists. cbn [step]. rewrite ?P. repeat split; reflexivity.
  - destruct (hands s) as [|h r] eqn:Hh.
    + exists AllJoined. eexists. cbn [step]. rewrite ?P, ?Hh. repeat split; reflexivity.
    + assert (F : find_h (h_id h) (h :: r) = Some h) by (cbn; now rewrite N.eqb_refl).
      destruct (I2 h) as [_ Hc]; [now left|].
      destruct (h_ph h) eqn:Ph; try contradiction.
      * exists (HExit (h_id h)). eexists. cbn [step]. rewrite ?P, ?Hh, ?F, ?Ph. repeat split; reflexivity.
      * exists (HAbort (h_id h)). eexists. cbn [step]. rewrite ?P, ?Hh, ?F, ?Ph. repeat split; reflexivity.
      * exists (Join (h_id h)). eexists. cbn [step]. rewrite ?P, ?Hh, ?F, ?Ph. repeat split; reflexivity.
  - exists Assert. eexists. cbn [step]. rewrite ?P. repeat split; reflexivity.
  - exists Finish. eexists. cbn [step]. rewrite ?P. repeat split; reflexivity.
Qed.

(** ---------- termination of the shutdown sequence ---------- *)
Lemma nodup_snoc {A} (p : A) (l : list A) : NoDup l -> ~ In p l -> NoDup (l ++ [p]).
Proof.
  intros Hn Hp. induction Hn as [|x l Hx Hn IH]; cbn [app]; [repeat constructor; auto|].
  constructor.
  - intros I. apply in_app_or in I as [I|[I|[]]]; [contradiction|]. subst. apply Hp. now left.
  - apply IH. intros I. apply Hp. now right.
Qed.

Definition uniq (s : state) : Prop := NoDup (map h_id (hands s)) /\ forall h, In h (hands s) -> h_id h < next_id s.

Lemma map_id_upd i f l : (forall h, h_id (f h) = h_id h) -> map h_id (upd_h i f l) = map h_id l.
Proof.
  intros Hf. induction l as [|x r IH]; [reflexivity|]. cbn [upd_h map]. fold (upd_h i f r). rewrite IH.
  destruct (h_id x =? i); [now rewrite Hf|reflexivity].
Qed.

Lemma nodup_del i l : NoDup (map h_id l) -> NoDup (map h_id (del_h i l)).
Proof.
  induction l as [|x r IH]; intros Hn; [constructor|]. cbn [map] in Hn. inversion Hn as [|? ? Hx Hn']; subst.
  cbn [del_h filter]. fold (del_h i r). destruct (negb (h_id x =? i)); [|now apply IH].
  cbn [map]. constructor; [|now apply IH]. intros I. apply Hx. apply in_map_iff in I as [y [E I]].
  apply in_del_h in I. rewrite <- E. now apply in_map.
Qed.

Lemma step_uniq s l s' : uniq s -> step s l = Some s' -> uniq s'.
Proof.
  intros [U1 U2] H.
  assert (Hadd : forall s0 peer, uniq s0 -> uniq (add_peer s0 peer)).
  { intros s0 peer [A B]. unfold uniq, add_peer. cbn [hands next_id]. split.
    - rewrite map_app. cbn [map h_id]. apply nodup_snoc; [exact A|].
      intros I. apply in_map_iff in I as [y [E I]]. specialize (B y I). lia.
    - intros h I. apply in_app_or in I as [I|[I|[]]]; [specialize (B h I); lia|subst; cbn; lia]. }
  destruct l; cbn [step] in H; brk H; inversion H; subst; clear H;
    try (split; [exact U1|exact U2]);
    try (unfold uniq, set_calls, set_hands, set_phase; cbn [hands next_id];
         first [ split; [rewrite map_id_upd by reflexivity; exact U1|intros y I; apply in_upd_h in I as [y0 [I0 [->| ->]]]; cbn; now apply U2]
               | split; [now apply nodup_del|intros y I; apply in_del_h in I; now apply U2]
               | split; [constructor|intros y []] ]).
  - apply Hadd. split; [exact U1|exact U2].
  - apply Hadd. split; [exact U1|exact U2].
  - unfold uniq, set_phase. cbn [hands next_id]. rewrite E0. split; [constructor|intros y []].
Qed.

Lemma sum_weight_upd i f l h :
  (forall x, h_id (f x) = h_id x) -> NoDup (map h_id l) -> find_h i l = Some h ->
  (sum_weight (upd_h i f l) + weight h = sum_weight l + weight (f h))%nat.
Proof.
  intros Hf. induction l as [|x r IH]; intros Hn F; [discriminate|].
  cbn [map] in Hn. inversion Hn as [|? ? Hx Hn']; subst.
  cbn [find_h] in F. cbn [upd_h map sum_weight]. fold (upd_h i f r).
  destruct (N.eqb_spec (h_id x) i) as [E|Hne].
  - inversion F; subst.
    assert (Hr : upd_h (h_id h) f r = r).
    { clear -Hx. induction r as [|y r IH]; [reflexivity|]. cbn [upd_h map]. fold (upd_h (h_id h) f r).
      destruct (N.eqb_spec (h_id y) (h_id h)) as [E|_]; [exfalso; apply Hx; left; exact E|].
      rewrite IH; [reflexivity|]. intros I. apply Hx. now right. }
    rewrite Hr. lia.
  - specialize (IH Hn' F). lia.
Qed.

Lemma sum_weight_del i l h :
  NoDup (map h_id l) -> find_h i l = Some h -> (sum_weight (del_h i l) + weight h = sum_weight l)%nat.
Proof.
  induction l as [|x r IH]; intros Hn F; [discriminate|].
  cbn [map] in Hn. inversion Hn as [|? ? Hx Hn']; subst.
  cbn [find_h] in F. cbn [del_h filter]. fold (del_h i r).
  destruct (N.eqb_spec (h_id x) i) as [E|Hne]; cbn [negb sum_weight].
  - inversion F; subst.
    assert (Hr : del_h (h_id h) r = r).
    { clear -Hx. induction r as [|y r IH]; [reflexivity|]. cbn [del_h filter]. fold (del_h (h_id h) r).
      destruct (N.eqb_spec (h_id y) (h_id h)) as [E|_]; [exfalso; apply Hx; left; exact E|].
      cbn [negb]. rewrite IH; [reflexivity|]. intros I. apply Hx. now right. }
    rewrite Hr. lia.
  - specialize (IH Hn' F). lia.
Qed.

Lemma length_filter_le {A} (f : A -> bool) l : (length (filter f l) <= length l)%nat.
Proof. induction l as [|x r IH]; cbn [filter length]; [lia|]. destruct (f x); cbn [length]; lia. Qed.

Lemma length_filter_lt {A} (f : A -> bool) l x :
  In x l -> f x = false -> (length (filter f l) < length l)%nat.
Proof.
  induction l as [|y r IH]; intros I Fx; [contradiction|]. cbn [filter length].
  destruct I as [->|I].
  - rewrite Fx. pose proof (length_filter_le f r). lia.
  - specialize (IH I Fx). destruct (f y); cbn [length]; lia.
Qed.

Definition cinv (s : state) : Prop := ph s = MLoop \/ ph s = MPanicked \/ endpoint_closed s = true.

Lemma step_cinv s l s' : cinv s -> step s l = Some s' -> cinv s'.
Proof.
  intros C H. unfold cinv in *.
  destruct l; cbn [step] in H; brk H; inversion H; subst; clear H;
    unfold set_calls, set_hands, set_phase, add_peer; cbn [ph endpoint_closed];
    try (exact C); try (right; right; reflexivity); try (right; left; reflexivity);
    try (unfold in_loop in *; destruct (ph s); try discriminate; left; reflexivity).
  all: try (destruct C as [C|[C|C]]; try (rewrite C in *; discriminate); auto).
Qed.

(** Every step taken after the loop has been left (API submissions aside) strictly decreases
    the measure: the shutdown sequence takes at most [meas s] steps, whatever is in flight. *)
Lemma step_meas s l s' :
  uniq s -> cinv s -> ph s <> MLoop -> ph s <> MPanicked -> teardown_label l = false -> step s l = Some s' ->
  ph s' <> MLoop /\ (meas s' + (if progress_label l then 1 else 0) <= meas s)%nat.
Proof.
  intros [U1 U2] C NL NP T H. unfold meas.
  assert (Ec : endpoint_closed s = true) by (destruct C as [C|[C|C]]; [contradiction|contradiction|exact C]).
  destruct l; cbn [teardown_label] in T; try discriminate; cbn [step progress_label] in H |- *.
  - (* Submit *) destruct (receiver_gone s); inversion H; subst; clear H;
      (split; [exact NL|cbn [ph inbound entries hands set_calls]; lia]).
  - (* Issue *) destruct (receiver_gone s); inversion H; subst; clear H;
      (split; [exact NL|cbn [ph inbound entries hands set_calls]; lia]).
  - (* Admit *) destruct (first_waiting (calls s)) as [[[k pre] post]|]; [|discriminate]. inversion H; subst; clear H.
    split; [exact NL|cbn [ph inbound entries hands set_calls]; lia].
  - (* Process *) unfold in_loop in H. destruct (ph s); try discriminate; contradiction.
  - unfold in_loop in H. destruct (ph s); cbn [andb] in H; try discriminate; contradiction.
  - unfold in_loop in H. destruct (ph s); try discriminate; contradiction.
  - unfold in_loop in H. destruct (ph s); try discriminate; contradiction.
  - (* Disconnect *)
    destruct (existsb (fun e => fst e =? peer) (entries s)) eqn:E; [|discriminate]. inversion H; subst; clear H.
    cbn [ph inbound entries hands]. split; [exact NL|].
    apply existsb_exists in E as [e [Ie Ee]].
    assert (length (del_entry_peer peer (entries s)) < length (entries s))%nat.
    { unfold del_entry_peer. apply length_filter_lt with (x := e); [exact Ie|]. now rewrite Ee. }
    lia.
  - (* StreamArrive: nothing arrives once the endpoint is closed *)
    destruct (find_h h (hands s)) as [x|] eqn:F; [|discriminate]. destruct (h_ph x); try discriminate.
    rewrite Ec in H. discriminate.
  - (* ReqStart: a waiting stream becomes a running request *)
    destruct (find_h h (hands s)) as [x|] eqn:F; [|discriminate]. destruct (h_ph x) eqn:Px; try discriminate.
    destruct (h_backlog x) as [|b] eqn:Bx; [discriminate|]. inversion H; subst; clear H.
    cbn [ph inbound entries hands set_hands]. split; [exact NL|].
    pose proof (sum_weight_upd h (fun h0 => set_reqs (set_backlog h0 b) (S (h_reqs h0))) (hands s) x ltac:(reflexivity) U1 F) as W.
    unfold weight in W. cbn [set_reqs set_backlog h_ph h_reqs h_backlog] in W. rewrite Px, Bx in W. lia.
  - (* ReqEnd *)
    destruct (find_h h (hands s)) as [x|] eqn:F; [|discriminate].
    assert (Hres : exists n, h_reqs x = S n /\ (h_ph x = HRunning \/ h_ph x = HDraining)
                             /\ s' = set_hands s (upd_h h (fun h0 => set_reqs h0 n) (hands s))).
    { destruct (h_ph x) eqn:Px; try discriminate; destruct (h_reqs x) eqn:R; try discriminate; inversion H; eauto. }
    destruct Hres as [n [R [Px ->]]]. clear H. cbn [ph inbound entries hands set_hands]. split; [exact NL|].
    pose proof (sum_weight_upd h (fun h0 => set_reqs h0 n) (hands s) x ltac:(reflexivity) U1 F) as W.
    unfold weight in W. cbn [set_reqs h_ph h_reqs h_backlog] in W. rewrite R in W.
    destruct Px as [Px|Px]; rewrite Px in W; lia.
  - (* HExit *)
    destruct (find_h h (hands s)) as [x|] eqn:F; [|discriminate]. destruct (h_ph x) eqn:Px; try discriminate.
    inversion H; subst; clear H. cbn [ph inbound entries hands]. split; [exact NL|].
    pose proof (sum_weight_upd h (fun h0 => set_ph h0 HDraining) (hands s) x ltac:(reflexivity) U1 F) as W.
    unfold weight in W. cbn [set_ph h_ph h_reqs h_backlog] in W. rewrite Px in W.
    pose proof (length_filter_le (fun e => negb ((fst e =? h_peer x) && (snd e =? h))) (entries s)).
    unfold del_entry_exact. lia.
  - (* HAbort *)
    destruct (find_h h (hands s)) as [x|] eqn:F; [|discriminate]. destruct (h_ph x) eqn:Px; try discriminate.
    inversion H; subst; clear H. cbn [ph inbound entries hands set_hands]. split; [exact NL|].
    pose proof (sum_weight_upd h (fun h0 => set_ph (set_reqs h0 0) HEnded) (hands s) x ltac:(reflexivity) U1 F) as W.
    unfold weight in W. cbn [set_ph set_reqs h_ph h_reqs h_backlog] in W. rewrite Px in W. lia.
  - (* Join *)
    destruct (find_h h (hands s)) as [x|] eqn:F; [|destruct (ph s); discriminate].
    assert (Hres : s' = set_hands s (del_h h (hands s))).
    { destruct (ph s); try discriminate; try contradiction; destruct (h_ph x); try discriminate; inversion H; reflexivity. }
    subst s'. clear H. cbn [ph inbound entries hands set_hands]. split; [exact NL|].
    pose proof (sum_weight_del h (hands s) x U1 F) as W.
    assert (1 <= weight x)%nat by (unfold weight; destruct (h_ph x); lia). lia.
  - (* LastHandleDropped *) unfold in_loop in H. destruct (ph s); try discriminate; contradiction.
  - (* AbortPending *)
    destruct (ph s) eqn:P; try discriminate. inversion H; subst; clear H.
    cbn [ph inbound entries hands rank]. split; [discriminate|]. lia.
  - (* AllJoined *)
    destruct (ph s) eqn:P; try discriminate. destruct (hands s) eqn:Hh; [|discriminate].
    inversion H; subst; clear H. cbn [ph inbound entries hands rank set_phase]. rewrite Hh.
    split; [discriminate|]. cbn [sum_weight]. lia.
  - (* Assert *)
    destruct (ph s) eqn:P; try discriminate. inversion H; subst; clear H.
    cbn [ph inbound entries hands rank set_phase length]. split; [discriminate|]. lia.
  - (* Finish *)
    destruct (ph s) eqn:P; try discriminate. inversion H; subst; clear H.
    cbn [ph inbound entries hands rank length sum_weight]. split; [discriminate|]. lia.
Qed.

Theorem shutdown_terminates ls : forall s s',
  uniq s -> cinv s -> inv s -> ph s <> MLoop ->
  forallb (fun l => negb (teardown_label l)) ls = true -> run s ls = Some s' ->
  (count_progress ls + meas s' <= meas s)%nat.
Proof.
  induction ls as [|l t IH]; intros s s' U C I NL Ht H; cbn [run] in H.
  - inversion H; subst. cbn. lia.
  - cbn [forallb] in Ht. apply andb_true_iff in Ht as [T1 T2]. apply negb_true_iff in T1.
    destruct (step s l) as [s1|] eqn:E; [|discriminate].
    assert (NP : ph s <> MPanicked) by (exact (proj1 (proj2 (proj2 I)))).
    destruct (step_meas s l s1 U C NL NP T1 E) as [NL1 M].
    specialize (IH s1 s' (step_uniq _ _ _ U E) (step_cinv _ _ _ C E) (step_inv _ _ _ I T1 E) NL1 T2 H).
    unfold count_progress in *. cbn [filter]. destruct (progress_label l); cbn [length]; lia.
Qed.

(** ---------- runtime teardown ---------- *)
(** With the repaired code no step leads to a panic, whatever the runtime cancels and whenever:
    a cancelled handler is simply joined, and what it left in the active-peer set is removed by
    shutdown() instead of tripping an assertion. *)
Lemma step_no_panic s l s' : ph s <> MPanicked -> step s l = Some s' -> ph s' <> MPanicked.
Proof.
  intros NP H. destruct l; cbn [step] in H; brk H; inversion H; subst; clear H;
    unfold set_calls, set_hands, set_phase, add_peer; cbn [ph]; try assumption; try discriminate;
    try (rewrite ?E, ?E0, ?E1 in *; assumption || discriminate).
Qed.

Theorem never_panics ls : forall s s', ph s <> MPanicked -> run s ls = Some s' -> ph s' <> MPanicked.
Proof.
  induction ls as [|l t IH]; intros s s' NP H; cbn [run] in H; [now inversion H; subst|].
  destruct (step s l) as [s1|] eqn:E; [|discriminate]. eapply IH; [|exact H]. eapply step_no_panic; eassumption.
Qed.

(** The schedules on which the pinned code panicked are executable in the model and end well. *)
Lemma former_teardown_witnesses :
  (exists s, run init [Incoming; InboundDone true 7; Cancel 0; Join 0] = Some s /\ ph s = MLoop)
  /\ (exists s, run init [Incoming; InboundDone true 7; Submit CShutdown; Process; Cancel 0; AbortPending;
                         Join 0; AllJoined; Assert; Finish] = Some s
                 /\ ph s = MDone /\ entries s = [] /\ lost_events s = 1%nat).
Proof. split; eexists; repeat split; reflexivity. Qed.

(** A cancelled handler's peer is reported lost exactly once by the cleanup. *)
Lemma cleanup_reports_leftovers s s' :
  step s Assert = Some s' -> entries s' = [] /\ lost_events s' = (lost_events s + length (entries s))%nat.
Proof. cbn [step]. destruct (ph s); try discriminate. intros H. inversion H; subst. auto. Qed.

Lemma accept_none_spins n s : in_loop s = true -> run s (repeat AcceptNone n) = Some s.
Proof. intros L. induction n as [|n IH]; [reflexivity|]. cbn [repeat run step]. now rewrite L. Qed.

(** ---------- repeated shutdowns: only one request is ever accepted ---------- *)
Definition is_accepted (c : call) : bool := match c with Accepted => true | _ => false end.
Definition n_accepted (l : list call) : nat := length (filter is_accepted l).

Lemma first_queued_spec l k pre post :
  first_queued l = Some (k, pre, post) -> l = pre ++ Queued k :: post.
Proof.
  revert pre. induction l as [|c r IH]; intros pre H; [discriminate|].
  cbn [first_queued] in H. destruct c as [k0| | |b|k0].
  - inversion H; subst. reflexivity.
  - destruct (first_queued r) as [[[k1 p1] q1]|]; inversion H; subst. cbn [app]. f_equal. now apply IH.
  - destruct (first_queued r) as [[[k1 p1] q1]|]; inversion H; subst. cbn [app]. f_equal. now apply IH.
  - destruct (first_queued r) as [[[k1 p1] q1]|]; inversion H; subst. cbn [app]. f_equal. now apply IH.
  - destruct (first_queued r) as [[[k1 p1] q1]|]; inversion H; subst. cbn [app]. f_equal. now apply IH.
Qed.

Lemma n_accepted_app a b : n_accepted (a ++ b) = (n_accepted a + n_accepted b)%nat.
Proof. unfold n_accepted. now rewrite filter_app, app_length. Qed.

Lemma n_accepted_answer ok l l' : answer_first_indial ok l = Some l' -> n_accepted l' = n_accepted l.
Proof.
  revert l'. induction l as [|c r IH]; intros l' H; [discriminate|]. cbn [answer_first_indial] in H.
  destruct c as [k| | |b|k].
  - destruct (answer_first_indial ok r) as [r'|]; inversion H; subst. unfold n_accepted in *. cbn [filter is_accepted]. now apply IH.
  - inversion H; subst. reflexivity.
  - destruct (answer_first_indial ok r) as [r'|]; inversion H; subst. unfold n_accepted in *. cbn [filter is_accepted length]. f_equal. now apply IH.
  - destruct (answer_first_indial ok r) as [r'|]; inversion H; subst. unfold n_accepted in *. cbn [filter is_accepted]. now apply IH.
  - destruct (answer_first_indial ok r) as [r'|]; inversion H; subst. unfold n_accepted in *. cbn [filter is_accepted]. now apply IH.
Qed.

Lemma n_accepted_drop l : n_accepted (drop_indials l) = n_accepted l.
Proof.
  unfold n_accepted. induction l as [|c r IH]; [reflexivity|]. cbn [drop_indials map filter].
  fold (drop_indials r). destruct c; cbn [is_accepted length]; now rewrite IH.
Qed.

Definition acc_inv (s : state) : Prop :=
  (n_accepted (calls s) <= 1)%nat /\ (in_loop s = true -> n_accepted (calls s) = O).

Lemma step_acc s l s' : acc_inv s -> step s l = Some s' -> acc_inv s'.
Proof.
  intros [A1 A2] H. unfold acc_inv.
  destruct l; cbn [step] in H.
  - destruct (receiver_gone s) eqn:R; inversion H; subst; clear H; cbn [calls set_calls in_loop ph];
      rewrite n_accepted_app; unfold n_accepted at 2 4; cbn; split; try lia; intros L; specialize (A2 L); lia.
  - destruct (receiver_gone s) eqn:R; inversion H; subst; clear H; cbn [calls set_calls in_loop ph];
      rewrite n_accepted_app; unfold n_accepted at 2 4; cbn; split; try lia; intros L; specialize (A2 L); lia.
  - destruct (first_waiting (calls s)) as [[[k pre] post]|] eqn:F; [|discriminate].
    apply first_waiting_spec in F. inversion H; subst; clear H. cbn [calls set_calls in_loop ph].
    rewrite F in A1, A2. rewrite n_accepted_app in *. unfold n_accepted in A1 at 2. unfold n_accepted in A2 at 2.
    cbn [filter is_accepted] in A1, A2. fold (n_accepted post) in A1, A2.
    unfold n_accepted at 2 4. cbn [filter is_accepted]. fold (n_accepted post). split; [exact A1|exact A2].
  - destruct (in_loop s) eqn:L; [|discriminate]. specialize (A2 eq_refl).
    destruct (first_queued (calls s)) as [[[k pre] post]|] eqn:F; [|discriminate].
    apply first_queued_spec in F. rewrite F in A2. rewrite n_accepted_app in A2.
    unfold n_accepted in A2 at 2. cbn [filter is_accepted] in A2. fold (n_accepted post) in A2.
    destruct k; inversion H; subst; clear H; cbn [calls set_calls in_loop ph]; rewrite n_accepted_app;
      unfold n_accepted at 2 4; cbn [filter is_accepted length]; fold (n_accepted post);
      split; try lia; try (intros; lia); intros; discriminate.
  - brk H. inversion H; subst; clear H. cbn [calls in_loop ph]. split; [exact A1|exact A2].
  - destruct (in_loop s) eqn:L; [|discriminate]. destruct (inbound s); [discriminate|].
    destruct ok; inversion H; subst; clear H; unfold add_peer; cbn [calls in_loop ph]; split; auto.
  - destruct (in_loop s) eqn:L; [|discriminate].
    destruct (answer_first_indial ok (calls s)) as [c|] eqn:Ea; [|discriminate].
    pose proof (n_accepted_answer _ _ _ Ea) as En.
    destruct ok; inversion H; subst; clear H; unfold add_peer, set_calls; cbn [calls in_loop ph]; rewrite En; split; auto.
  - brk H. inversion H; subst; clear H. cbn [calls in_loop ph]. split; auto.
  - brk H; inversion H; subst; clear H; unfold set_hands; cbn [calls in_loop ph]; split; auto.
  - brk H; inversion H; subst; clear H; unfold set_hands; cbn [calls in_loop ph]; split; auto.
  - brk H; inversion H; subst; clear H; unfold set_hands; cbn [calls in_loop ph]; split; auto.
  - brk H; inversion H; subst; clear H; cbn [calls in_loop ph]; split; auto.
  - brk H; inversion H; subst; clear H; unfold set_hands; cbn [calls in_loop ph]; split; auto.
  - brk H; inversion H; subst; clear H; unfold set_hands, set_phase; cbn [calls in_loop ph]; split; auto;
      try (intros; discriminate); unfold in_loop in A2; rewrite ?E in A2; auto.
  - brk H. inversion H; subst; clear H. cbn [calls in_loop ph]. split; [exact A1|intros; discriminate].
  - brk H. inversion H; subst; clear H. cbn [calls in_loop ph]. rewrite n_accepted_drop. split; [exact A1|intros; discriminate].
  - brk H. inversion H; subst; clear H. unfold set_phase. cbn [calls in_loop ph]. split; [exact A1|intros; discriminate].
  - brk H; inversion H; subst; clear H; unfold set_phase; cbn [calls in_loop ph]; split; auto; intros; discriminate.
  - brk H. inversion H; subst; clear H. cbn [calls in_loop ph]. split; [|intros; discriminate].
    assert (G : forall l, n_accepted (finish_calls l) = O).
    { unfold n_accepted. induction l as [|c r IH]; [reflexivity|]. cbn [finish_calls map filter].
      fold (finish_calls r). destruct c; cbn [is_accepted]; exact IH. }
    rewrite G. lia.
  - brk H; inversion H; subst; clear H; unfold set_hands; cbn [calls in_loop ph]; split; auto.
  - brk H. inversion H; subst. split; auto.
Qed.

Theorem at_most_one_shutdown_accepted ls s :
  run init ls = Some s -> (n_accepted (calls s) <= 1)%nat.
Proof.
  assert (G : forall ls s0 s1, acc_inv s0 -> run s0 ls = Some s1 -> acc_inv s1).
  { induction ls0 as [|l t IH]; intros s0 s1 A H; cbn [run] in H; [now inversion H; subst|].
    destruct (step s0 l) as [s2|] eqn:E; [|discriminate]. eapply IH; [|exact H]. eapply step_acc; eassumption. }
  intros H. apply (G ls init s); [|exact H]. split; [cbn; lia|reflexivity].
Qed.

(** ---------- C06: the manager leaves its loop only on shutdown ---------- *)
Definition benign (l : label) : bool :=
  match l with
  | Submit CShutdown | Issue CShutdown | LastHandleDropped | Cancel _ | AcceptNone => false
  | _ => true
  end.

Definition no_shutdown_queued (l : list call) : bool :=
  forallb (fun c => match c with Queued CShutdown | Waiting CShutdown => false | _ => true end) l.

Lemma first_queued_no_shutdown l k pre post :
  no_shutdown_queued l = true -> first_queued l = Some (k, pre, post) ->
  k = CConnect /\ no_shutdown_queued (pre ++ InDial :: post) = true.
Proof.
  intros N F. apply first_queued_spec in F. subst l. unfold no_shutdown_queued in *.
  rewrite forallb_app in *. cbn [forallb] in *. apply andb_true_iff in N as [N1 N2].
  apply andb_true_iff in N2 as [N2 N3]. destruct k; [|discriminate]. split; [reflexivity|].
  now rewrite N1, N3.
Qed.

Lemma answer_no_shutdown ok l l' :
  no_shutdown_queued l = true -> answer_first_indial ok l = Some l' -> no_shutdown_queued l' = true.
Proof.
  revert l'. induction l as [|c r IH]; intros l' N H; [discriminate|]. cbn [answer_first_indial] in H.
  unfold no_shutdown_queued in *. cbn [forallb] in N. apply andb_true_iff in N as [N1 N2].
  destruct c as [k| | |b|k].
  - destruct (answer_first_indial ok r) as [r'|]; inversion H; subst. cbn [forallb]. rewrite N1. now apply IH.
  - inversion H; subst. cbn [forallb]. exact N2.
  - destruct (answer_first_indial ok r) as [r'|]; inversion H; subst. cbn [forallb]. now apply IH.
  - destruct (answer_first_indial ok r) as [r'|]; inversion H; subst. cbn [forallb]. now apply IH.
  - destruct (answer_first_indial ok r) as [r'|]; inversion H; subst. cbn [forallb]. rewrite N1. now apply IH.
Qed.

Definition loop_inv (s : state) : Prop :=
  ph s = MLoop /\ no_shutdown_queued (calls s) = true /\ (forall h, In h (hands s) -> h_ph h <> HCancelled).

Lemma step_loop s l s' : loop_inv s -> benign l = true -> step s l = Some s' -> loop_inv s'.
Proof.
  intros [L [N C]] B H. unfold loop_inv.
  assert (Cadd : forall s0 peer, (forall h, In h (hands s0) -> h_ph h <> HCancelled) ->
                                 forall h, In h (hands (add_peer s0 peer)) -> h_ph h <> HCancelled).
  { intros s0 peer C0 h I. unfold add_peer in I. cbn [hands] in I.
    apply in_app_or in I as [I|[I|[]]]; [now apply C0|subst; discriminate]. }
  assert (Cupd : forall i f, (forall h, h_ph h <> HCancelled -> h_ph (f h) <> HCancelled) ->
                             forall h, In h (upd_h i f (hands s)) -> h_ph h <> HCancelled).
  { intros i f Hf h I. apply in_upd_h in I as [h0 [I0 [->| ->]]]; [now apply C|apply Hf; now apply C]. }
  destruct l; cbn [benign] in B; try discriminate; cbn [step] in H.
  - destruct k; [|discriminate]. unfold receiver_gone in H. rewrite L in H. inversion H; subst.
    cbn [ph calls set_calls hands]. split; [exact L|]. split; [|exact C].
    unfold no_shutdown_queued in *. rewrite forallb_app, N. reflexivity.
  - destruct k; [|discriminate]. unfold receiver_gone in H. rewrite L in H. inversion H; subst.
    cbn [ph calls set_calls hands]. split; [exact L|]. split; [|exact C].
    unfold no_shutdown_queued in *. rewrite forallb_app, N. reflexivity.
  - destruct (first_waiting (calls s)) as [[[k pre] post]|] eqn:F; [|discriminate].
    apply first_waiting_spec in F. inversion H; subst.
    cbn [ph calls set_calls hands]. split; [exact L|]. split; [|exact C].
    unfold no_shutdown_queued in *. rewrite F in N. rewrite forallb_app in *. cbn [forallb] in *.
    apply andb_true_iff in N as [N1 N2]. apply andb_true_iff in N2 as [N2 N3].
    destruct k; [|discriminate]. now rewrite N1, N3.
  - unfold in_loop in H. rewrite L in H.
    destruct (first_queued (calls s)) as [[[k pre] post]|] eqn:F; [|discriminate].
    destruct (first_queued_no_shutdown _ _ _ _ N F) as [-> N']. inversion H; subst.
    cbn [ph calls set_calls hands]. auto.
  - brk H. inversion H; subst. cbn [ph calls hands]. auto.
  - unfold in_loop in H. rewrite L in H. destruct (inbound s); [discriminate|].
    destruct ok; inversion H; subst.
    + split; [first [exact L|reflexivity]|]. split; [exact N|]. apply Cadd. exact C.
    + cbn [ph calls hands]. auto.
  - unfold in_loop in H. rewrite L in H.
    destruct (answer_first_indial ok (calls s)) as [c|] eqn:Ea; [|discriminate].
    pose proof (answer_no_shutdown _ _ _ N Ea) as N'.
    destruct ok; inversion H; subst.
    + split; [first [exact L|reflexivity]|]. split; [exact N'|]. apply Cadd. exact C.
    + unfold set_calls. cbn [ph calls hands]. auto.
  - brk H. inversion H; subst. cbn [ph calls hands]. auto.
  - brk H; inversion H; subst; unfold set_hands; cbn [ph calls hands]; (split; [exact L|split; [exact N|apply Cupd; intros x Hx; first [exact Hx|cbn; discriminate]]]).
  - brk H; inversion H; subst; unfold set_hands; cbn [ph calls hands]; (split; [exact L|split; [exact N|apply Cupd; intros x Hx; first [exact Hx|cbn; discriminate]]]).
  - brk H; inversion H; subst; unfold set_hands; cbn [ph calls hands]; (split; [exact L|split; [exact N|apply Cupd; intros x Hx; first [exact Hx|cbn; discriminate]]]).
  - brk H; inversion H; subst; cbn [ph calls hands]; (split; [exact L|split; [exact N|apply Cupd; intros x Hx; first [exact Hx|cbn; discriminate]]]).
  - brk H; inversion H; subst; unfold set_hands; cbn [ph calls hands]; (split; [exact L|split; [exact N|apply Cupd; intros x Hx; first [exact Hx|cbn; discriminate]]]).
  - rewrite L in H. destruct (find_h h (hands s)) as [x|] eqn:F; [|discriminate].
    destruct (find_h_some _ _ _ F) as [Ix _]. specialize (C x Ix) as Cx.
    destruct (h_ph x) eqn:Px; try discriminate; try contradiction.
    inversion H; subst. unfold set_hands. cbn [ph calls hands]. split; [exact L|]. split; [exact N|].
    intros y I. apply in_del_h in I. now apply C.
  - rewrite L in H. discriminate.
  - rewrite L in H. discriminate.
  - rewrite L in H. discriminate.
  - rewrite L in H. discriminate.
Qed.

(** Whatever connected peers and local API users do short of asking for shutdown, the manager
    stays in its event loop (a panic propagated from a request handler is the only other way
    out, and a Gallina model has none: see the assumptions of C06). *)
Theorem manager_stays_in_loop ls s :
  forallb benign ls = true -> run init ls = Some s -> ph s = MLoop.
Proof.
  assert (G : forall ls s0 s1, loop_inv s0 -> forallb benign ls = true -> run s0 ls = Some s1 -> loop_inv s1).
  { induction ls0 as [|l t IH]; intros s0 s1 A B H; cbn [run] in H; [now inversion H; subst|].
    cbn [forallb] in B. apply andb_true_iff in B as [B1 B2].
    destruct (step s0 l) as [s2|] eqn:E; [|discriminate]. eapply IH; [|exact B2|exact H]. eapply step_loop; eassumption. }
  intros B H. apply (G ls init s); [|exact B|exact H].
  unfold loop_inv, init. cbn. repeat split. intros h [].
Qed.

Lemma nothing_arrives_after_close s h : endpoint_closed s = true -> step s (StreamArrive h) = None.
Proof.
  intros E. cbn [step]. destruct (find_h h (hands s)) as [x|]; [|reflexivity].
  destruct (h_ph x); try reflexivity. now rewrite E.
Qed.

(** ---------- the bounded mailbox: callers that wait for room ---------- *)
Lemma finish_answers_all s s' : step s Finish = Some s' -> forallb answered (calls s') = true.
Proof.
  cbn [step]. destruct (ph s); try discriminate. intros H. inversion H; subst. cbn [calls].
  unfold finish_calls. rewrite forallb_forall. intros c I. apply in_map_iff in I as [c0 [<- _]].
  destruct c0 as [k| | |b|k]; reflexivity.
Qed.

Lemma admit_oldest_waiting s k pre post :
  first_waiting (calls s) = Some (k, pre, post) ->
  step s Admit = Some (set_calls s (pre ++ Queued k :: post))
  /\ calls s = pre ++ Waiting k :: post
  /\ forallb (fun c => match c with Waiting _ => false | _ => true end) pre = true.
Proof.
  intros F. split; [cbn [step]; now rewrite F|]. split; [now apply first_waiting_spec|].
  revert k pre post F. generalize (calls s). induction l as [|c r IH]; intros k pre post F; [discriminate|].
  cbn [first_waiting] in F. destruct c as [k0| | |b|k0];
    try (destruct (first_waiting r) as [[[k1 p1] q1]|] eqn:E; inversion F; subst; cbn [forallb]; eapply IH; reflexivity).
  inversion F; subst. reflexivity.
Qed.

Lemma waiting_leaves_manager_alone s k s' :
  step s (Issue k) = Some s' ->
  ph s' = ph s /\ hands s' = hands s /\ entries s' = entries s /\ inbound s' = inbound s /\ meas s' = meas s.
Proof.
  cbn [step]. destruct (receiver_gone s); intros H; inversion H; subst; unfold meas, set_calls; cbn; auto.
Qed.
