From AnemoVerif Require Import Base Utf8 Bincode.
From AnemoVerif.Proofs Require Import Base_proofs.
From Coq Require Import Arith ZifyN ZifyNat ZifyBool.

Definition two64 : N := 18446744073709551616.

Lemma pow_8 : 256 ^ N.of_nat 8 = two64.
Proof. reflexivity. Qed.
Lemma pow_2 : 256 ^ N.of_nat 2 = 65536.
Proof. reflexivity. Qed.
Lemma pow_4 : 256 ^ N.of_nat 4 = 4294967296.
Proof. reflexivity. Qed.

Lemma dec_u64_enc n r : n < two64 -> dec_u64 (enc_u64 n ++ r) = Some (n, r).
Proof.
  intros H. unfold dec_u64, enc_u64.
  rewrite take_app by (now rewrite len_le_bytes).
  rewrite le_val_le_bytes; [reflexivity|now rewrite pow_8].
Qed.

Lemma dec_u16_enc n r : n < 65536 -> dec_u16 (enc_u16 n ++ r) = Some (n, r).
Proof.
  intros H. unfold dec_u16, enc_u16.
  rewrite take_app by (now rewrite len_le_bytes).
  rewrite le_val_le_bytes; [reflexivity|now rewrite pow_2].
Qed.

Lemma len_enc_str s : len (enc_str s) = 8 + len s.
Proof. unfold enc_str, enc_u64. now rewrite len_app, len_le_bytes. Qed.

Lemma dec_str_enc s r :
  utf8_valid s = true -> len s < two64 -> dec_str (enc_str s ++ r) = Some (s, r).
Proof.
  intros Hu Hl. unfold dec_str, enc_str. rewrite <- app_assoc.
  rewrite dec_u64_enc by assumption.
  rewrite take_app by reflexivity. now rewrite Hu.
Qed.

Definition pairs_utf8 (h : list (bytes * bytes)) : bool :=
  forallb (fun kv => utf8_valid (fst kv) && utf8_valid (snd kv)) h.

Lemma len_enc_pairs_cons k v l :
  len (enc_pairs ((k, v) :: l)) = 16 + len k + len v + len (enc_pairs l).
Proof. cbn [enc_pairs]. rewrite !len_app, !len_enc_str. lia. Qed.

Lemma len_enc_pairs_ge l : len l <= len (enc_pairs l).
Proof.
  induction l as [|[k v] l IH]; [cbn; lia|].
  rewrite len_enc_pairs_cons, len_cons. lia.
Qed.

Lemma dec_pairs_enc l : forall r fuel,
  pairs_utf8 l = true -> len (enc_pairs l) < two64 -> (length l <= fuel)%nat ->
  dec_pairs fuel (len l) (enc_pairs l ++ r) = Some (l, r).
Proof.
  induction l as [|[k v] l IH]; intros r fuel Hu Hl Hf.
  - destruct fuel; reflexivity.
  - destruct fuel as [|fuel]; [cbn [length] in Hf; lia|].
    cbn [dec_pairs]. rewrite len_cons.
    destruct (N.eqb_spec (1 + len l) 0) as [E|_]; [lia|].
    cbn [pairs_utf8 forallb fst snd] in Hu.
    apply andb_true_iff in Hu as [Hkv Hu]. apply andb_true_iff in Hkv as [Hk Hv].
    rewrite len_enc_pairs_cons in Hl.
    cbn [enc_pairs]. rewrite <- !app_assoc.
    rewrite dec_str_enc by (auto; lia).
    rewrite dec_str_enc by (auto; lia).
    replace (1 + len l - 1) with (len l) by lia.
    rewrite IH; [reflexivity|exact Hu|lia|cbn [length] in Hf; lia].
Qed.

Lemma dec_map_enc l r :
  pairs_utf8 l = true -> len (enc_map l) < two64 -> dec_map (enc_map l ++ r) = Some (l, r).
Proof.
  intros Hu Hl. unfold dec_map, enc_map in *. rewrite <- app_assoc.
  unfold enc_u64 in Hl. rewrite len_app, len_le_bytes in Hl.
  pose proof (len_enc_pairs_ge l) as Hge.
  rewrite dec_u64_enc by lia.
  apply dec_pairs_enc; [assumption|lia|].
  rewrite app_length. unfold len in Hge. lia.
Qed.

(** [dec_str] consumes at least 8 bytes. *)
Lemma dec_str_consumes s b r : dec_str s = Some (b, r) -> (length r + 8 <= length s)%nat.
Proof.
  unfold dec_str, dec_u64.
  destruct (take 8 s) as [[h t]|] eqn:E1; [|discriminate].
  destruct (take (le_val h) t) as [[x y]|] eqn:E2; [|discriminate].
  destruct (utf8_valid x); [|discriminate].
  intros E; inversion E; subst; clear E.
  apply take_some in E1 as [-> L1]. apply take_some in E2 as [-> L2].
  rewrite !app_length. unfold len in L1. lia.
Qed.

(** The fuel is irrelevant once it covers the input: [dec_map] gives it [length s]. *)
Lemma dec_pairs_fuel : forall f1 f2 c s,
  (length s <= f1)%nat -> (length s <= f2)%nat -> dec_pairs f1 c s = dec_pairs f2 c s.
Proof.
  induction f1 as [|f1 IH]; intros f2 c s H1 H2.
  - destruct s; [|cbn [length] in H1; lia].
    destruct f2; cbn [dec_pairs]; destruct (c =? 0); try reflexivity.
  - destruct f2 as [|f2].
    + destruct s; [|cbn [length] in H2; lia].
      cbn [dec_pairs]. destruct (c =? 0); reflexivity.
    + cbn [dec_pairs]. destruct (c =? 0); [reflexivity|].
      destruct (dec_str s) as [[k r1]|] eqn:E1; [|reflexivity].
      destruct (dec_str r1) as [[v r2]|] eqn:E2; [|reflexivity].
      apply dec_str_consumes in E1. apply dec_str_consumes in E2.
      rewrite (IH f2 (c - 1) r2) by lia. reflexivity.
Qed.
