From Coq Require Import Arith Lia.
From AnemoVerif Require Import Base Utf8 Bincode Status Wire Rpc RpcTrace.

Section WithHandler.
  Variable max : N.
  Variable handler : request -> response.

  Lemma update_nth i f (c c' : conn) :
    update i f c = Some c' -> exists st st', nth_error c i = Some st /\ f st = Some st' /\ nth_error c' i = Some st'.
  Proof.
    revert i c'. induction c as [|x r IH]; intros i c' H; destruct i as [|j]; cbn [update] in H; try discriminate.
    - destruct (f x) as [x'|] eqn:E; [|discriminate]. inversion H; subst. exists x, x'. auto.
    - destruct (update j f r) as [r'|] eqn:E; [|discriminate]. inversion H; subst.
      destruct (IH _ _ E) as [st [st' [A [B C]]]]. exists st, st'. auto.
  Qed.

  (** Running the labels of one stream one after the other through the connection-level step. *)
  Lemma srun_crun ls : forall (c : conn) i st st',
    nth_error c i = Some st -> srun max handler st ls = Some st' ->
    forall c', update i (fun _ => Some st') c = Some c' ->
    crun max handler c (map (fun l => (i, l)) ls) = Some c'.
  Proof.
    induction ls as [|l t IH]; intros c i st st' Hn Hs c' Hu; cbn [srun map crun] in *.
    - inversion Hs; subst. f_equal.
      revert i c' Hn Hu. induction c as [|x r IHc]; intros i c' Hn Hu; destruct i as [|j]; cbn in *; try discriminate.
      + inversion Hn; subst. now inversion Hu.
      + destruct (update j (fun _ => Some st') r) as [r'|] eqn:E; [|discriminate]. inversion Hu; subst.
        f_equal. now apply IHc with (i := j).
    - destruct (sstep max handler st l) as [st1|] eqn:E1; [|discriminate].
      unfold cstep.
      assert (Hu1 : exists c1, update i (fun s => sstep max handler s l) c = Some c1 /\ nth_error c1 i = Some st1
                               /\ update i (fun _ => Some st') c1 = Some c').
      { clear IH Hs. revert i c' Hn Hu. induction c as [|x r IHc]; intros i c' Hn Hu; destruct i as [|j]; cbn in *; try discriminate.
        - inversion Hn; subst. rewrite E1. inversion Hu; subst. eexists. repeat split.
        - destruct (update j (fun _ => Some st') r) as [r'|] eqn:E; [|discriminate]. inversion Hu; subst.
          destruct (IHc j r' Hn E) as [c1 [A [B C]]]. rewrite A. exists (x :: c1). cbn. rewrite C. auto. }
      destruct Hu1 as [c1 [A [B C]]]. rewrite A. eapply IH; eassumption.
  Qed.

  Lemma update_const_of_update i f (c c' : conn) st st' :
    nth_error c i = Some st -> f st = Some st' -> update i f c = Some c' -> update i (fun _ => Some st') c = Some c'.
  Proof.
    revert i c'. induction c as [|x r IH]; intros i c' Hn Hf Hu; destruct i as [|j]; cbn in *; try discriminate.
    - inversion Hn; subst. rewrite Hf in Hu. exact Hu.
    - destruct (update j f r) as [r'|] eqn:E; [|discriminate]. inversion Hu; subst.
      now rewrite (IH j r' Hn Hf E).
  Qed.

  (** Every accepted event is a (possibly empty) sequence of model steps on its stream. *)
  Lemma estep_is_crun c i e c' :
    estep max handler c i e = Some c' ->
    exists st, nth_error c i = Some st
               /\ crun max handler c (map (fun l => (i, l)) (labels_for st e)) = Some c'.
  Proof.
    unfold estep. intros H. destruct (update_nth _ _ _ _ H) as [st [st' [A [B _]]]].
    exists st. split; [exact A|]. apply (srun_crun _ c i st st' A B c').
    exact (update_const_of_update i (fun s => srun max handler s (labels_for s e)) c c' st st' A B H).
  Qed.

  Lemma crun_app s1 : forall c c1 s2 c2,
    crun max handler c s1 = Some c1 -> crun max handler c1 s2 = Some c2 -> crun max handler c (s1 ++ s2) = Some c2.
  Proof.
    induction s1 as [|[i l] t IH]; intros c c1 s2 c2 H1 H2; cbn [crun app] in *.
    - inversion H1; subst. exact H2.
    - destruct (cstep max handler c i l) as [c'|]; [|discriminate]. eapply IH; eassumption.
  Qed.

  (** An accepted trace is a run of the model. *)
  Theorem erun_is_crun es : forall c n c',
    erun max handler c n es = (c', None) -> crun max handler c (sched_of max handler c es) = Some c'.
  Proof.
    induction es as [|[i e] t IH]; intros c n c' H; cbn [erun sched_of] in *.
    - inversion H; subst. reflexivity.
    - destruct (estep max handler c i e) as [c1|] eqn:E; [|discriminate].
      destruct (estep_is_crun _ _ _ _ E) as [st [A B]]. rewrite A.
      eapply crun_app; [exact B|]. eapply IH. exact H.
  Qed.
End WithHandler.
