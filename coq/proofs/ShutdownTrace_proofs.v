From Coq Require Import Arith Lia.
From AnemoVerif Require Import Base Shutdown ShutdownTrace.

(** Every accepted event is one step of the model. *)
Lemma tstep_is_step s e s' : tstep s e = Some s' -> exists l, resolve s e = Some l /\ step s l = Some s'.
Proof.
  unfold tstep. destruct (resolve s e) as [l|]; [|discriminate]. intros H. now exists l.
Qed.

(** An accepted trace is a run of the model: the states it visits are reachable. *)
Lemma trun_is_run es : forall s n s',
  trun s n es = (s', None) -> run s (labels_of s es) = Some s' /\ length (labels_of s es) = length es.
Proof.
  induction es as [|e t IH]; intros s n s' H; cbn [trun] in H.
  - inversion H; subst. cbn. auto.
  - unfold tstep in H. cbn [labels_of]. destruct (resolve s e) as [l|] eqn:R.
    + destruct (step s l) as [s1|] eqn:S1.
      * destruct (IH _ _ _ H) as [A B]. cbn [run length]. rewrite S1. split; [exact A|now rewrite B].
      * discriminate.
    + discriminate.
Qed.

(** A rejected trace names its first unacceptable event. *)
Lemma trun_reject es : forall s n s' k,
  trun s n es = (s', Some k) -> (n <= k < n + length es)%nat.
Proof.
  induction es as [|e t IH]; intros s n s' k H; cbn [trun] in H.
  - discriminate.
  - destruct (tstep s e) as [s1|].
    + apply IH in H. cbn [length]. lia.
    + inversion H; subst. cbn [length]. lia.
Qed.
