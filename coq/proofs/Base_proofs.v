From AnemoVerif Require Import Base.
From Coq Require Import Arith ZifyN ZifyNat ZifyBool.

Lemma len_app {A} (a b : list A) : len (a ++ b) = len a + len b.
Proof. unfold len. rewrite app_length. lia. Qed.

Lemma len_nil {A} : len (@nil A) = 0.
Proof. reflexivity. Qed.

Lemma len_cons {A} (x : A) l : len (x :: l) = 1 + len l.
Proof. unfold len. cbn [length]. lia. Qed.

Lemma take_app {A} (a b : list A) n : n = len a -> take n (a ++ b) = Some (a, b).
Proof.
  intros ->. unfold take. rewrite len_app.
  destruct (N.leb_spec (len a) (len a + len b)) as [_|H]; [|lia].
  unfold len. rewrite Nat2N.id.
  rewrite firstn_app, Nat.sub_diag, firstn_all. cbn [firstn]. rewrite app_nil_r.
  rewrite skipn_app, Nat.sub_diag, skipn_all. reflexivity.
Qed.

Lemma take_some {A} n (l a b : list A) :
  take n l = Some (a, b) -> l = a ++ b /\ len a = n.
Proof.
  unfold take. destruct (N.leb_spec n (len l)) as [H|H]; [|discriminate].
  intros E. inversion E; subst; clear E. split.
  - symmetry. apply firstn_skipn.
  - unfold len in *. rewrite firstn_length. lia.
Qed.

Lemma take_none {A} n (l : list A) : len l < n -> take n l = None.
Proof.
  intros H. unfold take. destruct (N.leb_spec n (len l)); [lia|reflexivity].
Qed.

Lemma take_none_inv {A} n (l : list A) : take n l = None -> len l < n.
Proof.
  unfold take. destruct (N.leb_spec n (len l)); [discriminate|auto].
Qed.

Lemma length_le_bytes k n : length (le_bytes k n) = k.
Proof. revert n. induction k as [|k IH]; intros n; cbn [le_bytes length]; [reflexivity|]. now rewrite IH. Qed.

Lemma len_le_bytes k n : len (le_bytes k n) = N.of_nat k.
Proof. unfold len. now rewrite length_le_bytes. Qed.

Lemma length_be_bytes k n : length (be_bytes k n) = k.
Proof. unfold be_bytes. rewrite rev_length. apply length_le_bytes. Qed.

Lemma len_be_bytes k n : len (be_bytes k n) = N.of_nat k.
Proof. unfold len. now rewrite length_be_bytes. Qed.

Lemma le_val_le_bytes k n : n < 256 ^ N.of_nat k -> le_val (le_bytes k n) = n.
Proof.
  revert n. induction k as [|k IH]; intros n H.
  - cbn [le_bytes le_val]. change (256 ^ N.of_nat 0) with 1 in H. lia.
  - cbn [le_bytes le_val].
    assert (Hk : 256 ^ N.of_nat (S k) = 256 * 256 ^ N.of_nat k).
    { rewrite Nat2N.inj_succ, N.pow_succ_r'. reflexivity. }
    rewrite IH.
    + pose proof (N.div_mod n 256). lia.
    + rewrite Hk in H. apply N.div_lt_upper_bound; lia.
Qed.

Lemma be_val_be_bytes k n : n < 256 ^ N.of_nat k -> be_val (be_bytes k n) = n.
Proof.
  intros H. unfold be_val, be_bytes. rewrite rev_involutive. now apply le_val_le_bytes.
Qed.

Lemma le_bytes_wf k n : wf_bytes (le_bytes k n) = true.
Proof.
  revert n. induction k as [|k IH]; intros n; cbn [le_bytes wf_bytes forallb]; [reflexivity|].
  fold (wf_bytes (le_bytes k (n / 256))). rewrite IH. unfold byteb.
  pose proof (N.mod_upper_bound n 256). destruct (N.ltb_spec (n mod 256) 256); [reflexivity|lia].
Qed.

Lemma bytes_eqb_refl a : bytes_eqb a a = true.
Proof. induction a as [|x a IH]; cbn [bytes_eqb]; [reflexivity|]. now rewrite N.eqb_refl, IH. Qed.

Lemma bytes_eqb_eq a b : bytes_eqb a b = true <-> a = b.
Proof.
  split.
  - revert b. induction a as [|x a IH]; intros [|y b]; cbn [bytes_eqb]; try discriminate; auto.
    intros H. apply andb_true_iff in H as [H1 H2]. apply N.eqb_eq in H1. subst. f_equal. auto.
  - intros ->. apply bytes_eqb_refl.
Qed.

Lemma firstn_app_le {A} n (a b : list A) : (n <= length a)%nat -> firstn n (a ++ b) = firstn n a.
Proof.
  intros H. rewrite firstn_app. replace (n - length a)%nat with O by lia.
  cbn [firstn]. now rewrite app_nil_r.
Qed.

Lemma firstn_app_ge {A} n (a b : list A) :
  (length a <= n)%nat -> firstn n (a ++ b) = a ++ firstn (n - length a) b.
Proof.
  intros H. rewrite firstn_app. now rewrite firstn_all2 by lia.
Qed.
