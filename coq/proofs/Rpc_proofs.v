From AnemoVerif Require Import Base Utf8 Bincode Status Wire Rpc.
From AnemoVerif.Proofs Require Import Base_proofs Bincode_proofs Wire_proofs.
From Coq Require Import Arith ZifyN ZifyNat ZifyBool.

Section Proofs.
  Variable max : N.
  Variable handler : request -> response.
  Notation sstep := (sstep max handler).
  Notation cstep := (cstep max handler).
  Notation crun := (crun max handler).

  (** ---------- at most once ---------- *)
  Definition once_inv (st : stream) : Prop :=
    match ss st with
    | SWait | SQueued _ => invocations st = O
    | SRunning _ | SWriting _ | SDone => invocations st = 1%nat
    | SFailed | SDropped => (invocations st <= 1)%nat
    end.

  Ltac break H :=
    repeat match type of H with
           | context [match ?x with _ => _ end] => let E := fresh "E" in destruct x eqn:E; try discriminate
           | context [if ?x then _ else _] => let E := fresh "E" in destruct x eqn:E; try discriminate
           end.
  Ltac proj := cbn [cs ss wire delivered resp_wire invocations reset stopped set_cs set_ss Rpc.sstep written] in *.

  Lemma sstep_once st l st' : once_inv st -> sstep st l = Some st' -> once_inv st'.
  Proof.
    unfold once_inv. intros I H. destruct st as [w c s d rw inv rs sp]. proj.
    destruct l; proj; break H; inversion H; subst; proj; try assumption; try lia.
  Qed.

  Lemma once_open w : once_inv (open_stream w).
  Proof. reflexivity. Qed.

  Lemma once_le st : once_inv st -> (invocations st <= 1)%nat.
  Proof. unfold once_inv. destruct (ss st); lia. Qed.

  (** ---------- steps of one stream never touch another (no shared state) ---------- *)
  Lemma update_other i f (c c' : conn) j :
    update i f c = Some c' -> j <> i -> nth_error c' j = nth_error c j.
  Proof.
    revert i c' j. induction c as [|st r IH]; intros i c' j H Hne; [destruct i; discriminate|].
    destruct i as [|i]; cbn [update] in H.
    - destruct (f st); inversion H; subst. destruct j; [contradiction|reflexivity].
    - destruct (update i f r) as [r'|] eqn:E; inversion H; subst.
      destruct j; [reflexivity|]. cbn [nth_error]. eapply IH; [exact E|lia].
  Qed.

  Lemma update_same i f (c c' : conn) :
    update i f c = Some c' -> exists st st', nth_error c i = Some st /\ f st = Some st' /\ nth_error c' i = Some st'.
  Proof.
    revert i c'. induction c as [|st r IH]; intros i c' H; [destruct i; discriminate|].
    destruct i as [|i]; cbn [update] in H.
    - destruct (f st) as [st'|] eqn:F; inversion H; subst. exists st, st'. auto.
    - destruct (update i f r) as [r'|] eqn:E; inversion H; subst. cbn [nth_error]. eapply IH. exact E.
  Qed.

  Lemma update_length i f (c c' : conn) : update i f c = Some c' -> length c' = length c.
  Proof.
    revert i c'. induction c as [|st r IH]; intros i c' H; [destruct i; discriminate|].
    destruct i as [|i]; cbn [update] in H.
    - destruct (f st); inversion H; subst. reflexivity.
    - destruct (update i f r) as [r'|] eqn:E; inversion H; subst. cbn [length]. f_equal. eapply IH. exact E.
  Qed.

  Lemma no_crosstalk c i l c' j :
    cstep c i l = Some c' -> j <> i -> nth_error c' j = nth_error c j.
  Proof. unfold Rpc.cstep. apply update_other. Qed.

  (** Every stream of a connection satisfies an invariant preserved by [sstep]. *)
  Lemma crun_invariant (P : stream -> Prop) :
    (forall st l st', P st -> sstep st l = Some st' -> P st') ->
    forall sched c c', Forall P c -> crun c sched = Some c' -> Forall P c'.
  Proof.
    intros Hs. induction sched as [|[i l] t IH]; intros c c' F H; cbn [Rpc.crun] in H.
    - inversion H; subst. exact F.
    - destruct (cstep c i l) as [c1|] eqn:E; [|discriminate].
      apply (IH c1 c'); [|exact H].
      apply Forall_forall. intros st' I. apply In_nth_error in I as [j Hj].
      destruct (Nat.eq_dec j i) as [->|Hne].
      + destruct (update_same _ _ _ _ E) as [st [st2 [A [B C]]]]. rewrite C in Hj. inversion Hj; subst.
        eapply Hs; [|exact B]. rewrite Forall_forall in F. apply F. eapply nth_error_In. exact A.
      + rewrite (no_crosstalk _ _ _ _ _ E Hne) in Hj. rewrite Forall_forall in F. apply F.
        eapply nth_error_In. exact Hj.
  Qed.

  Theorem at_most_once sched ws c' :
    crun (map open_stream ws) sched = Some c' -> Forall (fun st => (invocations st <= 1)%nat) c'.
  Proof.
    intros H. assert (F : Forall once_inv c').
    { eapply crun_invariant; [exact sstep_once| |exact H].
      apply Forall_forall. intros st I. apply in_map_iff in I as [w [<- _]]. apply once_open. }
    eapply Forall_impl; [|exact F]. intros st. apply once_le.
  Qed.

  (** ---------- pairing on honest streams ---------- *)
  Definition honest (req : request) (st : stream) : Prop :=
    wf_request max req = true /\ enc_request max req = Ok (wire st).

  Definition pair_inv (req : request) (st : stream) : Prop :=
    (delivered st <= length (wire st))%nat
    /\ match ss st with
       | SWait => True
       | SQueued q | SRunning q => q = strip_req req
       | SWriting r => r = handler (strip_req req) /\ enc_response max r = match resp_wire st with Some b => Ok b | None => Err EShort end
       | SDone => enc_response max (handler (strip_req req)) = match resp_wire st with Some b => Ok b | None => Err EShort end
       | SFailed | SDropped => True
       end
    /\ match cs st with
       | CGot (Ok r) => wf_response max (handler (strip_req req)) = true -> r = strip_resp (handler (strip_req req))
       | _ => True
       end.

  Lemma sstep_wire st l st' : sstep st l = Some st' -> wire st' = wire st.
  Proof.
    intros H. destruct st as [w c s d rw inv rs sp]. proj.
    destruct l; proj; break H; inversion H; subst; reflexivity.
  Qed.

  (** invariant of an honest stream carrying [req] *)
  Definition pinv (req : request) (st : stream) : Prop :=
    (delivered st <= length (wire st))%nat
    /\ match cs st with
       | CWriting n | CAbandoned n => (n <= length (wire st))%nat
       | _ => True
       end
    /\ match ss st with
       | SQueued q | SRunning q => q = strip_req req
       | SWriting r =>
           r = handler (strip_req req) /\ exists b, resp_wire st = Some b /\ enc_response max r = Ok b
       | SDone => exists b, resp_wire st = Some b /\ enc_response max (handler (strip_req req)) = Ok b
       | _ => True
       end
    /\ match cs st with
       | CGot (Ok r) =>
           wf_response max (handler (strip_req req)) = true -> r = strip_resp (handler (strip_req req))
       | _ => True
       end.

  Definition P (st : stream) : Prop := forall req, honest req st -> pinv req st.

  Lemma honest_decode req st d :
    honest req st -> (d <= length (wire st))%nat ->
    dec_request max (firstn d (wire st)) =
    if (d =? length (wire st))%nat then Ok (strip_req req, []) else Err EShort.
  Proof.
    intros [W E] Hd. destruct (Nat.eqb_spec d (length (wire st))) as [->|Hne].
    - rewrite firstn_all. rewrite <- (app_nil_r (wire st)). now apply request_roundtrip.
    - apply request_prefix_rejected with (r := req); [exact W|exact E|lia].
  Qed.

  Lemma sstep_P st l st' : P st -> sstep st l = Some st' -> P st'.
  Proof.
    intros HP H req Hh.
    assert (Hw : wire st' = wire st) by (eapply sstep_wire; exact H).
    assert (Hh0 : honest req st) by (destruct Hh as [A B]; split; [exact A|now rewrite <- Hw]).
    specialize (HP req Hh0). destruct HP as [I1 [I2 [I3 I4]]].
    pose proof (honest_decode req st (delivered st) Hh0 I1) as HD.
    clear Hh Hw.
    destruct st as [w c s d rw inv rs sp]. unfold pinv in *. proj.
    destruct l; proj; break H; inversion H; subst; clear H; proj.
    all: try (repeat split; try assumption; try exact I; try lia; fail).
    - (* Recv *)
      repeat split; try assumption.
      destruct c as [n| | |n]; proj; lia.
    - (* TryDecode succeeded *)
      repeat split; try assumption.
      destruct (d =? length w)%nat; inversion HD; reflexivity.
    - (* HandlerReturn *)
      repeat split; try assumption; subst.
      eexists. split; [reflexivity|]. assumption.
    - (* SFinish *)
      repeat split; try assumption.
      destruct I3 as [-> [b [Eb Ee]]]. exists b. auto.
    - (* CRead *)
      destruct I3 as [b1 [Eb Ee]]. inversion Eb; subst.
      repeat split; try assumption.
      + exists b1. auto.
      + intros Wr. pose proof (response_roundtrip max (handler (strip_req req)) [] b1 Wr Ee) as RT.
        rewrite app_nil_r in RT.
        match goal with E : dec_response _ _ = Ok _ |- _ => rewrite RT in E; inversion E; reflexivity end.
  Qed.

  Lemma P_open w : P (open_stream w).
  Proof.
    intros req _. unfold pinv, open_stream. cbn. repeat split; try lia; try exact I.
  Qed.

  (** C02 pairing / own response or error: on every honest stream of any connection, under any
      schedule and whatever the other streams carry, the handler sees exactly the request sent
      and the caller gets exactly the response the handler produced for it, or an error. *)
  Theorem pairing sched ws c' i st req :
    crun (map open_stream ws) sched = Some c' -> nth_error c' i = Some st -> honest req st ->
    (forall q, ss st = SRunning q -> q = strip_req req)
    /\ (forall r, cs st = CGot (Ok r) -> wf_response max (handler (strip_req req)) = true ->
                  r = strip_resp (handler (strip_req req))).
  Proof.
    intros H Hn Hh.
    assert (F : Forall P c').
    { eapply crun_invariant; [exact sstep_P| |exact H].
      apply Forall_forall. intros x I. apply in_map_iff in I as [w [<- _]]. apply P_open. }
    rewrite Forall_forall in F. specialize (F st (nth_error_In _ _ Hn) req Hh).
    destruct F as [_ [_ [I3 I4]]]. split.
    - intros q Eq. now rewrite Eq in I3.
    - intros r Er Wr. rewrite Er in I4. now apply I4.
  Qed.

  (** ---------- C06: whatever bytes a stream carries, decoding is total and confined ---------- *)
  Lemma errors_confined st st' :
    sstep st TryDecode = Some st' ->
    (exists q, ss st' = SQueued q /\ exists rest, dec_request max (firstn (delivered st) (wire st)) = Ok (q, rest))
    \/ ss st' = SFailed.
  Proof.
    intros H. destruct st as [w c s d rw inv rs sp]. proj. break H; inversion H; subst; proj.
    - left. eexists. split; [reflexivity|]. eexists. reflexivity.
    - now right. - now right. - now right. - now right. - now right.
  Qed.

  (** ---------- C12: abandonment ---------- *)
  Definition ainv (st : stream) : Prop := abandoned st = true -> reset st = true /\ stopped st = true.

  Lemma sstep_ainv st l st' : ainv st -> sstep st l = Some st' -> ainv st'.
  Proof.
    unfold ainv. intros I H. destruct st as [w c s d rw inv rs sp]. proj.
    destruct l; proj; break H; inversion H; subst; proj; try assumption; try (intros; discriminate); auto.
  Qed.

  (** Once closed at the server, a stream's server side never changes again: no handler is
      running and none ever starts. *)
  Lemma closed_absorbing st l st' :
    closed (ss st) = true -> sstep st l = Some st' -> ss st' = ss st /\ invocations st' = invocations st.
  Proof.
    intros C H. destruct st as [w c s d rw inv rs sp]. proj.
    destruct l; proj; break H; inversion H; subst; proj; try discriminate; auto.
  Qed.

  (** An abandoned stream that is not yet closed always has an enabled server step, and that
      step closes it (drops a running handler): progress under weak fairness in one step. *)
  Lemma abandoned_progress st :
    ainv st -> abandoned st = true -> closed (ss st) = false ->
    exists l st', In l [NoticeStop; NoticeReset] /\ sstep st l = Some st' /\ closed (ss st') = true
                  /\ invocations st' = invocations st.
  Proof.
    intros I A C. destruct (I A) as [R S]. destruct st as [w c s d rw inv rs sp]. proj. subst.
    destruct s; try discriminate.
    - exists NoticeReset. eexists. split; [cbn; tauto|]. proj. split; [reflexivity|]. split; reflexivity.
    - exists NoticeStop. eexists. split; [cbn; tauto|]. proj. split; [reflexivity|]. split; reflexivity.
    - exists NoticeStop. eexists. split; [cbn; tauto|]. proj. split; [reflexivity|]. split; reflexivity.
    - exists NoticeStop. eexists. split; [cbn; tauto|]. proj. split; [reflexivity|]. split; reflexivity.
  Qed.

  (** A request given up while it waits for the service's readiness is never handed to the handler. *)
  Lemma queued_dropped_never_invoked st q st' :
    ss st = SQueued q -> sstep st NoticeStop = Some st' ->
    ss st' = SDropped /\ invocations st' = invocations st /\ sstep st' Dispatch = None /\ sstep st' HandlerReturn = None.
  Proof.
    intros S H. destruct st as [w c s d rw inv rs sp]. proj. subst. break H. inversion H; subst. proj. auto.
  Qed.

  Lemma queued_never_invoked_yet st q : once_inv st -> ss st = SQueued q -> invocations st = O.
  Proof. unfold once_inv. intros I S. now rewrite S in I. Qed.

  Lemma handler_dropped st q st' :
    ss st = SRunning q -> sstep st NoticeStop = Some st' ->
    ss st' = SDropped /\ sstep st' HandlerReturn = None /\ sstep st' TryDecode = None.
  Proof.
    intros S H. destruct st as [w c s d rw inv rs sp]. proj. subst. break H. inversion H; subst. proj. auto.
  Qed.

  (** No credit leak: in a connection where no server step is enabled any more, every abandoned
      stream is closed, so only calls still in progress hold stream credit. *)
  Definition server_quiescent (c : conn) : Prop :=
    forall st l, In st c -> In l server_labels -> sstep st l = None.

  Theorem no_credit_leak sched ws c' :
    crun (map open_stream ws) sched = Some c' -> server_quiescent c' ->
    forall st, In st c' -> abandoned st = true -> closed (ss st) = true.
  Proof.
    intros H Q st I A.
    assert (F : Forall ainv c').
    { eapply crun_invariant; [exact sstep_ainv| |exact H].
      apply Forall_forall. intros x Ix. apply in_map_iff in Ix as [w [<- _]]. intros E. discriminate. }
    rewrite Forall_forall in F. specialize (F st I).
    destruct (closed (ss st)) eqn:C; [reflexivity|].
    destruct (abandoned_progress st F A C) as [l [st' [Il [Hs _]]]].
    rewrite (Q st l I) in Hs; [discriminate|].
    unfold server_labels. cbn in Il. cbn. tauto.
  Qed.

  Lemma open_count_le c : (open_count c <= length c)%nat.
  Proof.
    unfold open_count. induction c as [|x r IH]; cbn [filter length]; [lia|].
    destruct (negb (closed (ss x))); cbn [length]; lia.
  Qed.

  (** Abandoning one call changes nothing on any other stream. *)
  Lemma siblings_unaffected c i c' j :
    cstep c i Abandon = Some c' -> j <> i -> nth_error c' j = nth_error c j.
  Proof. apply no_crosstalk. Qed.
End Proofs.
