From AnemoVerif Require Import Base Timeout.
From AnemoVerif.Proofs Require Import Base_proofs.
From Coq Require Import Arith ZArith ZifyN ZifyNat ZifyBool.
Ltac Zify.zify_post_hook ::= Z.div_mod_to_equations.

Lemma effective_none_l hdr : effective None hdr = hdr.
Proof. destruct hdr; reflexivity. Qed.

Lemma effective_none_r dflt : effective dflt None = dflt.
Proof. destruct dflt; reflexivity. Qed.

Lemma effective_both d r : effective (Some d) (Some r) = Some (N.min d r).
Proof. cbn [effective]. f_equal. lia. Qed.

Lemma remote_cannot_extend d hdr : exists e, effective (Some d) hdr = Some e /\ e <= d.
Proof. destruct hdr as [r|]; cbn [effective]; eexists; split; try reflexivity; lia. Qed.

Lemma remote_can_shorten d r : r <= d -> effective (Some d) (Some r) = Some r.
Proof. intros H. cbn [effective]. f_equal. lia. Qed.

Lemma effective_le_header dflt r : exists e, effective dflt (Some r) = Some e /\ e <= r.
Proof. destruct dflt as [d|]; cbn [effective]; eexists; split; try reflexivity; lia. Qed.

Lemma garbage_is_absent dflt hdrs v :
  lookup timeout_key hdrs = Some v -> parse_u64 v = None ->
  effective dflt (header_timeout hdrs) = dflt.
Proof. intros L P. unfold header_timeout. rewrite L, P. apply effective_none_r. Qed.

Lemma absent_header dflt hdrs :
  lookup timeout_key hdrs = None -> effective dflt (header_timeout hdrs) = dflt.
Proof. intros L. unfold header_timeout. rewrite L. apply effective_none_r. Qed.

(** decimal printing / parsing *)
Lemma digits_val_app acc a b :
  digits_val acc (a ++ b) =
  match digits_val acc a with Some v => digits_val v b | None => None end.
Proof.
  revert acc. induction a as [|x a IH]; intros acc; cbn [app digits_val]; [reflexivity|].
  destruct (is_digit x); [apply IH|reflexivity].
Qed.

Lemma digit_char d : d < 10 -> is_digit (48 + d) = true /\ 48 + d - 48 = d.
Proof. intros H. unfold is_digit. split; lia. Qed.


(** value of a digit string read with accumulator [a0]: a0 * 10^len + value *)
Fixpoint all_digits (l : bytes) : bool :=
  match l with [] => true | b :: r => is_digit b && all_digits r end.

Fixpoint dval (l : bytes) : N :=   (* big-endian decimal value *)
  match l with [] => 0 | b :: r => (b - 48) * 10 ^ len r + dval r end.

Lemma digits_val_all acc l :
  all_digits l = true -> digits_val acc l = Some (acc * 10 ^ len l + dval l).
Proof.
  revert acc. induction l as [|b l IH]; intros acc H.
  - cbn. f_equal. lia.
  - cbn [all_digits] in H. apply andb_true_iff in H as [Hb Hl].
    cbn [digits_val dval]. rewrite Hb. rewrite IH by assumption.
    rewrite len_cons. rewrite N.add_1_l, N.pow_succ_r'. f_equal. lia.
Qed.

Lemma digits_val_none acc l : all_digits l = false -> digits_val acc l = None.
Proof.
  revert acc. induction l as [|b l IH]; intros acc H; [discriminate|].
  cbn [all_digits] in H. cbn [digits_val]. destruct (is_digit b); [|reflexivity].
  cbn [andb] in H. now apply IH.
Qed.

Lemma to_digits_ok fuel : forall n acc,
  n < 10 ^ N.of_nat fuel -> (0 < fuel)%nat -> all_digits acc = true ->
  all_digits (to_digits fuel n acc) = true /\
  dval (to_digits fuel n acc) = n * 10 ^ len acc + dval acc /\
  to_digits fuel n acc <> [].
Proof.
  induction fuel as [|f IH]; intros n acc Hn Hf Ha; [lia|].
  cbn [to_digits].
  assert (Hd : n mod 10 < 10) by (apply N.mod_upper_bound; lia).
  destruct (digit_char _ Hd) as [D1 D2].
  assert (Ha' : all_digits ((48 + n mod 10) :: acc) = true) by (cbn [all_digits]; now rewrite D1, Ha).
  assert (Hv' : dval ((48 + n mod 10) :: acc) = (n mod 10) * 10 ^ len acc + dval acc)
    by (cbn [dval]; now rewrite D2).
  destruct (N.eqb_spec (n / 10) 0) as [E|E].
  - split; [exact Ha'|]. split; [|discriminate].
    rewrite Hv'. assert (n = n mod 10) by (pose proof (N.div_mod n 10); lia). congruence.
  - destruct f as [|f'].
    + change (10 ^ N.of_nat 1) with 10 in Hn. assert (n / 10 = 0) by (apply N.div_small; lia). contradiction.
    + assert (Hn' : n / 10 < 10 ^ N.of_nat (S f')).
      { apply N.div_lt_upper_bound; [lia|].
        rewrite (Nat2N.inj_succ (S f')), N.pow_succ_r' in Hn. exact Hn. }
      destruct (IH (n / 10) _ Hn' ltac:(lia) Ha') as [I1 [I2 I3]].
      split; [exact I1|]. split; [|exact I3].
      rewrite I2, Hv', len_cons, N.add_1_l, N.pow_succ_r'.
      pose proof (N.div_mod n 10). nia.
Qed.

Lemma decimal_first_not_plus n : n < 10 ^ 20 -> forall r, decimal n <> 43 :: r.
Proof.
  intros Hn r E.
  destruct (to_digits_ok 20 n [] Hn ltac:(lia) eq_refl) as [A _].
  unfold decimal in E. rewrite E in A. cbn in A. discriminate.
Qed.

Lemma parse_decimal n : n <= u64_max -> parse_u64 (decimal n) = Some n.
Proof.
  intros Hn. assert (Hn' : n < 10 ^ 20) by (unfold u64_max in Hn; lia).
  destruct (to_digits_ok 20 n [] Hn' ltac:(lia) eq_refl) as [A [B C]].
  unfold parse_u64.
  pose proof (decimal_first_not_plus n Hn') as NP. unfold decimal in *.
  destruct (to_digits 20 n []) as [|b r] eqn:E; [contradiction|].
  assert (Hb : b <> 43) by (intros ->; exact (NP r eq_refl)).
  cbn [strip_plus]. destruct (N.eqb_spec b 43); [contradiction|].
  rewrite digits_val_all by exact A. rewrite B.
  change (len (@nil N)) with 0. cbn [dval].
  replace (0 * 10 ^ len (b :: r) + (n * 10 ^ 0 + 0)) with n by lia.
  destruct (N.leb_spec n u64_max); [reflexivity|lia].
Qed.

Lemma set_then_get d : parse_u64 (duration_to_timeout d) = Some (N.min d u64_max).
Proof. unfold duration_to_timeout. apply parse_decimal. lia. Qed.

Lemma parse_sound s n :
  parse_u64 s = Some n ->
  n <= u64_max /\
  exists body, (s = body \/ s = 43 :: body) /\ body <> [] /\ all_digits body = true /\ dval body = n.
Proof.
  unfold parse_u64.
  set (body := strip_plus s).
  assert (Hs : s = body \/ s = 43 :: body).
  { subst body. destruct s as [|b r]; [now left|]. cbn [strip_plus].
    destruct (N.eqb_spec b 43) as [->|Hne]; [now right|now left]. }
  destruct body as [|b r] eqn:Eb; [discriminate|].
  destruct (all_digits (b :: r)) eqn:A.
  - rewrite digits_val_all by exact A. rewrite N.mul_0_l, N.add_0_l.
    destruct (N.leb_spec (dval (b :: r)) u64_max) as [L|L]; [|discriminate].
    intros E. injection E as <-. split; [exact L|].
    exists (b :: r). repeat split; try assumption; try discriminate.
  - rewrite digits_val_none by exact A. discriminate.
Qed.

(** the layer *)
Lemma cut_off_exactly e h :
  (h < e -> layer_outcome (Some e) h = Normal h) /\
  (e < h -> layer_outcome (Some e) h = CutOff e).
Proof.
  unfold layer_outcome. split; intros H.
  - destruct (N.ltb_spec h e); [reflexivity|lia].
  - destruct (N.ltb_spec h e); [lia|]. destruct (N.ltb_spec e h); [reflexivity|lia].
Qed.

Lemma no_deadline h : layer_outcome None h = Normal h.
Proof. reflexivity. Qed.

Lemma layer_never_exceeds_deadline e h :
  match layer_outcome (Some e) h with
  | Normal t => t = h /\ h < e
  | CutOff t => t = e /\ e < h
  | Unspecified => h = e
  end.
Proof.
  unfold layer_outcome. destruct (N.ltb_spec h e); [lia|]. destruct (N.ltb_spec e h); lia.
Qed.

(** end to end *)
Lemma rpc_response_when_fast out_dflt in_dflt hdr h d1 d2 :
  (forall e, effective in_dflt hdr = Some e -> h < e) ->
  (forall e, effective out_dflt hdr = Some e -> d1 + h + d2 < e) ->
  rpc_outcome out_dflt in_dflt hdr h d1 d2 = Response (d1 + h + d2).
Proof.
  intros Hin Hout. unfold rpc_outcome.
  destruct (effective in_dflt hdr) as [ei|] eqn:Ei.
  - specialize (Hin ei eq_refl). cbn [layer_outcome].
    destruct (N.ltb_spec h ei); [|lia].
    destruct (effective out_dflt hdr) as [eo|] eqn:Eo; [|reflexivity].
    specialize (Hout eo eq_refl). cbn [layer_outcome]. destruct (N.ltb_spec (d1 + h + d2) eo); [reflexivity|lia].
  - cbn [layer_outcome].
    destruct (effective out_dflt hdr) as [eo|] eqn:Eo; [|reflexivity].
    specialize (Hout eo eq_refl). cbn [layer_outcome]. destruct (N.ltb_spec (d1 + h + d2) eo); [reflexivity|lia].
Qed.

Lemma rpc_server_cuts_off out_dflt in_dflt hdr h d1 d2 ei :
  effective in_dflt hdr = Some ei -> ei < h ->
  (forall e, effective out_dflt hdr = Some e -> d1 + ei + d2 < e) ->
  rpc_outcome out_dflt in_dflt hdr h d1 d2 = RequestTimeoutStatus (d1 + ei + d2).
Proof.
  intros Ei Hh Hout. unfold rpc_outcome. rewrite Ei. cbn [layer_outcome].
  destruct (N.ltb_spec h ei); [lia|]. destruct (N.ltb_spec ei h); [|lia].
  destruct (effective out_dflt hdr) as [eo|] eqn:Eo; [|reflexivity].
  specialize (Hout eo eq_refl). cbn [layer_outcome]. destruct (N.ltb_spec (d1 + ei + d2) eo); [reflexivity|lia].
Qed.

Lemma rpc_caller_times_out out_dflt in_dflt hdr h d1 d2 eo :
  effective out_dflt hdr = Some eo ->
  (forall e, effective in_dflt hdr = Some e -> e <> h) ->
  eo < d1 + h + d2 ->
  (forall e, effective in_dflt hdr = Some e -> eo < d1 + e + d2) ->
  rpc_outcome out_dflt in_dflt hdr h d1 d2 = CallerTimeoutError eo.
Proof.
  intros Eo Hne Hh Hin. unfold rpc_outcome. rewrite Eo.
  destruct (effective in_dflt hdr) as [ei|] eqn:Ei.
  - specialize (Hin ei eq_refl). specialize (Hne ei eq_refl). cbn [layer_outcome].
    destruct (N.ltb_spec h ei).
    + destruct (N.ltb_spec (d1 + h + d2) eo); [lia|]. destruct (N.ltb_spec eo (d1 + h + d2)); [reflexivity|lia].
    + destruct (N.ltb_spec ei h); [|lia].
      destruct (N.ltb_spec (d1 + ei + d2) eo); [lia|]. destruct (N.ltb_spec eo (d1 + ei + d2)); [reflexivity|lia].
  - cbn [layer_outcome].
    destruct (N.ltb_spec (d1 + h + d2) eo); [lia|]. destruct (N.ltb_spec eo (d1 + h + d2)); [reflexivity|lia].
Qed.

(** With a local default, nothing a remote peer puts in the header makes the call last longer
    than the default. *)
Lemma rpc_duration_bounded_by_local_default out_dflt in_dflt hdr h d1 d2 d :
  out_dflt = Some d ->
  match rpc_outcome out_dflt in_dflt hdr h d1 d2 with
  | Response t | RequestTimeoutStatus t | CallerTimeoutError t => t <= d
  | RaceUnspecified => True
  end.
Proof.
  intros ->. unfold rpc_outcome.
  destruct (remote_cannot_extend d hdr) as [e [Ee Hle]]. rewrite Ee.
  destruct (layer_outcome (effective in_dflt hdr) h) as [t|t|]; [| |exact I];
    pose proof (layer_never_exceeds_deadline e (d1 + t + d2)) as L;
    destruct (layer_outcome (Some e) (d1 + t + d2)); try exact I; lia.
Qed.

(** waiting for a stream *)
Lemma rpc_outcome_w_zero out_dflt in_dflt hdr h d1 d2 :
  (forall e, effective out_dflt hdr = Some e -> 0 < e) ->
  rpc_outcome_w out_dflt in_dflt hdr 0 h d1 d2 = rpc_outcome out_dflt in_dflt hdr h d1 d2.
Proof.
  intros Hpos. unfold rpc_outcome_w, rpc_outcome.
  assert (L0 : exists t, layer_outcome (effective out_dflt hdr) 0 = Normal t).
  { destruct (effective out_dflt hdr) as [e|] eqn:E; [|eexists; reflexivity].
    specialize (Hpos e eq_refl). pose proof (layer_never_exceeds_deadline e 0) as L.
    destruct (layer_outcome (Some e) 0); [eexists; reflexivity|lia|lia]. }
  destruct L0 as [t0 ->]. rewrite !N.add_0_l. reflexivity.
Qed.

Lemma rpc_w_never_exceeds_deadline out_dflt in_dflt hdr w h d1 d2 e :
  effective out_dflt hdr = Some e ->
  match rpc_outcome_w out_dflt in_dflt hdr w h d1 d2 with
  | Response t | RequestTimeoutStatus t => t < e
  | CallerTimeoutError t => t = e
  | RaceUnspecified => True
  end.
Proof.
  intros Ee. unfold rpc_outcome_w. rewrite Ee.
  pose proof (layer_never_exceeds_deadline e w) as L0.
  destruct (layer_outcome (Some e) w) as [t0|t0|]; [|lia|exact I].
  destruct (layer_outcome (effective in_dflt hdr) h) as [t|t|]; [| |exact I];
    pose proof (layer_never_exceeds_deadline e (w + d1 + t + d2)) as L;
    destruct (layer_outcome (Some e) (w + d1 + t + d2)); try exact I; lia.
Qed.

Lemma rpc_w_times_out_while_waiting out_dflt in_dflt hdr w h d1 d2 e :
  effective out_dflt hdr = Some e -> e < w ->
  rpc_outcome_w out_dflt in_dflt hdr w h d1 d2 = CallerTimeoutError e.
Proof.
  intros Ee Hw. unfold rpc_outcome_w. rewrite Ee.
  pose proof (layer_never_exceeds_deadline e w) as L0.
  destruct (layer_outcome (Some e) w) as [t0|t0|]; [lia| |lia]. destruct L0 as [-> _]. reflexivity.
Qed.
