(** C05: two nodes A and B dial each other at about the same time.  Connection X is dialed by
    A, connection Y by B.  Each node runs the handshake task of each connection, then [add]s it
    to its active-peer set; a connection closed by one end is noticed by the other (its pending
    handshake fails or its request handler exits and calls [remove_with_stable_id]).  All
    interleavings of these steps are considered.  Only the comparison [a <? b] of the two
    identities matters, so the system is finite. *)
From AnemoVerif Require Import Base ActivePeers.

Inductive node := NA | NB.
Inductive cid := CX | CY.

Definition other (n : node) : node := match n with NA => NB | NB => NA end.
Definition dialer (c : cid) : node := match c with CX => NA | CY => NB end.

Definition node_eqb (a b : node) : bool := match a, b with NA, NA | NB, NB => true | _, _ => false end.
Definition cid_eqb (a b : cid) : bool := match a, b with CX, CX | CY, CY => true | _, _ => false end.

(** How connection [c] looks from node [n]. *)
Definition origin_at (n : node) (c : cid) : origin :=
  if node_eqb n (dialer c) then Outbound else Inbound.

Inductive hs := Pending | Done | Failed.

(** Per (node, connection): handshake status, "request handler running", "closed by this node".
    Per node: the connection currently registered for the peer, if any; number of events sent. *)
Record nstate := mkN {
  hsX : hs; hsY : hs;
  hX : bool; hY : bool;
  clX : bool; clY : bool;
  entry : option cid;
  nevents : N
}.

Record sys := mkSys { sa : nstate; sb : nstate }.

Definition init_n : nstate := mkN Pending Pending false false false false None 0.
Definition init : sys := mkSys init_n init_n.

Definition get (s : sys) (n : node) : nstate := match n with NA => sa s | NB => sb s end.
Definition put (s : sys) (n : node) (x : nstate) : sys :=
  match n with NA => mkSys x (sb s) | NB => mkSys (sa s) x end.

Definition hs_of (x : nstate) (c : cid) : hs := match c with CX => hsX x | CY => hsY x end.
Definition h_of (x : nstate) (c : cid) : bool := match c with CX => hX x | CY => hY x end.
Definition cl_of (x : nstate) (c : cid) : bool := match c with CX => clX x | CY => clY x end.

Definition set_hs (x : nstate) (c : cid) (v : hs) : nstate :=
  match c with
  | CX => mkN v (hsY x) (hX x) (hY x) (clX x) (clY x) (entry x) (nevents x)
  | CY => mkN (hsX x) v (hX x) (hY x) (clX x) (clY x) (entry x) (nevents x)
  end.
Definition set_h (x : nstate) (c : cid) (v : bool) : nstate :=
  match c with
  | CX => mkN (hsX x) (hsY x) v (hY x) (clX x) (clY x) (entry x) (nevents x)
  | CY => mkN (hsX x) (hsY x) (hX x) v (clX x) (clY x) (entry x) (nevents x)
  end.
Definition set_cl (x : nstate) (c : cid) : nstate :=
  match c with
  | CX => mkN (hsX x) (hsY x) (hX x) (hY x) true (clY x) (entry x) (nevents x)
  | CY => mkN (hsX x) (hsY x) (hX x) (hY x) (clX x) true (entry x) (nevents x)
  end.
Definition set_entry (x : nstate) (e : option cid) (added_events : N) : nstate :=
  mkN (hsX x) (hsY x) (hX x) (hY x) (clX x) (clY x) e (nevents x + added_events).

(** [lt] = (id of A <? id of B).  The tie-break as node [n] evaluates it (own = n's id). *)
Definition tb (lt : bool) (n : node) (existing new : origin) : bool :=
  match existing, new with
  | Inbound, Inbound | Outbound, Outbound => true
  | Inbound, Outbound => (* remote <? own *) match n with NA => negb lt | NB => lt end
  | Outbound, Inbound => (* own <? remote *) match n with NA => lt | NB => negb lt end
  end.

Inductive step_label := Ready (n : node) (c : cid) | Fail (n : node) (c : cid) | Notice (n : node) (c : cid).

(** The dialer's handshake completes first (it only reads the acknowledgement); the listener's
    completes once the dialer has read it. *)
Definition ready_enabled (s : sys) (n : node) (c : cid) : bool :=
  match hs_of (get s n) c with
  | Pending =>
      negb (cl_of (get s n) c)
      && (if node_eqb n (dialer c) then true
          else match hs_of (get s (dialer c)) c with Done => true | _ => false end)
  | _ => false
  end.

(** A pending handshake fails once the other end closed the connection or gave up on it. *)
Definition fail_enabled (s : sys) (n : node) (c : cid) : bool :=
  match hs_of (get s n) c with
  | Pending =>
      cl_of (get s (other n)) c
      || match hs_of (get s (other n)) c with Failed => true | _ => false end
  | _ => false
  end.

(** A running request handler exits once either end closed its connection. *)
Definition notice_enabled (s : sys) (n : node) (c : cid) : bool :=
  h_of (get s n) c && (cl_of (get s n) c || cl_of (get s (other n)) c).

Definition enabled (s : sys) (l : step_label) : bool :=
  match l with
  | Ready n c => ready_enabled s n c
  | Fail n c => fail_enabled s n c
  | Notice n c => notice_enabled s n c
  end.

Definition do_step (lt : bool) (s : sys) (l : step_label) : sys :=
  match l with
  | Ready n c =>
      let x := set_hs (get s n) c Done in
      match entry x with
      | None => put s n (set_h (set_entry x (Some c) 1) c true)                  (* NewPeer *)
      | Some e =>
          if cid_eqb e c then put s n x
          else if tb lt n (origin_at n e) (origin_at n c)
          then put s n (set_h (set_entry (set_cl x e) (Some c) 2) c true)        (* Lost, New *)
          else put s n (set_cl x c)
      end
  | Fail n c => put s n (set_cl (set_hs (get s n) c Failed) c)
  | Notice n c =>
      let x := set_h (get s n) c false in
      match entry x with
      | Some e => if cid_eqb e c then put s n (set_entry x None 1) else put s n x  (* LostPeer *)
      | None => put s n x
      end
  end.

Definition all_labels : list step_label :=
  [Ready NA CX; Ready NA CY; Ready NB CX; Ready NB CY;
   Fail NA CX; Fail NA CY; Fail NB CX; Fail NB CY;
   Notice NA CX; Notice NA CY; Notice NB CX; Notice NB CY].

Definition successors (lt : bool) (s : sys) : list sys :=
  map (do_step lt s) (filter (enabled s) all_labels).

Definition terminal (s : sys) : bool := negb (existsb (enabled s) all_labels).

(** The connection dialed by the peer with the greater identity. *)
Definition survivor (lt : bool) : cid := if lt then CY else CX.
Definition loser (lt : bool) : cid := if lt then CX else CY.

(** boolean equality of states, for the reachability computation *)
Definition hs_eqb (a b : hs) : bool :=
  match a, b with Pending, Pending | Done, Done | Failed, Failed => true | _, _ => false end.
Definition ocid_eqb (a b : option cid) : bool :=
  match a, b with None, None => true | Some x, Some y => cid_eqb x y | _, _ => false end.
Definition n_eqb (a b : nstate) : bool :=
  hs_eqb (hsX a) (hsX b) && hs_eqb (hsY a) (hsY b) && Bool.eqb (hX a) (hX b) && Bool.eqb (hY a) (hY b)
  && Bool.eqb (clX a) (clX b) && Bool.eqb (clY a) (clY b) && ocid_eqb (entry a) (entry b)
  && (nevents a =? nevents b).
Definition sys_eqb (a b : sys) : bool := n_eqb (sa a) (sa b) && n_eqb (sb a) (sb b).

Definition mem_sys (s : sys) (l : list sys) : bool := existsb (sys_eqb s) l.

(** Worklist exploration of the reachable states. *)
Fixpoint explore (lt : bool) (fuel : nat) (todo seen : list sys) : list sys :=
  match fuel with
  | O => seen
  | S f =>
      match todo with
      | [] => seen
      | s :: rest =>
          if mem_sys s seen then explore lt f rest seen
          else explore lt f (successors lt s ++ rest) (s :: seen)
      end
  end.

Definition reach (lt : bool) : list sys := explore lt 5000 [init] [].

(** The measure that makes every schedule finite. *)
Definition pend (h : hs) : N := match h with Pending => 2 | _ => 0 end.
Definition b2n (b : bool) : N := if b then 1 else 0.
Definition nmeasure (x : nstate) : N := pend (hsX x) + pend (hsY x) + b2n (hX x) + b2n (hY x).
Definition measure (s : sys) : N := nmeasure (sa s) + nmeasure (sb s).

(** What the property demands of a quiet state. *)
Definition converged (lt : bool) (s : sys) : bool :=
  ocid_eqb (entry (sa s)) (Some (survivor lt)) && ocid_eqb (entry (sb s)) (Some (survivor lt))
  && h_of (sa s) (survivor lt) && h_of (sb s) (survivor lt)
  && negb (cl_of (sa s) (survivor lt)) && negb (cl_of (sb s) (survivor lt))
  && negb (h_of (sa s) (loser lt)) && negb (h_of (sb s) (loser lt)).

Definition survivor_open (lt : bool) (s : sys) : bool :=
  negb (cl_of (sa s) (survivor lt)) && negb (cl_of (sb s) (survivor lt)).
