(** Trace acceptance for Shutdown.v: the events the instrumented connection manager, connection
    handlers and API calls record (H4 trace points, category "mgr") are replayed on the model.
    Each event resolves to one label of [Shutdown.step] (proved in ShutdownTrace_proofs.v), so
    every state an accepted trace reaches is a reachable model state and the C08/C06 theorems
    apply to it; the observable parts of that state are compared with the implementation. *)
From Coq Require Import Arith.
From AnemoVerif Require Import Base Shutdown.

Inductive tev :=
| TSubmit (k : ckind) (sent : bool)       (* an API call put its request into the mailbox (or found it closed) *)
| TIssue (k : ckind)                      (* an API call found the mailbox full and waits for room *)
| TAdmit (k : ckind)                      (* the oldest waiting call got its request into the mailbox *)
| TProcess (k : ckind)                    (* the loop took a request out of the mailbox *)
| TIncoming
| TAcceptNone
| TConnResult (reply ok registered : bool) (peer : N)   (* handle_connecting_result *)
| TDisconnect (peer : N)                  (* Network::disconnect found the peer registered *)
| TStreamArrive (h : N)                  (* not recorded by the implementation: placed by the translator *)
| TReqStart (h : N) | TReqEnd (h : N)
| THExit (h : N) | THAbort (h : N)
| TJoin (cancelled : bool)                (* connection_handlers.join_next() returned *)
| THandlesDropped
| TAbortPending | TAllJoined | TCleanup (n : nat) | TFinish.

Definition ckind_eqb (a b : ckind) : bool :=
  match a, b with CConnect, CConnect | CShutdown, CShutdown => true | _, _ => false end.

Fixpoint first_in_phase (p : hphase) (l : list handler) : option N :=
  match l with
  | [] => None
  | h :: r =>
      match h_ph h, p with
      | HEnded, HEnded | HCancelled, HCancelled => Some (h_id h)
      | _, _ => first_in_phase p r
      end
  end.

(** The label an event stands for in state [s]; [None] = the model cannot take this event here. *)
Definition resolve (s : state) (e : tev) : option label :=
  match e with
  | TSubmit k sent => if Bool.eqb sent (negb (receiver_gone s)) then Some (Submit k) else None
  | TIssue k => if receiver_gone s then None else Some (Issue k)
  | TAdmit k =>
      match first_waiting (calls s) with
      | Some (k', _, _) => if ckind_eqb k k' then Some Admit else None
      | None => None
      end
  | TProcess k =>
      match first_queued (calls s) with
      | Some (k', _, _) => if ckind_eqb k k' then Some Process else None
      | None => None
      end
  | TIncoming => Some Incoming
  | TAcceptNone => Some AcceptNone
  | TConnResult reply ok registered peer =>
      Some (if reply then DialDone (ok && registered) peer else InboundDone (ok && registered) peer)
  | TDisconnect peer => Some (Disconnect peer)
  | TStreamArrive h => Some (StreamArrive h)
  | TReqStart h => Some (ReqStart h)
  | TReqEnd h => Some (ReqEnd h)
  | THExit h => Some (HExit h)
  | THAbort h => Some (HAbort h)
  | TJoin cancelled =>
      match first_in_phase (if cancelled then HCancelled else HEnded) (hands s) with
      | Some i => Some (Join i)
      | None => None
      end
  | THandlesDropped => Some LastHandleDropped
  | TAbortPending => Some AbortPending
  | TAllJoined => Some AllJoined
  | TCleanup n => if (n =? length (entries s))%nat then Some Assert else None
  | TFinish => Some Finish
  end.

Definition tstep (s : state) (e : tev) : option state :=
  match resolve s e with
  | Some l => step s l
  | None => None
  end.

(** Replays a trace; on rejection reports the index of the offending event and the state there. *)
Fixpoint trun (s : state) (n : nat) (es : list tev) : state * option nat :=
  match es with
  | [] => (s, None)
  | e :: t => match tstep s e with
              | Some s' => trun s' (S n) t
              | None => (s, Some n)
              end
  end.

Fixpoint labels_of (s : state) (es : list tev) : list label :=
  match es with
  | [] => []
  | e :: t => match resolve s e with
              | Some l => match step s l with
                          | Some s' => l :: labels_of s' t
                          | None => []
                          end
              | None => []
              end
  end.

Definition count_answers (ok : bool) (s : state) : nat :=
  length (filter (fun c => match c with Answered b => Bool.eqb b ok | _ => false end) (calls s)).
Definition unanswered (s : state) : nat := length (filter (fun c => negb (answered c)) (calls s)).
