(** Rust's [str::from_utf8] validity predicate (well-formed UTF-8, Unicode table 3-7). *)
From AnemoVerif Require Import Base.

Definition in_range (lo hi b : N) : bool := (lo <=? b) && (b <=? hi).
Definition cont (b : N) : bool := in_range 128 191 b.

Fixpoint utf8_valid (l : bytes) : bool :=
  match l with
  | [] => true
  | b0 :: r0 =>
      if b0 <? 128 then utf8_valid r0
      else if in_range 194 223 b0 then
        match r0 with
        | b1 :: r1 => cont b1 && utf8_valid r1
        | _ => false
        end
      else if in_range 224 239 b0 then
        match r0 with
        | b1 :: (b2 :: r2) =>
            (if b0 =? 224 then in_range 160 191 b1
             else if b0 =? 237 then in_range 128 159 b1
             else cont b1)
            && cont b2 && utf8_valid r2
        | _ => false
        end
      else if in_range 240 244 b0 then
        match r0 with
        | b1 :: (b2 :: (b3 :: r3)) =>
            (if b0 =? 240 then in_range 144 191 b1
             else if b0 =? 244 then in_range 128 143 b1
             else cont b1)
            && cont b2 && cont b3 && utf8_valid r3
        | _ => false
        end
      else false
  end.
