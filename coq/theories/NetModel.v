(** C10 / C09 / C03 / C14: a network of nodes at the level of completed, non-overlapping
    operations ("run to quiescence" big steps): who ends up connected to whom.
    Identities and addresses are numbers; a node's address is its own number. *)
From AnemoVerif Require Import Base Dialer.

(** Admission of an inbound connection ([handle_incoming_task]): [known] = affinity of the
    dialer in the listener's known-peer table, [count] = listener's established connections
    (of either origin) when the connection arrives. *)
Definition admission (known : option affinity) (limit : option N) (count : N) : bool :=
  match known with
  | Some High | Some Allowed => true
  | Some Never => false
  | None => match limit with None => true | Some l => count <? l end
  end.

Record nnode := mkNode {
  n_primary : N;                      (* network name used for dialing and accepted *)
  n_alt : option N;                   (* alternate name, accepted only *)
  n_limit : option N;
  n_known : list (N * affinity);
  n_active : list N;                  (* connected peers *)
  n_events : list (bool * N * N)      (* (new?, peer, reason) oldest first *)
}.

Definition net := list (N * nnode).

Fixpoint getn (a : N) (s : net) : option nnode :=
  match s with
  | [] => None
  | (x, n) :: r => if x =? a then Some n else getn a r
  end.

Fixpoint setn (a : N) (n : nnode) (s : net) : net :=
  match s with
  | [] => [(a, n)]
  | (x, m) :: r => if x =? a then (a, n) :: r else (x, m) :: setn a n r
  end.

Fixpoint lookup_aff (p : N) (l : list (N * affinity)) : option affinity :=
  match l with
  | [] => None
  | (q, a) :: r => if q =? p then Some a else lookup_aff p r
  end.

Definition mem (p : N) (l : list N) : bool := existsb (N.eqb p) l.
Definition remove (p : N) (l : list N) : list N := filter (fun q => negb (q =? p)) l.

Definition accepts_name (b : nnode) (name : N) : bool :=
  (n_primary b =? name) || match n_alt b with Some a => a =? name | None => false end.

Definition add_peer (n : nnode) (p : N) : nnode :=
  if mem p (n_active n) then n
  else mkNode (n_primary n) (n_alt n) (n_limit n) (n_known n) (n_active n ++ [p])
              (n_events n ++ [(true, p, 0)]).

Definition del_peer (n : nnode) (p reason : N) : nnode :=
  if mem p (n_active n)
  then mkNode (n_primary n) (n_alt n) (n_limit n) (n_known n) (remove p (n_active n))
              (n_events n ++ [(false, p, reason)])
  else n.

Definition cut (s : net) := list (N * N).

(** Operations, each run to quiescence before the next starts. *)
Inductive nop :=
| Dial (a : N) (addr : N) (pin : option N)   (* a dials the node at address addr *)
| Disconnect (a b : N)                        (* a.disconnect(b) *)
| Restart (a : N)                             (* a shuts down and starts again, same key *)
| SetKnown (a p : N) (aff : option affinity)
| Partition (a b : N)
| Heal (a b : N)
| FailedArrival (a b : N)                     (* a's connection reaches b and is admitted, but anemo's handshake never completes *)
| Call (a b : N)                              (* a starts a request that stays inside b's handler (work in flight on the connection) *)
| Quiesce.                                    (* longer than the idle timeout passes *)

Record world := mkWorld { w_net : net; w_cut : list (N * N) }.

Definition is_cut (w : world) (a b : N) : bool :=
  existsb (fun p => ((fst p =? a) && (snd p =? b)) || ((fst p =? b) && (snd p =? a))) (w_cut w).

Inductive dial_result := DialOk (peer : N) | DialErr.

(** Outcome of [a] dialing address [addr] (the node with that number, if any). *)
Definition dial_outcome (w : world) (a addr : N) (pin : option N) : dial_result :=
  match getn a (w_net w), getn addr (w_net w) with
  | Some na, Some nb =>
      if is_cut w a addr then DialErr
      else if a =? addr then DialErr
      else if negb (accepts_name nb (n_primary na)) then DialErr          (* C14 *)
      else if match pin with Some x => negb (x =? addr) | None => false end then DialErr   (* C03 *)
      else if admission (lookup_aff a (n_known nb)) (n_limit nb) (len (n_active nb)) then DialOk addr
      else DialErr                                                          (* C10 *)
  | _, _ => DialErr
  end.

Definition step (w : world) (o : nop) : world * option dial_result :=
  match o with
  | Dial a addr pin =>
      match dial_outcome w a addr pin with
      | DialOk b =>
          match getn a (w_net w), getn b (w_net w) with
          | Some na, Some nb =>
              (mkWorld (setn b (add_peer nb a) (setn a (add_peer na b) (w_net w))) (w_cut w),
               Some (DialOk b))
          | _, _ => (w, Some DialErr)
          end
      | DialErr => (w, Some DialErr)
      end
  | Disconnect a b =>
      match getn a (w_net w), getn b (w_net w) with
      | Some na, Some nb =>
          if mem b (n_active na) then
            (* a: LostPeer(b, Requested=0) at once; b notices the close (ApplicationClosed=4)
               unless the link is cut, in which case it notices at the next Quiesce *)
            let net1 := setn a (del_peer na b 0) (w_net w) in
            if is_cut w a b then (mkWorld net1 (w_cut w), None)
            else (mkWorld (setn b (del_peer nb a 4) net1) (w_cut w), None)
          else (w, None)
      | _, _ => (w, None)
      end
  | Restart a =>
      match getn a (w_net w) with
      | Some na =>
          let fresh := mkNode (n_primary na) (n_alt na) (n_limit na) [] [] [] in
          (* every reachable peer sees the close; unreachable ones keep a stale entry until Quiesce *)
          let net1 :=
            map (fun kv =>
                   if fst kv =? a then (a, fresh)
                   else if is_cut w a (fst kv) then kv
                   else (fst kv, del_peer (snd kv) a 4)) (w_net w) in
          (mkWorld net1 (w_cut w), None)
      | None => (w, None)
      end
  | SetKnown a p aff =>
      match getn a (w_net w) with
      | Some na =>
          let k := filter (fun kv => negb (fst kv =? p)) (n_known na) in
          let k' := match aff with Some x => (p, x) :: k | None => k end in
          (mkWorld (setn a (mkNode (n_primary na) (n_alt na) (n_limit na) k' (n_active na) (n_events na)) (w_net w))
                   (w_cut w), None)
      | None => (w, None)
      end
  | FailedArrival _ _ => (w, None)      (* nothing is registered, counted or announced *)
  | Call _ _ => (w, None)               (* work in flight is no part of the connection views: whatever ends the
                                           connection later is reported exactly as on an idle connection *)
  | Partition a b => (mkWorld (w_net w) ((a, b) :: w_cut w), None)
  | Heal a b =>
      (mkWorld (w_net w)
               (filter (fun p => negb (((fst p =? a) && (snd p =? b)) || ((fst p =? b) && (snd p =? a)))) (w_cut w)),
       None)
  | Quiesce =>
      (* every entry whose link is cut, or whose other end no longer lists us, times out (6) *)
      let net1 :=
        map (fun kv =>
               let a := fst kv in
               let stale := filter (fun b =>
                                      is_cut w a b
                                      || negb (match getn b (w_net w) with
                                               | Some nb => mem a (n_active nb)
                                               | None => false
                                               end)) (n_active (snd kv)) in
               (a, fold_left (fun n b => del_peer n b 6) stale (snd kv))) (w_net w) in
      (mkWorld net1 (w_cut w), None)
  end.

Definition run (w : world) (ops : list nop) : world := fold_left (fun w o => fst (step w o)) ops w.

Definition lists (w : world) (a b : N) : bool :=
  match getn a (w_net w) with Some na => mem b (n_active na) | None => false end.

(** An adversarial dialer presenting a certificate for [cert_name] while claiming [sni]. *)
Definition adversarial_hello_accepted (b : nnode) (sni cert_name : N) : bool :=
  accepts_name b sni && accepts_name b cert_name.
