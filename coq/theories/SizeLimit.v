(** C15: frame size limits at the level of sizes.  [Wire.enc_frame]/[Wire.dec_frame] are the
    byte-level functions; lemmas in SizeLimit_proofs.v show they depend on lengths only. *)
From AnemoVerif Require Import Base Wire.

Definition frame_ok (max n : N) : bool := n <=? max.

(** Outcome of encoding / decoding a message whose header frame has [hn] bytes and whose body
    has [bn] bytes under limit [max]. *)
Definition msg_size_ok (max hn bn : N) : bool := frame_ok max hn && frame_ok max bn.

Inductive size_outcome :=
  Delivered | CallerRefusesSend | CalleeRefusesRecv | CalleeRefusesSend | CallerRefusesRecv.

(** One RPC: caller limit [cmax], callee limit [smax] (both already effective limits),
    request header/body sizes [qh qb], response header/body sizes [rh rb]; the four codec steps
    happen in this order. *)
Definition rpc_size_outcome (cmax smax qh qb rh rb : N) : size_outcome :=
  if negb (msg_size_ok cmax qh qb) then CallerRefusesSend
  else if negb (msg_size_ok smax qh qb) then CalleeRefusesRecv
  else if negb (msg_size_ok smax rh rb) then CalleeRefusesSend
  else if negb (msg_size_ok cmax rh rb) then CallerRefusesRecv
  else Delivered.

Definition size_outcome_eqb (a b : size_outcome) : bool :=
  match a, b with
  | Delivered, Delivered | CallerRefusesSend, CallerRefusesSend
  | CalleeRefusesRecv, CalleeRefusesRecv | CalleeRefusesSend, CalleeRefusesSend
  | CallerRefusesRecv, CallerRefusesRecv => true
  | _, _ => false
  end.
