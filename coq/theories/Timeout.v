(** C11: the timeout header and the Timeout middleware (middleware/timeout). Times are
    nanoseconds in N. *)
From AnemoVerif Require Import Base.

Definition is_digit (b : N) : bool := (48 <=? b) && (b <=? 57).

Fixpoint digits_val (acc : N) (l : bytes) : option N :=
  match l with
  | [] => Some acc
  | b :: r => if is_digit b then digits_val (10 * acc + (b - 48)) r else None
  end.

(** [str::parse::<u64>]: optional '+', at least one ASCII digit, nothing else, value must fit. *)
Definition strip_plus (s : bytes) : bytes :=
  match s with
  | b :: r => if b =? 43 then r else s
  | [] => s
  end.

Definition parse_u64 (s : bytes) : option N :=
  match strip_plus s with
  | [] => None
  | body => match digits_val 0 body with
         | Some v => if v <=? u64_max then Some v else None
         | None => None
         end
  end.

Definition timeout_key : bytes := [116; 105; 109; 101; 111; 117; 116].  (* "timeout" *)

(** [try_parse_timeout(..).unwrap_or(None)]: absent or unparsable header = no header. *)
Definition header_timeout (hdrs : list (bytes * bytes)) : option N :=
  match lookup timeout_key hdrs with
  | Some v => parse_u64 v
  | None => None
  end.

Fixpoint to_digits (fuel : nat) (n : N) (acc : bytes) : bytes :=
  match fuel with
  | O => acc
  | S f =>
      let acc' := (48 + n mod 10) :: acc in
      if n / 10 =? 0 then acc' else to_digits f (n / 10) acc'
  end.

Definition decimal (n : N) : bytes := to_digits 20 n [].

(** [duration_to_timeout]: nanoseconds clamped to u64. *)
Definition duration_to_timeout (d : N) : bytes := decimal (N.min d u64_max).

(** The four-way match in [Timeout::call] (identical in inbound.rs and outbound.rs). *)
Definition effective (dflt hdr : option N) : option N :=
  match hdr, dflt with
  | None, None => None
  | Some r, None => Some r
  | None, Some d => Some d
  | Some r, Some d => Some (N.min r d)
  end.

(** A handler needing [h] under deadline [e]. Equality is deliberately unspecified (both timers
    fire in the same poll). *)
Inductive layer_out := Normal (t : N) | CutOff (t : N) | Unspecified.

Definition layer_outcome (deadline : option N) (h : N) : layer_out :=
  match deadline with
  | None => Normal h
  | Some e => if h <? e then Normal h else if e <? h then CutOff e else Unspecified
  end.

Inductive rpc_out :=
  Response (t : N) | RequestTimeoutStatus (t : N) | CallerTimeoutError (t : N) | RaceUnspecified.

(** End to end: caller's outbound default [out_dflt], callee's inbound default [in_dflt], the
    request's header value [hdr] (seen by both layers), handler duration [h], one-way delays. *)
Definition rpc_outcome (out_dflt in_dflt hdr : option N) (h d1 d2 : N) : rpc_out :=
  let e_in := effective in_dflt hdr in
  let e_out := effective out_dflt hdr in
  match layer_outcome e_in h with
  | Unspecified => RaceUnspecified
  | Normal t =>
      match layer_outcome e_out (d1 + t + d2) with
      | Normal t' => Response t'
      | CutOff t' => CallerTimeoutError t'
      | Unspecified => RaceUnspecified
      end
  | CutOff t =>
      match layer_outcome e_out (d1 + t + d2) with
      | Normal t' => RequestTimeoutStatus t'
      | CutOff t' => CallerTimeoutError t'
      | Unspecified => RaceUnspecified
      end
  end.

(** The same with a wait of [w] before the request can be sent (all streams of the connection in
    use): the caller's clock runs from the moment the call is made, so a deadline that passes
    while still waiting ends the call there and then - nothing is ever sent. *)
Definition rpc_outcome_w (out_dflt in_dflt hdr : option N) (w h d1 d2 : N) : rpc_out :=
  let e_in := effective in_dflt hdr in
  let e_out := effective out_dflt hdr in
  match layer_outcome e_out w with
  | CutOff t => CallerTimeoutError t
  | Unspecified => RaceUnspecified
  | Normal _ =>
      match layer_outcome e_in h with
      | Unspecified => RaceUnspecified
      | Normal t =>
          match layer_outcome e_out (w + d1 + t + d2) with
          | Normal t' => Response t'
          | CutOff t' => CallerTimeoutError t'
          | Unspecified => RaceUnspecified
          end
      | CutOff t =>
          match layer_outcome e_out (w + d1 + t + d2) with
          | Normal t' => RequestTimeoutStatus t'
          | CutOff t' => CallerTimeoutError t'
          | Unspecified => RaceUnspecified
          end
      end
  end.
