(** [StatusCode] (types/response.rs). *)
From AnemoVerif Require Import Base.

Inductive status :=
  Success | BadRequest | NotFound | RequestTimeout | TooManyRequests
| InternalServerError | VersionNotSupported | Unknown.

Definition status_to_u16 (s : status) : N :=
  match s with
  | Success => 200 | BadRequest => 400 | NotFound => 404 | RequestTimeout => 408
  | TooManyRequests => 429 | InternalServerError => 500 | VersionNotSupported => 505
  | Unknown => 520
  end.

Definition status_new (c : N) : option status :=
  if c =? 200 then Some Success
  else if c =? 400 then Some BadRequest
  else if c =? 404 then Some NotFound
  else if c =? 408 then Some RequestTimeout
  else if c =? 429 then Some TooManyRequests
  else if c =? 500 then Some InternalServerError
  else if c =? 505 then Some VersionNotSupported
  else if c =? 520 then Some Unknown
  else None.

Definition all_status : list status :=
  [Success; BadRequest; NotFound; RequestTimeout; TooManyRequests;
   InternalServerError; VersionNotSupported; Unknown].

Definition is_success (s : status) : bool :=
  (200 <=? status_to_u16 s) && (status_to_u16 s <=? 299).

Definition status_eqb (a b : status) : bool := status_to_u16 a =? status_to_u16 b.
