(** C05 with a connection limit: the transition system of MutualDial.v extended by inbound
    admission.  A node with [max_concurrent_connections = 1] refuses an inbound connection that
    arrives while it already holds a connection (here: its own dial to the same peer, the only
    other connection there is); the check is made when the connection arrives, before the
    listener's half of the handshake - hence before the acknowledgement the dialer waits for.
    [lim n] says whether node [n] has such a limit.  With no limit anywhere this is MutualDial's
    system with one extra ([Arrive]) step per connection. *)
From AnemoVerif Require Import Base ActivePeers MutualDial.

Inductive lhs := LPending | LAdmitted | LDone | LFailed.

Record lstate := mkL {
  lX : lhs; lY : lhs;        (* handshake status of X / Y at this node *)
  rX : bool; rY : bool;      (* request handler of X / Y running *)
  kX : bool; kY : bool;      (* X / Y closed by this node *)
  lentry : option cid
}.

Record lsys := mkLSys { la : lstate; lb : lstate }.

Definition linit_n : lstate := mkL LPending LPending false false false false None.
Definition linit : lsys := mkLSys linit_n linit_n.

Definition lget (s : lsys) (n : node) : lstate := match n with NA => la s | NB => lb s end.
Definition lput (s : lsys) (n : node) (x : lstate) : lsys :=
  match n with NA => mkLSys x (lb s) | NB => mkLSys (la s) x end.

Definition lhs_of (x : lstate) (c : cid) : lhs := match c with CX => lX x | CY => lY x end.
Definition lh_of (x : lstate) (c : cid) : bool := match c with CX => rX x | CY => rY x end.
Definition lcl_of (x : lstate) (c : cid) : bool := match c with CX => kX x | CY => kY x end.

Definition lset_hs (x : lstate) (c : cid) (v : lhs) : lstate :=
  match c with
  | CX => mkL v (lY x) (rX x) (rY x) (kX x) (kY x) (lentry x)
  | CY => mkL (lX x) v (rX x) (rY x) (kX x) (kY x) (lentry x)
  end.
Definition lset_h (x : lstate) (c : cid) (v : bool) : lstate :=
  match c with
  | CX => mkL (lX x) (lY x) v (rY x) (kX x) (kY x) (lentry x)
  | CY => mkL (lX x) (lY x) (rX x) v (kX x) (kY x) (lentry x)
  end.
Definition lset_cl (x : lstate) (c : cid) : lstate :=
  match c with
  | CX => mkL (lX x) (lY x) (rX x) (rY x) true (kY x) (lentry x)
  | CY => mkL (lX x) (lY x) (rX x) (rY x) (kX x) true (lentry x)
  end.
Definition lset_entry (x : lstate) (e : option cid) : lstate :=
  mkL (lX x) (lY x) (rX x) (rY x) (kX x) (kY x) e.

Inductive llabel :=
| LArrive (n : node) (c : cid)      (* connection c reaches its listener n: the admission check *)
| LReady (n : node) (c : cid) | LFail (n : node) (c : cid) | LNotice (n : node) (c : cid).

Definition is_listener (n : node) (c : cid) : bool := negb (node_eqb n (dialer c)).

Definition arrive_enabled (s : lsys) (n : node) (c : cid) : bool :=
  is_listener n c
  && match lhs_of (lget s n) c with LPending => true | _ => false end
  && negb (lcl_of (lget s n) c).

(** The dialer's handshake completes once the listener has admitted the connection and sent its
    acknowledgement; the listener's completes once the dialer has read it. *)
Definition lready_enabled (s : lsys) (n : node) (c : cid) : bool :=
  negb (lcl_of (lget s n) c)
  && if is_listener n c
     then match lhs_of (lget s n) c, lhs_of (lget s (dialer c)) c with LAdmitted, LDone => true | _, _ => false end
     else match lhs_of (lget s n) c, lhs_of (lget s (other n)) c with
          | LPending, (LAdmitted | LDone) => true
          | _, _ => false
          end.

Definition lfail_enabled (s : lsys) (n : node) (c : cid) : bool :=
  match lhs_of (lget s n) c with
  | LPending | LAdmitted =>
      lcl_of (lget s (other n)) c
      || match lhs_of (lget s (other n)) c with LFailed => true | _ => false end
  | _ => false
  end.

Definition lnotice_enabled (s : lsys) (n : node) (c : cid) : bool :=
  lh_of (lget s n) c && (lcl_of (lget s n) c || lcl_of (lget s (other n)) c).

Definition lenabled (s : lsys) (l : llabel) : bool :=
  match l with
  | LArrive n c => arrive_enabled s n c
  | LReady n c => lready_enabled s n c
  | LFail n c => lfail_enabled s n c
  | LNotice n c => lnotice_enabled s n c
  end.

(** [late] = the (wrong) variant in which the limit is checked once more when the listener's
    handshake has finished, counting the peer's own existing entry: seeded change C05-f. *)
Definition ldo_step (lim : node -> bool) (late : bool) (lt : bool) (s : lsys) (l : llabel) : lsys :=
  match l with
  | LArrive n c =>
      let x := lget s n in
      if lim n && match lentry x with Some _ => true | None => false end
      then lput s n (lset_cl (lset_hs x c LFailed) c)            (* refused: over the limit *)
      else lput s n (lset_hs x c LAdmitted)
  | LReady n c =>
      let x := lset_hs (lget s n) c LDone in
      match lentry x with
      | None => lput s n (lset_h (lset_entry x (Some c)) c true)
      | Some e =>
          if cid_eqb e c then lput s n x
          else if late && lim n && is_listener n c then lput s n (lset_cl x c)
          else if tb lt n (origin_at n e) (origin_at n c)
          then lput s n (lset_h (lset_entry (lset_cl x e) (Some c)) c true)
          else lput s n (lset_cl x c)
      end
  | LFail n c => lput s n (lset_cl (lset_hs (lget s n) c LFailed) c)
  | LNotice n c =>
      let x := lset_h (lget s n) c false in
      match lentry x with
      | Some e => if cid_eqb e c then lput s n (lset_entry x None) else lput s n x
      | None => lput s n x
      end
  end.

Definition lall_labels : list llabel :=
  [LArrive NA CX; LArrive NA CY; LArrive NB CX; LArrive NB CY;
   LReady NA CX; LReady NA CY; LReady NB CX; LReady NB CY;
   LFail NA CX; LFail NA CY; LFail NB CX; LFail NB CY;
   LNotice NA CX; LNotice NA CY; LNotice NB CX; LNotice NB CY].

Definition lsuccessors lim late lt (s : lsys) : list lsys :=
  map (ldo_step lim late lt s) (filter (lenabled s) lall_labels).

Definition lterminal (s : lsys) : bool := negb (existsb (lenabled s) lall_labels).

Definition lhs_eqb (a b : lhs) : bool :=
  match a, b with LPending, LPending | LAdmitted, LAdmitted | LDone, LDone | LFailed, LFailed => true | _, _ => false end.
Definition ln_eqb (a b : lstate) : bool :=
  lhs_eqb (lX a) (lX b) && lhs_eqb (lY a) (lY b) && Bool.eqb (rX a) (rX b) && Bool.eqb (rY a) (rY b)
  && Bool.eqb (kX a) (kX b) && Bool.eqb (kY a) (kY b) && ocid_eqb (lentry a) (lentry b).
Definition lsys_eqb (a b : lsys) : bool := ln_eqb (la a) (la b) && ln_eqb (lb a) (lb b).
Definition lmem (s : lsys) (l : list lsys) : bool := existsb (lsys_eqb s) l.

Fixpoint lexplore lim late lt (fuel : nat) (todo seen : list lsys) : list lsys :=
  match fuel with
  | O => seen
  | S f =>
      match todo with
      | [] => seen
      | s :: rest =>
          if lmem s seen then lexplore lim late lt f rest seen
          else lexplore lim late lt f (lsuccessors lim late lt s ++ rest) (s :: seen)
      end
  end.

Definition lreach lim late lt : list lsys := lexplore lim late lt 20000 [linit] [].

Definition lpend (h : lhs) : N := match h with LPending => 3 | LAdmitted => 2 | _ => 0 end.
Definition lnmeasure (x : lstate) : N := lpend (lX x) + lpend (lY x) + b2n (rX x) + b2n (rY x).
Definition lmeasure (s : lsys) : N := lnmeasure (la s) + lnmeasure (lb s).

(** Both ends hold connection [c], its handlers run, nobody closed it, and the other connection
    has no handler left. *)
Definition converged_on (c : cid) (s : lsys) : bool :=
  let o := match c with CX => CY | CY => CX end in
  ocid_eqb (lentry (la s)) (Some c) && ocid_eqb (lentry (lb s)) (Some c)
  && lh_of (la s) c && lh_of (lb s) c
  && negb (lcl_of (la s) c) && negb (lcl_of (lb s) c)
  && negb (lh_of (la s) o) && negb (lh_of (lb s) o).

Definition converged_somewhere (s : lsys) : bool := converged_on CX s || converged_on CY s.

Definition no_limit (n : node) : bool := false.
Definition limit_at (m : node) (n : node) : bool := node_eqb m n.

(** Which connection can be the one a pair ends up with (X = A's dial, Y = B's). *)
Definition possible_survivors (lim : node -> bool) (lt : bool) : list cid :=
  filter (fun c => existsb (fun s => lterminal s && converged_on c s) (lreach lim false lt)) [CX; CY].
