(** C18: the per-peer in-flight limiter (anemo-tower/src/inflight_limit.rs): one tokio semaphore
    with [max] permits per peer; Block = FIFO [acquire], ReturnError = [try_acquire]. *)
From AnemoVerif Require Import Base.

Inductive mode := Block | ReturnError.

Record pstate := mkP {
  free : N;               (* available permits *)
  holding : list N;       (* requests inside the wrapped service (each holds a permit) *)
  waiting : list N        (* Block mode: FIFO queue of requests waiting for a permit *)
}.

Definition init (max : N) : pstate := mkP max [] [].

Inductive event :=
| Arrive (p r : N)        (* request r of peer p reaches the layer *)
| Finish (p r : N)        (* the wrapped service returns for r (Ok or Err alike) *)
| Cancel (p r : N).       (* the caller drops r's future, wherever it is *)

Inductive result :=
| Entered (rs : list N)   (* these requests were handed to the wrapped service in this step *)
| Queued
| Rejected                (* 429 TooManyRequests *)
| NoOp.

Definition mem (r : N) (l : list N) : bool := existsb (N.eqb r) l.

Fixpoint remove1 (r : N) (l : list N) : list N :=
  match l with
  | [] => []
  | x :: t => if x =? r then t else x :: remove1 r t
  end.

Definition p_arrive (m : mode) (s : pstate) (r : N) : pstate * result :=
  if 0 <? free s then (mkP (free s - 1) (holding s ++ [r]) (waiting s), Entered [r])
  else match m with
       | Block => (mkP (free s) (holding s) (waiting s ++ [r]), Queued)
       | ReturnError => (s, Rejected)
       end.

(** A permit comes back: it goes to the head of the queue if any (tokio semaphores are FIFO). *)
Definition p_release (s : pstate) (r : N) : pstate * result :=
  let h := remove1 r (holding s) in
  match waiting s with
  | w :: ws => (mkP (free s) (h ++ [w]) ws, Entered [w])
  | [] => (mkP (free s + 1) h [], Entered [])
  end.

Definition p_finish (s : pstate) (r : N) : pstate * result :=
  if mem r (holding s) then p_release s r else (s, NoOp).

Definition p_cancel (s : pstate) (r : N) : pstate * result :=
  if mem r (waiting s) then (mkP (free s) (holding s) (remove1 r (waiting s)), NoOp)
  else p_finish s r.

Definition state := list (N * pstate).

Fixpoint get (max : N) (p : N) (st : state) : pstate :=
  match st with
  | [] => init max
  | (q, s) :: t => if q =? p then s else get max p t
  end.

Fixpoint set (p : N) (s : pstate) (st : state) : state :=
  match st with
  | [] => [(p, s)]
  | (q, s0) :: t => if q =? p then (p, s) :: t else (q, s0) :: set p s t
  end.

Definition step (m : mode) (max : N) (st : state) (e : event) : state * result :=
  match e with
  | Arrive p r => let (s, o) := p_arrive m (get max p st) r in (set p s st, o)
  | Finish p r => let (s, o) := p_finish (get max p st) r in (set p s st, o)
  | Cancel p r => let (s, o) := p_cancel (get max p st) r in (set p s st, o)
  end.

Definition run (m : mode) (max : N) (evs : list event) : state :=
  fold_left (fun st e => fst (step m max st e)) evs [].

Definition gauge (max p : N) (st : state) : N := len (holding (get max p st)).
