(** C04 / C05: the active-peer set (ActivePeersInner in network/connection_manager.rs).
    Every method runs under one RwLock, so any multi-threaded history is a list of operations.
    Peer ids are numbers ordered like the 32-byte arrays (big-endian); connection ids are the
    quinn stable ids. *)
From AnemoVerif Require Import Base.

Inductive origin := Inbound | Outbound.

Definition origin_eqb (a b : origin) : bool :=
  match a, b with Inbound, Inbound | Outbound, Outbound => true | _, _ => false end.

(** [simultaneous_dial_tie_breaking]: true = drop the existing connection, false = drop the new. *)
Definition tie_break (own remote : N) (existing new : origin) : bool :=
  match existing, new with
  | Inbound, Inbound => true
  | Outbound, Outbound => true
  | Inbound, Outbound => remote <? own
  | Outbound, Inbound => own <? remote
  end.

(** DisconnectReason as a number: 0 Requested, 1 VersionMismatch, 2 TransportError,
    3 ConnectionClosed, 4 ApplicationClosed, 5 Reset, 6 TimedOut, 7 LocallyClosed. *)
Inductive event := NewPeer (p : N) | LostPeer (p : N) (reason : N).

Record state := mkState {
  conns : list (N * (N * origin));   (* peer -> (connection id, origin) *)
  log : list event;                   (* every event ever sent, oldest first *)
  closed : list N                     (* ids of connections this side closed *)
}.

Definition empty : state := mkState [] [] [].

Fixpoint find (p : N) (l : list (N * (N * origin))) : option (N * origin) :=
  match l with
  | [] => None
  | (q, v) :: r => if q =? p then Some v else find p r
  end.

Definition remove_key (p : N) (l : list (N * (N * origin))) : list (N * (N * origin)) :=
  filter (fun kv => negb (fst kv =? p)) l.

Inductive op :=
| Add (own peer id : N) (o : origin)
| Remove (peer reason : N)
| RemoveStable (peer id reason : N)
| Subscribe
| Peers.

Definition peers (s : state) : list N := map fst (conns s).

(** Result of an operation as the caller observes it. *)
Inductive result :=
| Kept            (* add: the new connection was registered (Some) *)
| Dropped         (* add: the new connection lost the tie-break and was closed (None) *)
| Done
| Listing (l : list N).

Definition step (s : state) (o : op) : state * result :=
  match o with
  | Add own peer id orig =>
      match find peer (conns s) with
      | Some (eid, eorig) =>
          if tie_break own peer eorig orig then
            (mkState (remove_key peer (conns s) ++ [(peer, (id, orig))])
                     (log s ++ [LostPeer peer 0; NewPeer peer])
                     (eid :: closed s), Kept)
          else (mkState (conns s) (log s) (id :: closed s), Dropped)
      | None =>
          (mkState (conns s ++ [(peer, (id, orig))]) (log s ++ [NewPeer peer]) (closed s), Kept)
      end
  | Remove peer reason =>
      match find peer (conns s) with
      | Some (eid, _) =>
          (mkState (remove_key peer (conns s)) (log s ++ [LostPeer peer reason]) (eid :: closed s), Done)
      | None => (s, Done)
      end
  | RemoveStable peer id reason =>
      match find peer (conns s) with
      | Some (eid, _) =>
          if eid =? id then
            (mkState (remove_key peer (conns s)) (log s ++ [LostPeer peer reason]) (eid :: closed s), Done)
          else (s, Done)
      | None => (s, Done)
      end
  | Subscribe => (s, Listing (peers s))
  | Peers => (s, Listing (peers s))
  end.

Definition run (ops : list op) : state := fold_left (fun s o => fst (step s o)) ops empty.

(** The abstract specification: the listing is the event log applied to the empty set. *)
Definition apply_event (l : list N) (e : event) : list N :=
  match e with
  | NewPeer p => filter (fun q => negb (q =? p)) l ++ [p]
  | LostPeer p _ => filter (fun q => negb (q =? p)) l
  end.

Definition apply_events (l : list N) (es : list event) : list N := fold_left apply_event es l.

(** Alternation checker for one peer: [Some b] = well-formed (New Lost)* New?, [b] = ends in New. *)
Fixpoint alternates (p : N) (listed : bool) (es : list event) : option bool :=
  match es with
  | [] => Some listed
  | NewPeer q :: r =>
      if q =? p then (if listed then None else alternates p true r) else alternates p listed r
  | LostPeer q _ :: r =>
      if q =? p then (if listed then alternates p false r else None) else alternates p listed r
  end.

Definition ids_added (ops : list op) : list N :=
  flat_map (fun o => match o with Add _ _ id _ => [id] | _ => [] end) ops.
