(** C16: anemo::Router (routing/mod.rs) over matchit 0.5.0, restricted to the two pattern shapes
    anemo itself uses: exact paths and catch-all tails [s ++ "*name"] with [s] ending in '/'.
    Parameter segments (':name') are outside the model. *)
From AnemoVerif Require Import Base.

Inductive pattern := Exact (s : bytes) | Tail (s : bytes).

Fixpoint is_prefix (p l : bytes) : bool :=
  match p, l with
  | [], _ => true
  | x :: p', y :: l' => (x =? y) && is_prefix p' l'
  | _ :: _, [] => false
  end.

Definition matches (p : pattern) (path : bytes) : bool :=
  match p with
  | Exact a => bytes_eqb a path
  | Tail s => is_prefix s path
  end.

(** matchit's insertion conflicts for these shapes. *)
Definition conflict (p q : pattern) : bool :=
  match p, q with
  | Exact a, Exact b => bytes_eqb a b
  | Exact a, Tail s => is_prefix s a
  | Tail s, Exact a => is_prefix s a
  | Tail s, Tail u => is_prefix s u || is_prefix u s
  end.

Record entry := mkEntry {
  e_pat : pattern;
  e_svc : N;
  e_layers : list N     (* route-level middleware, outermost first *)
}.

Definition router := list entry.

Definition slash : N := 47.
Definition star : N := 42.
Definition colon : N := 58.

Definition pat_path (p : pattern) : bytes := match p with Exact s => s | Tail s => s end.

(** [Router::route]'s own check: non-empty and starting with '/'. *)
Definition starts_with_slash (s : bytes) : bool :=
  match s with b :: _ => b =? slash | [] => false end.

(** [route]: [None] = the real call panics (invalid path or conflicting route). *)
Definition route (r : router) (p : pattern) (svc : N) (ls : list N) : option router :=
  if starts_with_slash (pat_path p) && negb (existsb (fun e => conflict p (e_pat e)) r)
  then Some (r ++ [mkEntry p svc ls]) else None.

(** [add_rpc_service]: "/" ++ SERVICE_NAME ++ "/*rest". *)
Definition rpc_prefix (name : bytes) : bytes := slash :: name ++ [slash].
Definition add_rpc_service (r : router) (name : bytes) (svc : N) : option router :=
  route r (Tail (rpc_prefix name)) svc [].

(** [route_layer]: wraps every route present now; the new layer becomes the outermost. *)
Definition route_layer (l : N) (r : router) : router :=
  map (fun e => mkEntry (e_pat e) (e_svc e) (l :: e_layers e)) r.

(** [merge]: re-registers every route of [o], with the middleware it already carries. *)
Fixpoint merge (r o : router) : option router :=
  match o with
  | [] => Some r
  | e :: o' =>
      match route r (e_pat e) (e_svc e) (e_layers e) with
      | Some r' => merge r' o'
      | None => None
      end
  end.

Inductive dispatched := Found (svc : N) (layers : list N) | NotFound.

Fixpoint dispatch (r : router) (path : bytes) : dispatched :=
  match r with
  | [] => NotFound
  | e :: r' => if matches (e_pat e) path then Found (e_svc e) (e_layers e) else dispatch r' path
  end.

Fixpoint count_matches (r : router) (path : bytes) : nat :=
  match r with
  | [] => O
  | e :: r' => ((if matches (e_pat e) path then 1 else 0) + count_matches r' path)%nat
  end.

(** Pairwise conflict-free, every pattern starting with '/'. *)
Fixpoint compatible (r : router) : bool :=
  match r with
  | [] => true
  | e :: r' =>
      starts_with_slash (pat_path (e_pat e))
      && negb (existsb (fun e' => conflict (e_pat e) (e_pat e')) r')
      && compatible r'
  end.

(** A builder program: any sequence of the four operations (merge takes a sub-program). *)
Inductive op :=
| ORoute (p : pattern) (svc : N)
| ORpc (name : bytes) (svc : N)
| OLayer (l : N)
| OMerge (sub : list op).

Fixpoint build (fuel : nat) (ops : list op) (r : router) : option router :=
  match fuel with
  | O => None
  | S f =>
      match ops with
      | [] => Some r
      | ORoute p svc :: t =>
          match route r p svc [] with Some r' => build f t r' | None => None end
      | ORpc name svc :: t =>
          match add_rpc_service r name svc with Some r' => build f t r' | None => None end
      | OLayer l :: t => build f t (route_layer l r)
      | OMerge sub :: t =>
          match build f sub [] with
          | Some o => match merge r o with Some r' => build f t r' | None => None end
          | None => None
          end
      end
  end.

(** Pattern syntax accepted by the model ([None] = outside the model: parameters, unnamed or
    non-final catch-alls). *)
Definition has (c : N) (l : bytes) : bool := existsb (N.eqb c) l.

Fixpoint split_star (l : bytes) : option (bytes * bytes) :=
  match l with
  | [] => None
  | b :: r =>
      if b =? star then Some ([], r)
      else match split_star r with
           | Some (pre, name) => Some (b :: pre, name)
           | None => None
           end
  end.

Definition ends_with_slash (l : bytes) : bool :=
  match rev l with b :: _ => b =? slash | [] => false end.

Definition parse_pattern (s : bytes) : option pattern :=
  if has colon s then None
  else match split_star s with
       | None => Some (Exact s)
       | Some (pre, name) =>
           if ends_with_slash pre
              && negb (match name with [] => true | _ => false end)
              && negb (has star name) && negb (has slash name)
           then Some (Tail pre) else None
       end.
