(** Base definitions shared by all models: byte strings, results, fixed-width integers. *)
From Coq Require Export List NArith Bool Lia.
Export ListNotations.
Open Scope N_scope.

Inductive err := EShort | EPreamble | EVersion | ETooBig | EBincode | EStatus.

Inductive res (A : Type) := Ok (a : A) | Err (e : err).
Arguments Ok {A} a.
Arguments Err {A} e.

Definition is_ok {A} (r : res A) : bool := match r with Ok _ => true | Err _ => false end.

Definition bytes := list N.

Definition len {A} (l : list A) : N := N.of_nat (length l).

Definition byteb (b : N) : bool := b <? 256.
Definition wf_bytes (l : bytes) : bool := forallb byteb l.

(** [take n l] splits off the first [n] elements, or fails when there are fewer. *)
Definition take {A} (n : N) (l : list A) : option (list A * list A) :=
  if n <=? len l then Some (firstn (N.to_nat n) l, skipn (N.to_nat n) l) else None.

(** Little- and big-endian fixed width integers ([k] bytes). *)
Fixpoint le_bytes (k : nat) (n : N) : bytes :=
  match k with
  | O => []
  | S k' => (n mod 256) :: le_bytes k' (n / 256)
  end.

Fixpoint le_val (l : bytes) : N :=
  match l with
  | [] => 0
  | b :: r => b + 256 * le_val r
  end.

Definition be_bytes (k : nat) (n : N) : bytes := rev (le_bytes k n).
Definition be_val (l : bytes) : N := le_val (rev l).

Fixpoint bytes_eqb (a b : bytes) : bool :=
  match a, b with
  | [], [] => true
  | x :: a', y :: b' => (x =? y) && bytes_eqb a' b'
  | _, _ => false
  end.

(** Association lists with later-wins lookup (Rust: successive [HashMap::insert]). *)
Fixpoint lookup (k : bytes) (l : list (bytes * bytes)) : option bytes :=
  match l with
  | [] => None
  | (k', v) :: r =>
      match lookup k r with
      | Some v' => Some v'
      | None => if bytes_eqb k k' then Some v else None
      end
  end.

Definition u16_max : N := 65535.
Definition u32_max : N := 4294967295.
Definition u64_max : N := 18446744073709551615.
