(** C01: the decision structure of peer authentication (crypto.rs, config.rs, connection.rs),
    symbolically.  Keys are numbers; certificates and handshake proofs are records.  What an
    adversary can produce is constrained by two explicit unforgeability hypotheses (Section
    hypotheses in Tls_proofs.v), never by axioms. *)
From AnemoVerif Require Import Base.

Inductive alg := Ed25519 | OtherAlg.
Definition alg_ok (a : alg) : bool := match a with Ed25519 => true | OtherAlg => false end.

Record cert := mkCert {
  c_wellformed : bool;      (* DER / X.509 parses *)
  c_spki_alg : alg;         (* algorithm of the subject public key *)
  c_key : N;                (* subject public key *)
  c_sig_alg : alg;          (* algorithm of the certificate signature *)
  c_signed_by : N;          (* key whose private half produced the certificate signature *)
  c_names : list N;         (* subject alternative names *)
  c_valid_now : bool;       (* notBefore <= now <= notAfter *)
  c_usage_ok : bool         (* extended key usage admits the role *)
}.

(** A TLS 1.3 CertificateVerify: a signature over the handshake transcript. *)
Record hsproof := mkProof { p_scheme : alg; p_key : N; p_transcript : N }.

Definition memN (x : N) (l : list N) : bool := existsb (N.eqb x) l.

(** [CertVerifier::verify_{server,client}_cert]: the end-entity certificate is its own trust
    anchor (self-signed), Ed25519 only, valid now, right usage, valid for an accepted name. *)
Definition verify_cert (accepted_names : list N) (c : cert) : bool :=
  c_wellformed c && alg_ok (c_spki_alg c) && alg_ok (c_sig_alg c)
  && (c_signed_by c =? c_key c)
  && c_valid_now c && c_usage_ok c
  && existsb (fun n => memN n (c_names c)) accepted_names.

(** [ExpectedCertVerifier]: the pin is checked first, on the same end-entity certificate. *)
Definition verify_cert_pinned (pin : N) (accepted_names : list N) (c : cert) : bool :=
  c_wellformed c && alg_ok (c_spki_alg c) && (c_key c =? pin) && verify_cert accepted_names c.

(** [verify_tls13_signature] with SUPPORTED_ALGORITHMS = Ed25519 only, under the certificate's key. *)
Definition verify_hs (c : cert) (p : hsproof) (transcript : N) : bool :=
  alg_ok (p_scheme p) && (p_key p =? c_key c) && (p_transcript p =? transcript).

(** [peer_id_from_certificate]: the subject public key of the same end-entity certificate. *)
Definition peer_id (c : cert) : option N :=
  if c_wellformed c && alg_ok (c_spki_alg c) then Some (c_key c) else None.

(** One side accepting the other: certificate, optional pin, handshake proof; the identity
    attributed to the remote is read from the certificate that was verified. *)
Definition accept_remote (pin : option N) (accepted_names : list N) (c : cert) (p : hsproof)
           (transcript : N) : option N :=
  let cert_ok := match pin with
                 | Some x => verify_cert_pinned x accepted_names c
                 | None => verify_cert accepted_names c
                 end in
  if cert_ok && verify_hs c p transcript then peer_id c else None.

(** What a remote presents is a certificate chain.  rustls hands the verifier its first element as
    the end-entity certificate and the rest as "intermediates", which anemo's verifiers ignore
    (the self-signed end entity is its own trust anchor); [Connection::peer_id] reads the identity
    from that same first element and from nothing else. *)
Definition accept_chain (pin : option N) (accepted_names : list N) (ch : list cert) (p : hsproof)
           (transcript : N) : option N :=
  match ch with
  | [] => None
  | c :: _ => accept_remote pin accepted_names c p transcript
  end.

(** Client authentication is mandatory: a client presenting no certificate is never accepted. *)
Definition accept_client (accepted_names : list N) (c : option cert) (p : hsproof) (transcript : N)
  : option N :=
  match c with
  | Some c => accept_remote None accepted_names c p transcript
  | None => None
  end.

(** The certificate an honest node with key [k] and name [n] generates. *)
Definition honest_cert (k n : N) : cert := mkCert true Ed25519 k Ed25519 k [n] true true.
Definition honest_proof (k transcript : N) : hsproof := mkProof Ed25519 k transcript.
