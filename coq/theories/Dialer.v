(** C13: the background dialer ([handle_connectivity_check] and [DialBackoffState] in
    network/connection_manager.rs).  Times and durations are nanoseconds. *)
From AnemoVerif Require Import Base.

Inductive affinity := High | Allowed | Never.

Record peer_info := mkPeer { pi_id : N; pi_aff : affinity; pi_addrs : list N }.

Record config := mkCfg {
  own : N;
  backoff_step : N;
  max_backoff : N;
  max_outstanding : N
}.

Record bstate := mkB { b_deadline : N; b_attempts : N }.

Record dstate := mkD {
  pending : list N;                 (* peers with a background dial in flight *)
  backoff : list (N * bstate)
}.

Definition dur_max : N := 18446744073709551615 * 1000000000 + 999999999.  (* Duration::MAX in ns *)

(** [Duration::saturating_mul(u32)] with [attempts.try_into().unwrap_or(u32::MAX)]. *)
Definition backoff_duration (c : config) (attempts : N) : N :=
  N.min (max_backoff c) (N.min (backoff_step c * N.min attempts u32_max) dur_max).

(** [DialBackoffState::update] (and [new] = update of a zero state). *)
Definition b_update (c : config) (now : N) (old_attempts : N) : bstate :=
  let a := old_attempts + 1 in
  mkB (now + backoff_duration c a) a.

Fixpoint bget (p : N) (l : list (N * bstate)) : option bstate :=
  match l with
  | [] => None
  | (q, b) :: r => if q =? p then Some b else bget p r
  end.

Definition bremove (p : N) (l : list (N * bstate)) : list (N * bstate) :=
  filter (fun kv => negb (fst kv =? p)) l.

Definition bset (p : N) (b : bstate) (l : list (N * bstate)) : list (N * bstate) :=
  (p, b) :: bremove p l.

Definition memN (p : N) (l : list N) : bool := existsb (N.eqb p) l.

(** Drain of completed dials: [results p] = None (still in progress), Some true (connected),
    Some false (failed). *)
Fixpoint drain (c : config) (now : N) (results : N -> option bool) (pend : list N)
         (bk : list (N * bstate)) : list N * list (N * bstate) :=
  match pend with
  | [] => ([], bk)
  | p :: r =>
      match results p with
      | None => let (pend', bk') := drain c now results r bk in (p :: pend', bk')
      | Some true => drain c now results r (bremove p bk)
      | Some false =>
          let old := match bget p bk with Some b => b_attempts b | None => 0 end in
          drain c now results r (bset p (b_update c now old) bk)
      end
  end.

Definition eligible (c : config) (now : N) (active pend : list N) (bk : list (N * bstate))
           (pi : peer_info) : bool :=
  match pi_aff pi with High => true | _ => false end
  && negb (pi_id pi =? own c)
  && negb (match pi_addrs pi with [] => true | _ => false end)
  && negb (memN (pi_id pi) active)
  && negb (memN (pi_id pi) pend)
  && match bget (pi_id pi) bk with Some b => b_deadline b <? now | None => true end.

Definition attempts_of (bk : list (N * bstate)) (p : N) : N :=
  match bget p bk with Some b => b_attempts b | None => 0 end.

(** The address a dial uses: attempts mod number of addresses. *)
Definition pick_addr (bk : list (N * bstate)) (pi : peer_info) : N :=
  nth (N.to_nat (attempts_of bk (pi_id pi) mod len (pi_addrs pi))) (pi_addrs pi) 0.

(** One call of [handle_connectivity_check].  [known] is in the order the HashMap yields it;
    [outstanding] = pending_connections.len() (inbound and outbound handshakes in flight). *)
Definition check (c : config) (now : N) (results : N -> option bool) (known : list peer_info)
           (active : list N) (outstanding : N) (s : dstate)
  : dstate * list (N * N) * list N :=
  let (pend1, bk1) := drain c now results (pending s) (backoff s) in
  let elig := filter (eligible c now active pend1 bk1) known in
  let n := N.min (len elig) (max_outstanding c - outstanding) in
  let chosen := firstn (N.to_nat n) elig in
  let dials := map (fun pi => (pi_id pi, pick_addr bk1 pi)) chosen in
  (mkD (pend1 ++ map pi_id chosen) bk1, dials, map pi_id elig).

(** Ticks of the connectivity check: T0 + i * P. *)
Definition first_tick_at_or_after (t0 p t : N) : N :=
  if t <=? t0 then t0 else t0 + ((t - t0 + p - 1) / p) * p.
Definition first_tick_after (t0 p t : N) : N := first_tick_at_or_after t0 p (t + 1).
