(** C19: GCRA as governor 0.6.3 implements it (gcra.rs [test_and_update]), keyed by peer, and the
    RateLimit middleware of anemo-tower/src/rate_limit.rs. Times are nanoseconds since the
    limiter's start; [t] = replenish interval per cell, [burst] = max_burst, tau = burst * t. *)
From AnemoVerif Require Import Base.

Record quota := mkQuota { q_t : N; q_burst : N }.
Definition tau (q : quota) : N := N.max (q_t q) 1 * q_burst q.

(** One decision for a key whose theoretical arrival time is [tat]. *)
Definition gcra_step (q : quota) (tat now : N) : bool * N :=
  let earliest := tat - tau q in      (* N subtraction saturates, as [saturating_sub] *)
  if now <? earliest then (false, tat) else (true, N.max tat now + q_t q).

(** Wait hint of a refusal: earliest conforming time minus the clock value read afterwards. *)
Definition wait_hint (q : quota) (tat now_after : N) : N := (tat - tau q) - now_after.

Definition kstate := list (N * N).   (* key -> tat *)

Fixpoint kget (k : N) (st : kstate) : option N :=
  match st with
  | [] => None
  | (k', v) :: r => if k' =? k then Some v else kget k r
  end.

Fixpoint kset (k v : N) (st : kstate) : kstate :=
  match st with
  | [] => [(k, v)]
  | (k', v') :: r => if k' =? k then (k, v) :: r else (k', v') :: kset k v r
  end.

(** A key never seen starts with tat = now + t. *)
Definition tat_of (q : quota) (st : kstate) (k now : N) : N :=
  match kget k st with Some v => v | None => now + q_t q end.

Definition check_key (q : quota) (st : kstate) (k now : N) : bool * kstate :=
  let (ok, tat') := gcra_step q (tat_of q st k now) now in
  (ok, kset k tat' st).

(** Middleware in ReturnError mode: the wrapped service is called iff the check passes.  The
    clock is read a second time ([now_after] >= [now]) to compute the hint, which is clamped to
    at least one nanosecond. *)
Inductive rl_out := Forward | TooMany (wait : N).

Definition rate_call (q : quota) (st : kstate) (k now now_after : N) : rl_out * kstate :=
  let tat := tat_of q st k now in
  let (ok, tat') := gcra_step q tat now in
  (if ok then Forward else TooMany (N.max (wait_hint q tat now_after) 1), kset k tat' st).

(** A timed arrival sequence of one key, from state [tat]: number admitted at times in [a, b]. *)
Fixpoint admitted_in (q : quota) (tat : N) (ts : list N) (a b : N) : N :=
  match ts with
  | [] => 0
  | now :: r =>
      let (ok, tat') := gcra_step q tat now in
      (if ok && (a <=? now) && (now <=? b) then 1 else 0) + admitted_in q tat' r a b
  end.

Fixpoint final_tat (q : quota) (tat : N) (ts : list N) : N :=
  match ts with
  | [] => tat
  | now :: r => final_tat q (snd (gcra_step q tat now)) r
  end.

Fixpoint sorted (l : list N) : bool :=
  match l with
  | [] => true
  | x :: r => match r with [] => true | y :: _ => (x <=? y) && sorted r end
  end.

(** Block mode: the earliest instant at which a request arriving at [now] is admitted. *)
Definition block_admit_time (q : quota) (tat now : N) : N := N.max now (tat - tau q).
