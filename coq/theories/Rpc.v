(** C02 / C06 / C12: one RPC per bidirectional stream (network/peer.rs [do_rpc],
    network/request_handler.rs [BiStreamRequestHandler], connection.rs [SendStream] drop).
    The QUIC stream layer is a model component: each direction is a reliable FIFO byte pipe with
    FIN, RESET and STOP_SENDING; the receiver sees a growing prefix of what was written. *)
From Coq Require Import Arith.
From AnemoVerif Require Import Base Utf8 Bincode Status Wire.

Inductive cside :=
| CWriting (written : nat)        (* bytes of the request handed to the stream so far *)
| CFinished                       (* everything written, FIN sent, waiting for the response *)
| CGot (r : res response)         (* the call returned *)
| CAbandoned (written : nat).     (* the caller dropped the call, having handed that many bytes to the stream *)

Inductive sside :=
| SWait                           (* reading the request *)
| SQueued (q : request)           (* request decoded, waiting for the service to become ready (poll_ready back-pressure) *)
| SRunning (q : request)          (* handler invoked and running *)
| SWriting (r : response)         (* handler returned, writing the response *)
| SDone                           (* response written and finished *)
| SFailed                         (* ended with an error (logged), nothing invoked afterwards *)
| SDropped.                       (* handler future dropped before completion *)

Record stream := mkStream {
  wire : bytes;                   (* what the caller side writes on this stream *)
  cs : cside;
  ss : sside;
  delivered : nat;                (* bytes of [wire] the server has received *)
  resp_wire : option bytes;       (* encoded response, once the handler returned *)
  invocations : nat;              (* how many times the handler was invoked for this stream *)
  reset : bool;                   (* caller reset its send half *)
  stopped : bool                  (* caller stopped its receive half *)
}.

Definition open_stream (w : bytes) : stream := mkStream w (CWriting 0) SWait 0 None 0 false false.

Inductive label :=
| Write (k : nat) | Fin | Recv (k : nat) | TryDecode | Dispatch | HandlerReturn | SFinish | CRead
| Abandon | NoticeStop | NoticeReset.

Section WithHandler.
  Variable max : N.                      (* effective frame limit, both ends *)
  Variable handler : request -> response.

  Definition written (st : stream) : nat :=
    match cs st with
    | CWriting n => n
    | CFinished | CGot _ => length (wire st)
    | CAbandoned n => n            (* bytes in flight at the reset may still arrive (seen in the implementation's traces) or not *)
    end.

  Definition set_cs (st : stream) (c : cside) : stream :=
    mkStream (wire st) c (ss st) (delivered st) (resp_wire st) (invocations st) (reset st) (stopped st).
  Definition set_ss (st : stream) (s : sside) : stream :=
    mkStream (wire st) (cs st) s (delivered st) (resp_wire st) (invocations st) (reset st) (stopped st).

  Definition abandoned (st : stream) : bool := match cs st with CAbandoned _ => true | _ => false end.

  Definition closed (s : sside) : bool :=
    match s with SDone | SFailed | SDropped => true | _ => false end.

  (** One step of one stream; [None] = the step is not enabled. *)
  Definition sstep (st : stream) (l : label) : option stream :=
    match l with
    | Write k =>
        match cs st with
        | CWriting n =>
            if (0 <? k)%nat && (n <? length (wire st))%nat
            then Some (set_cs st (CWriting (Nat.min (n + k) (length (wire st))))) else None
        | _ => None
        end
    | Fin =>
        match cs st with
        | CWriting n => if (n =? length (wire st))%nat then Some (set_cs st CFinished) else None
        | _ => None
        end
    | Recv k =>
        if (0 <? k)%nat && (delivered st <? written st)%nat
        then Some (mkStream (wire st) (cs st) (ss st) (Nat.min (delivered st + k) (written st))
                            (resp_wire st) (invocations st) (reset st) (stopped st))
        else None
    | TryDecode =>
        match ss st with
        | SWait =>
            match dec_request max (firstn (delivered st) (wire st)) with
            | Ok (q, _) => Some (set_ss st (SQueued q))
            | Err EShort => None            (* keep reading *)
            | Err _ => Some (set_ss st SFailed)
            end
        | _ => None
        end
    | Dispatch =>
        (* the service is ready for this request: the handler is invoked (an always-ready service: at once) *)
        match ss st with
        | SQueued q =>
            Some (mkStream (wire st) (cs st) (SRunning q) (delivered st) (resp_wire st)
                           (S (invocations st)) (reset st) (stopped st))
        | _ => None
        end
    | HandlerReturn =>
        match ss st with
        | SRunning q =>
            match enc_response max (handler q) with
            | Ok b => Some (mkStream (wire st) (cs st) (SWriting (handler q)) (delivered st) (Some b)
                                     (invocations st) (reset st) (stopped st))
            | Err _ => Some (set_ss st SFailed)
            end
        | _ => None
        end
    | SFinish =>
        match ss st with
        | SWriting _ => Some (set_ss st SDone)
        | _ => None
        end
    | CRead =>
        match cs st, ss st with
        | CFinished, SDone =>
            match resp_wire st with
            | Some b =>
                Some (set_cs st (CGot (match dec_response max b with
                                       | Ok (r, _) => Ok r
                                       | Err e => Err e
                                       end)))
            | None => None
            end
        | CFinished, (SFailed | SDropped) => Some (set_cs st (CGot (Err EShort)))
        | _, _ => None
        end
    | Abandon =>
        match cs st with
        | CWriting _ | CFinished =>
            Some (mkStream (wire st) (CAbandoned (written st)) (ss st) (delivered st) (resp_wire st)
                           (invocations st) true true)
        | _ => None
        end
    | NoticeStop =>
        if stopped st then
          match ss st with
          | SQueued _ => Some (set_ss st SDropped)     (* given up while waiting for readiness: never handed to the handler *)
          | SRunning _ => Some (set_ss st SDropped)
          | SWriting _ => Some (set_ss st SFailed)
          | _ => None
          end
        else None
    | NoticeReset =>
        if reset st then
          match ss st with
          | SWait => Some (set_ss st SFailed)
          | _ => None
          end
        else None
    end.

  (** A connection: streams indexed by position; a step names the stream it acts on. *)
  Definition conn := list stream.

  Fixpoint update (i : nat) (f : stream -> option stream) (c : conn) : option conn :=
    match c, i with
    | [], _ => None
    | st :: r, O => match f st with Some st' => Some (st' :: r) | None => None end
    | st :: r, S j => match update j f r with Some r' => Some (st :: r') | None => None end
    end.

  Definition cstep (c : conn) (i : nat) (l : label) : option conn := update i (fun st => sstep st l) c.

  Fixpoint crun (c : conn) (sched : list (nat * label)) : option conn :=
    match sched with
    | [] => Some c
    | (i, l) :: t => match cstep c i l with Some c' => crun c' t | None => None end
    end.

  (** Streams not yet closed at the accepting side hold one unit of stream credit each. *)
  Definition open_count (c : conn) : nat := length (filter (fun st => negb (closed (ss st))) c).

  Definition server_labels : list label := [TryDecode; Dispatch; HandlerReturn; SFinish; NoticeStop; NoticeReset].
End WithHandler.
