(** bincode 1.3.3 as [bincode::serialize_into] / [bincode::deserialize] configure it:
    fixed-width little-endian integers, u64 length prefixes, UTF-8 checked strings, maps as a
    u64 count followed by the pairs; trailing bytes allowed. *)
From AnemoVerif Require Import Base Utf8.

Definition enc_u64 (n : N) : bytes := le_bytes 8 n.
Definition enc_u16 (n : N) : bytes := le_bytes 2 n.

Definition dec_u64 (s : bytes) : option (N * bytes) :=
  match take 8 s with
  | Some (h, r) => Some (le_val h, r)
  | None => None
  end.

Definition dec_u16 (s : bytes) : option (N * bytes) :=
  match take 2 s with
  | Some (h, r) => Some (le_val h, r)
  | None => None
  end.

Definition enc_str (s : bytes) : bytes := enc_u64 (len s) ++ s.

Definition dec_str (s : bytes) : option (bytes * bytes) :=
  match dec_u64 s with
  | None => None
  | Some (n, r) =>
      match take n r with
      | None => None
      | Some (b, r') => if utf8_valid b then Some (b, r') else None
      end
  end.

Fixpoint enc_pairs (l : list (bytes * bytes)) : bytes :=
  match l with
  | [] => []
  | (k, v) :: r => enc_str k ++ enc_str v ++ enc_pairs r
  end.

Definition enc_map (l : list (bytes * bytes)) : bytes := enc_u64 (len l) ++ enc_pairs l.

(** [fuel] only makes the recursion structural: every entry consumes at least 16 bytes, so
    [fuel = length s] never runs out before the input does (lemma [dec_pairs_fuel]). *)
Fixpoint dec_pairs (fuel : nat) (count : N) (s : bytes)
  : option (list (bytes * bytes) * bytes) :=
  if count =? 0 then Some ([], s)
  else
    match fuel with
    | O => None
    | S f =>
        match dec_str s with
        | None => None
        | Some (k, r1) =>
            match dec_str r1 with
            | None => None
            | Some (v, r2) =>
                match dec_pairs f (count - 1) r2 with
                | None => None
                | Some (ps, r3) => Some ((k, v) :: ps, r3)
                end
            end
        end
    end.

Definition dec_map (s : bytes) : option (list (bytes * bytes) * bytes) :=
  match dec_u64 s with
  | None => None
  | Some (n, r) => dec_pairs (length r) n r
  end.
