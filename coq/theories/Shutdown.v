(** C08 (and the task tree of C06): the connection manager's event loop and its [shutdown()]
    (network/connection_manager.rs), the connection handlers (request_handler.rs) and the API
    calls that talk to the manager through its mailbox (network/mod.rs), as a transition system.
    Environment steps model what is in flight; [Cancel]/[AcceptNone] model runtime teardown. *)
From Coq Require Import Arith.
From AnemoVerif Require Import Base.

Inductive mphase :=
| MLoop            (* the select! loop of start() *)
| MClosing         (* shutdown(): endpoint closed, pending connections being aborted *)
| MWaitHandlers    (* awaiting connection_handlers.join_next() until empty *)
| MAssert          (* all handlers joined: remove whatever cancelled handlers left in the active-peer set *)
| MWaitIdle        (* endpoint.wait_idle(bounded) and the two rebinds *)
| MDone            (* start() returned; manager state dropped *)
| MPanicked.

Inductive hphase :=
| HRunning         (* accept loop running, entry (if any) registered *)
| HDraining        (* loop left, entry removed, inflight_requests.shutdown() pending *)
| HEnded           (* task finished, not yet joined *)
| HCancelled.      (* task cancelled by runtime teardown before it removed its entry *)

(** [h_backlog]: request streams that have reached this end of the connection and wait to be
    accepted by the handler's loop; they can still be accepted after the endpoint was closed
    (seen in the implementation's traces), new ones cannot arrive then. *)
Record handler := mkH { h_id : N; h_peer : N; h_reqs : nat; h_backlog : nat; h_ph : hphase }.

Inductive ckind := CConnect | CShutdown.
Inductive call :=
| Queued (k : ckind)       (* in the mailbox, not yet processed *)
| InDial                   (* connect request accepted, dial task holds the reply channel *)
| Accepted                 (* the shutdown request that broke the loop; answered at the end *)
| Answered (ok : bool)
| Waiting (k : ckind).     (* issued while the bounded mailbox was full: the caller waits for room *)

Record state := mkS {
  ph : mphase;
  inbound : nat;                    (* inbound handshake tasks in pending_connections *)
  hands : list handler;             (* connection_handlers *)
  entries : list (N * N);           (* active peers: peer -> handler id of its connection *)
  calls : list call;                (* API calls, oldest first *)
  lost_events : nat;                (* LostPeer events sent so far *)
  endpoint_closed : bool;
  next_id : N
}.

Definition init : state := mkS MLoop 0 [] [] [] 0 false 0.

Inductive label :=
| Submit (k : ckind)      (* an API call is issued (connect / shutdown) and finds room in the mailbox *)
| Issue (k : ckind)       (* an API call is issued and finds the mailbox full (the capacity is left open) *)
| Admit                   (* the oldest waiting caller gets room: its request enters the mailbox *)
| Process                 (* the loop takes the oldest queued request *)
| Incoming                (* a new inbound connection starts its handshake *)
| InboundDone (ok : bool) (peer : N)
| DialDone (ok : bool) (peer : N)   (* the oldest InDial call completes *)
| Disconnect (peer : N)
| StreamArrive (h : N)   (* a request stream of the peer reaches this end *)
| ReqStart (h : N) | ReqEnd (h : N)
| HExit (h : N)           (* handler's accept loop ends: remove own entry, start draining *)
| HAbort (h : N)          (* draining: in-flight request tasks aborted and awaited *)
| Join (h : N)            (* the manager joins a finished handler *)
| LastHandleDropped       (* mailbox closed *)
| AbortPending            (* shutdown(): pending_connections.shutdown().await *)
| AllJoined | Assert | Finish
| Cancel (h : N)          (* runtime teardown cancels a handler task *)
| AcceptNone.             (* accept() yields None (endpoint driver gone): the loop yields to the scheduler *)

Fixpoint find_h (i : N) (l : list handler) : option handler :=
  match l with
  | [] => None
  | h :: r => if h_id h =? i then Some h else find_h i r
  end.

Definition upd_h (i : N) (f : handler -> handler) (l : list handler) : list handler :=
  map (fun h => if h_id h =? i then f h else h) l.

Definition del_h (i : N) (l : list handler) : list handler :=
  filter (fun h => negb (h_id h =? i)) l.

Definition set_ph (h : handler) (p : hphase) : handler := mkH (h_id h) (h_peer h) (h_reqs h) (h_backlog h) p.
Definition set_reqs (h : handler) (n : nat) : handler := mkH (h_id h) (h_peer h) n (h_backlog h) (h_ph h).
Definition set_backlog (h : handler) (n : nat) : handler := mkH (h_id h) (h_peer h) (h_reqs h) n (h_ph h).

Definition del_entry_peer (p : N) (l : list (N * N)) := filter (fun e => negb (fst e =? p)) l.
Definition del_entry_exact (p i : N) (l : list (N * N)) :=
  filter (fun e => negb ((fst e =? p) && (snd e =? i))) l.
Definition has_entry (p i : N) (l : list (N * N)) : bool :=
  existsb (fun e => (fst e =? p) && (snd e =? i)) l.

(** Registers a new connection for [peer] (replacing an older one, whose handler keeps running
    until it notices the close) and spawns its handler. *)
Definition add_peer (s : state) (peer : N) : state :=
  mkS (ph s) (inbound s)
      (hands s ++ [mkH (next_id s) peer 0 0 HRunning])
      (del_entry_peer peer (entries s) ++ [(peer, next_id s)])
      (calls s)
      (lost_events s + (if existsb (fun e => fst e =? peer) (entries s) then 1 else 0))
      (endpoint_closed s) (next_id s + 1).

Fixpoint first_queued (l : list call) : option (ckind * list call * list call) :=
  match l with
  | [] => None
  | Queued k :: r => Some (k, [], r)
  | c :: r => match first_queued r with
              | Some (k, pre, post) => Some (k, c :: pre, post)
              | None => None
              end
  end.

Fixpoint first_waiting (l : list call) : option (ckind * list call * list call) :=
  match l with
  | [] => None
  | Waiting k :: r => Some (k, [], r)
  | c :: r => match first_waiting r with
              | Some (k, pre, post) => Some (k, c :: pre, post)
              | None => None
              end
  end.

Fixpoint answer_first_indial (ok : bool) (l : list call) : option (list call) :=
  match l with
  | [] => None
  | InDial :: r => Some (Answered ok :: r)
  | c :: r => match answer_first_indial ok r with Some r' => Some (c :: r') | None => None end
  end.

Definition drop_indials (l : list call) : list call :=
  map (fun c => match c with InDial => Answered false | _ => c end) l.

Definition finish_calls (l : list call) : list call :=
  map (fun c => match c with
                | Queued _ | InDial | Waiting _ => Answered false   (* a caller still waiting for room sees the receiver go *)
                | Accepted => Answered true
                | Answered b => Answered b
                end) l.

Definition set_phase (s : state) (p : mphase) : state :=
  mkS p (inbound s) (hands s) (entries s) (calls s) (lost_events s) (endpoint_closed s) (next_id s).
Definition set_calls (s : state) (c : list call) : state :=
  mkS (ph s) (inbound s) (hands s) (entries s) c (lost_events s) (endpoint_closed s) (next_id s).
Definition set_hands (s : state) (h : list handler) : state :=
  mkS (ph s) (inbound s) h (entries s) (calls s) (lost_events s) (endpoint_closed s) (next_id s).

Definition in_loop (s : state) : bool := match ph s with MLoop => true | _ => false end.
Definition receiver_gone (s : state) : bool := match ph s with MDone | MPanicked => true | _ => false end.

(** [None] = not enabled. *)
Definition step (s : state) (l : label) : option state :=
  match l with
  | Submit k =>
      if receiver_gone s then Some (set_calls s (calls s ++ [Answered false]))
      else Some (set_calls s (calls s ++ [Queued k]))
  | Issue k =>
      if receiver_gone s then Some (set_calls s (calls s ++ [Answered false]))
      else Some (set_calls s (calls s ++ [Waiting k]))
  | Admit =>
      match first_waiting (calls s) with
      | Some (k, pre, post) => Some (set_calls s (pre ++ Queued k :: post))
      | None => None
      end
  | Process =>
      if in_loop s then
        match first_queued (calls s) with
        | Some (CConnect, pre, post) => Some (set_calls s (pre ++ InDial :: post))
        | Some (CShutdown, pre, post) =>
            Some (mkS MClosing (inbound s) (hands s) (entries s) (pre ++ Accepted :: post)
                      (lost_events s) true (next_id s))
        | None => None
        end
      else None
  | Incoming =>
      if in_loop s && negb (endpoint_closed s)
      then Some (mkS (ph s) (S (inbound s)) (hands s) (entries s) (calls s) (lost_events s) (endpoint_closed s) (next_id s))
      else None
  | InboundDone ok peer =>
      if in_loop s then
        match inbound s with
        | S n =>
            let s1 := mkS (ph s) n (hands s) (entries s) (calls s) (lost_events s) (endpoint_closed s) (next_id s) in
            Some (if ok then add_peer s1 peer else s1)
        | O => None
        end
      else None
  | DialDone ok peer =>
      if in_loop s then
        match answer_first_indial ok (calls s) with
        | Some c => let s1 := set_calls s c in Some (if ok then add_peer s1 peer else s1)
        | None => None
        end
      else None
  | Disconnect peer =>
      if existsb (fun e => fst e =? peer) (entries s)
      then Some (mkS (ph s) (inbound s) (hands s) (del_entry_peer peer (entries s)) (calls s)
                     (S (lost_events s)) (endpoint_closed s) (next_id s))
      else None
  | StreamArrive i =>
      match find_h i (hands s) with
      | Some h => match h_ph h with
                  | HRunning =>
                      (* nothing new reaches a connection of an endpoint that has been closed *)
                      if endpoint_closed s then None
                      else Some (set_hands s (upd_h i (fun h => set_backlog h (S (h_backlog h))) (hands s)))
                  | _ => None
                  end
      | None => None
      end
  | ReqStart i =>
      match find_h i (hands s) with
      | Some h => match h_ph h, h_backlog h with
                  | HRunning, S b =>
                      (* the accept loop takes a waiting stream and spawns its request task: also after the
                         endpoint was closed, for streams that had arrived before *)
                      Some (set_hands s (upd_h i (fun h => set_reqs (set_backlog h b) (S (h_reqs h))) (hands s)))
                  | _, _ => None
                  end
      | None => None
      end
  | ReqEnd i =>
      match find_h i (hands s) with
      | Some h => match h_ph h, h_reqs h with
                  | (HRunning | HDraining), S n => Some (set_hands s (upd_h i (fun h => set_reqs h n) (hands s)))
                  | _, _ => None
                  end
      | None => None
      end
  | HExit i =>
      match find_h i (hands s) with
      | Some h =>
          match h_ph h with
          | HRunning =>
              Some (mkS (ph s) (inbound s) (upd_h i (fun h => set_ph h HDraining) (hands s))
                        (del_entry_exact (h_peer h) i (entries s)) (calls s)
                        (lost_events s + (if has_entry (h_peer h) i (entries s) then 1 else 0))
                        (endpoint_closed s) (next_id s))
          | _ => None
          end
      | None => None
      end
  | HAbort i =>
      match find_h i (hands s) with
      | Some h => match h_ph h with
                  | HDraining => Some (set_hands s (upd_h i (fun h => set_ph (set_reqs h 0) HEnded) (hands s)))
                  | _ => None
                  end
      | None => None
      end
  | Join i =>
      match ph s, find_h i (hands s) with
      | (MLoop | MWaitHandlers), Some h =>
          match h_ph h with
          | HEnded => Some (set_hands s (del_h i (hands s)))
          | HCancelled =>
              (* join_next() yields a cancelled JoinError: the task is gone, its entry (if any) stays
                 until shutdown() removes it *)
              Some (set_hands s (del_h i (hands s)))
          | _ => None
          end
      | _, _ => None
      end
  | LastHandleDropped =>
      if in_loop s
      then Some (mkS MClosing (inbound s) (hands s) (entries s) (calls s) (lost_events s) true (next_id s))
      else None
  | AbortPending =>
      match ph s with
      | MClosing => Some (mkS MWaitHandlers 0 (hands s) (entries s) (drop_indials (calls s))
                              (lost_events s) true (next_id s))
      | _ => None
      end
  | AllJoined =>
      match ph s, hands s with
      | MWaitHandlers, [] => Some (set_phase s MAssert)
      | _, _ => None
      end
  | Assert =>
      (* every handler removed its own entry; what a cancelled handler left behind is removed on
         its behalf, with a LostPeer event each (formerly an assertion) *)
      match ph s with
      | MAssert => Some (mkS MWaitIdle (inbound s) (hands s) [] (calls s)
                             (lost_events s + length (entries s)) (endpoint_closed s) (next_id s))
      | _ => None
      end
  | Finish =>
      match ph s with
      | MWaitIdle => Some (mkS MDone 0 [] [] (finish_calls (calls s)) (lost_events s) true (next_id s))
      | _ => None
      end
  | Cancel i =>
      match find_h i (hands s) with
      | Some h => match h_ph h with
                  | HRunning | HDraining => Some (set_hands s (upd_h i (fun h => set_ph h HCancelled) (hands s)))
                  | _ => None
                  end
      | None => None
      end
  | AcceptNone =>
      (* with the endpoint driver gone the accept future resolves to None at once, every time *)
      if in_loop s then Some s else None
  end.

Definition teardown_label (l : label) : bool :=
  match l with Cancel _ | AcceptNone => true | _ => false end.

Fixpoint run (s : state) (ls : list label) : option state :=
  match ls with
  | [] => Some s
  | l :: t => match step s l with Some s' => run s' t | None => None end
  end.

Definition answered (c : call) : bool := match c with Answered _ => true | _ => false end.

(** Measure of the work left once the loop has been left. *)
Definition rank (p : mphase) : nat :=
  match p with MLoop => 6 | MClosing => 5 | MWaitHandlers => 4 | MAssert => 3 | MWaitIdle => 2 | MDone => 0 | MPanicked => 0 end.
Definition weight (h : handler) : nat :=
  match h_ph h with HRunning => 3 + h_reqs h + 2 * h_backlog h | HDraining => 2 + h_reqs h | HEnded => 1 | HCancelled => 1 end.
Fixpoint sum_weight (l : list handler) : nat :=
  match l with [] => 0 | h :: r => weight h + sum_weight r end.
Definition meas (s : state) : nat := rank (ph s) + inbound s + length (entries s) + sum_weight (hands s).

Definition progress_label (l : label) : bool :=
  match l with Submit _ | Issue _ | Admit => false | _ => true end.
Definition count_progress (ls : list label) : nat := length (filter progress_label ls).

(** Labels after which the manager task has yielded to the scheduler (so that a runtime that is
    shutting down can cancel it): all of them, since every loop iteration ends in an await that
    either consumed an event or, for [AcceptNone], is an explicit yield. *)
Definition consumes_event (l : label) : bool := match l with AcceptNone => false | _ => true end.
