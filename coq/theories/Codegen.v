(** C17: anemo-build's generated routes (client.rs, server.rs), the Status <-> Response mapping
    (rpc/mod.rs) and a typed unary call through abstract message codecs. *)
From AnemoVerif Require Import Base Status Router.

Definition dot : N := 46.

(** [package + ("." if package non-empty) + service] — the same expression appears in
    client.rs (method paths), server.rs (method routes) and server.rs (SERVICE_NAME). *)
Definition qualified (pkg svc : bytes) : bytes :=
  pkg ++ (match pkg with [] => [] | _ => [dot] end) ++ svc.

(** client.rs [generate_methods]: format!("/{}{}{}/{}", package, dot, service, method). *)
Definition client_path (pkg svc m : bytes) : bytes :=
  [slash] ++ pkg ++ (match pkg with [] => [] | _ => [dot] end) ++ svc ++ [slash] ++ m.

(** server.rs [generate_method_routes]: the same format string, a separate site. *)
Definition server_path (pkg svc m : bytes) : bytes :=
  [slash] ++ pkg ++ (match pkg with [] => [] | _ => [dot] end) ++ svc ++ [slash] ++ m.

(** server.rs [generate]: SERVICE_NAME. *)
Definition service_name (pkg svc : bytes) : bytes := qualified pkg svc.

(** The generated server's [match req.route()]: first arm whose literal equals the route. *)
Fixpoint server_select (pkg svc : bytes) (methods : list bytes) (route : bytes) : option nat :=
  match methods with
  | [] => None
  | m :: t =>
      if bytes_eqb (server_path pkg svc m) route then Some O
      else match server_select pkg svc t route with Some i => Some (S i) | None => None end
  end.

(** rpc::Status and its mapping to / from a Response. *)
Definition status_message_key : bytes :=
  [115;116;97;116;117;115;45;109;101;115;115;97;103;101].   (* "status-message" *)
Definition content_type_key : bytes :=
  [99;111;110;116;101;110;116;45;116;121;112;101].            (* "content-type" *)

Record rstatus := mkRStatus {
  st_code : status;
  st_message : option bytes;
  st_headers : list (bytes * bytes)
}.

Record wresp := mkWResp {     (* a Response<Bytes> *)
  w_status : status;
  w_headers : list (bytes * bytes);
  w_body : bytes
}.

(** [impl IntoResponse for Status]: empty body, headers extended, then the message header. *)
Definition status_into_response (s : rstatus) : wresp :=
  mkWResp (st_code s)
          (st_headers s ++ match st_message s with
                           | Some m => [(status_message_key, m)]
                           | None => []
                           end)
          [].

(** [Status::from_response]. *)
Definition status_from_response (r : wresp) : rstatus :=
  mkRStatus (w_status r) (lookup status_message_key (w_headers r)) (w_headers r).

Section Typed.
  (** Abstract message codecs: total encoders for requests, partial for responses (an encoder may
      fail), decoders partial. *)
  Variables (Req Resp : Type).
  Variable enc_q : Req -> bytes.
  Variable dec_q : bytes -> option Req.
  Variable enc_r : Resp -> option bytes.
  Variable dec_r : bytes -> option Resp.
  Variable format_name : bytes.

  (** What a handler returns: a typed response (status, headers, message) or an error status. *)
  Definition handler_result : Type := ((status * list (bytes * bytes) * Resp) + rstatus)%type.

  Definition unknown_status (msg : bytes) : rstatus := mkRStatus Unknown (Some msg) [].
  Definition internal_status (msg : bytes) : rstatus := mkRStatus InternalServerError (Some msg) [].

  (** rpc::server::Rpc::unary; [errmsg] stands for the formatted error text. *)
  Definition server_unary (handler : Req -> handler_result) (errmsg : bytes) (body : bytes) : wresp :=
    match dec_q body with
    | None => status_into_response (unknown_status errmsg)
    | Some q =>
        match handler q with
        | inr st => status_into_response st
        | inl (code, hdrs, m) =>
            match enc_r m with
            | Some b => mkWResp code (hdrs ++ [(content_type_key, format_name)]) b
            | None => status_into_response (internal_status errmsg)
            end
        end
    end.

  (** rpc::client::Rpc::unary, after the transport returned [r]. *)
  Definition client_unary (errmsg : bytes) (r : wresp) : ((status * list (bytes * bytes) * Resp) + rstatus) :=
    if is_success (w_status r) then
      match dec_r (w_body r) with
      | Some m => inl (w_status r, w_headers r, m)
      | None => inr (unknown_status errmsg)
      end
    else inr (status_from_response r).

  Definition typed_call (handler : Req -> handler_result) (errmsg : bytes) (m : Req)
    : ((status * list (bytes * bytes) * Resp) + rstatus) :=
    client_unary errmsg (server_unary handler errmsg (enc_q m)).
End Typed.
