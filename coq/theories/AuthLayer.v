(** C20: the RequireAuthorization layer (anemo-tower/src/auth) and the AllowedPeers authorizer.
    Peers, request tags and response payloads are abstract numbers. *)
From AnemoVerif Require Import Base.

Record areq := mkAreq { a_sender : option N; a_tag : N }.

Inductive outcome :=
| Invoke (r : areq)           (* the wrapped service is called with this request *)
| Reply (status : N) (payload : N).  (* answered by the layer, service not called *)

(** An authorizer may rewrite the request it accepts ([&mut Request]) or refuse with a response. *)
Definition authorizer := areq -> areq * option (N * N).

Definition call (auth : authorizer) (r : areq) : outcome :=
  match auth r with
  | (r', None) => Invoke r'
  | (_, Some (st, payload)) => Reply st payload
  end.

Definition mem (p : N) (l : list N) : bool := existsb (N.eqb p) l.

(** [AllowedPeers::authorize]. 500 = InternalServerError, 404 = NotFound; empty body = payload 0. *)
Definition allowed_peers (l : list N) : authorizer :=
  fun r =>
    match a_sender r with
    | None => (r, Some (500, 0))
    | Some p => if mem p l then (r, None) else (r, Some (404, 0))
    end.

(** The layer keeps no state: any number of calls, through any clones, is a list of calls. *)
Definition run (auth : authorizer) (reqs : list areq) : list outcome := map (call auth) reqs.

Fixpoint invocations (outs : list outcome) : list areq :=
  match outs with
  | [] => []
  | Invoke r :: t => r :: invocations t
  | Reply _ _ :: t => invocations t
  end.
