(** The wire format of network/wire.rs: 8-byte preamble, then two frames with a 4-byte
    big-endian length prefix (tokio-util LengthDelimitedCodec) holding the bincode header and
    the raw body. *)
From AnemoVerif Require Import Base Utf8 Bincode Status.

Definition magic : bytes := [97; 110; 101; 109; 111].  (* "anemo" *)

Definition preamble (v : N) : bytes := magic ++ be_bytes 2 v ++ [0].

(** [Version::new]: only version 1 exists. *)
Definition version_new (v : N) : res N := if v =? 1 then Ok 1 else Err EVersion.

Definition parse_preamble (s : bytes) : res (N * bytes) :=
  match s with
  | a :: b :: c :: d :: e :: v1 :: v0 :: z :: rest =>
      if bytes_eqb [a; b; c; d; e] magic && (z =? 0) then
        match version_new (be_val [v1; v0]) with
        | Ok v => Ok (v, rest)
        | Err x => Err x
        end
      else Err EPreamble
  | _ => Err EShort
  end.

(** Effective frame limit of [network_message_frame_codec]: the configured value clamped to
    what a 4-byte length field can express; tokio-util's builder default (8 MiB) when unset. *)
Definition default_max_frame : N := 8388608.
Definition eff_max (cfg : option N) : N :=
  match cfg with
  | Some m => N.min m u32_max
  | None => default_max_frame
  end.

Definition enc_frame (max : N) (b : bytes) : res bytes :=
  if max <? len b then Err ETooBig else Ok (be_bytes 4 (len b) ++ b).

Definition dec_frame (max : N) (s : bytes) : res (bytes * bytes) :=
  match take 4 s with
  | None => Err EShort
  | Some (h, r) =>
      let n := be_val h in
      if max <? n then Err ETooBig
      else match take n r with
           | None => Err EShort
           | Some (f, r') => Ok (f, r')
           end
  end.

Record request := mkRequest {
  rq_version : N;
  rq_route : bytes;
  rq_headers : list (bytes * bytes);
  rq_body : bytes;
  rq_ext : list N   (* local extensions: never read by the encoder *)
}.

Record response := mkResponse {
  rs_version : N;
  rs_status : status;
  rs_headers : list (bytes * bytes);
  rs_body : bytes;
  rs_ext : list N
}.

Definition req_header_bytes (route : bytes) (h : list (bytes * bytes)) : bytes :=
  enc_str route ++ enc_map h.

Definition resp_header_bytes (st : status) (h : list (bytes * bytes)) : bytes :=
  enc_u16 (status_to_u16 st) ++ enc_map h.

Definition enc_message (max v : N) (hdr body : bytes) : res bytes :=
  match enc_frame max hdr with
  | Err e => Err e
  | Ok fh =>
      match enc_frame max body with
      | Err e => Err e
      | Ok fb => Ok (preamble v ++ fh ++ fb)
      end
  end.

Definition enc_request (max : N) (r : request) : res bytes :=
  enc_message max (rq_version r) (req_header_bytes (rq_route r) (rq_headers r)) (rq_body r).

Definition enc_response (max : N) (r : response) : res bytes :=
  enc_message max (rs_version r) (resp_header_bytes (rs_status r) (rs_headers r)) (rs_body r).

Definition dec_req_header (h : bytes) : option (bytes * list (bytes * bytes)) :=
  match dec_str h with
  | None => None
  | Some (route, r) =>
      match dec_map r with
      | None => None
      | Some (hs, _trailing) => Some (route, hs)
      end
  end.

Definition dec_resp_header (h : bytes) : option (N * list (bytes * bytes)) :=
  match dec_u16 h with
  | None => None
  | Some (code, r) =>
      match dec_map r with
      | None => None
      | Some (hs, _trailing) => Some (code, hs)
      end
  end.

Definition dec_request (max : N) (s : bytes) : res (request * bytes) :=
  match parse_preamble s with
  | Err e => Err e
  | Ok (v, r0) =>
      match dec_frame max r0 with
      | Err e => Err e
      | Ok (h, r1) =>
          match dec_req_header h with
          | None => Err EBincode
          | Some (route, hs) =>
              match dec_frame max r1 with
              | Err e => Err e
              | Ok (b, r2) => Ok (mkRequest v route hs b [], r2)
              end
          end
      end
  end.

Definition dec_response (max : N) (s : bytes) : res (response * bytes) :=
  match parse_preamble s with
  | Err e => Err e
  | Ok (v, r0) =>
      match dec_frame max r0 with
      | Err e => Err e
      | Ok (h, r1) =>
          match dec_resp_header h with
          | None => Err EBincode
          | Some (code, hs) =>
              match status_new code with
              | None => Err EStatus
              | Some st =>
                  match dec_frame max r1 with
                  | Err e => Err e
                  | Ok (b, r2) => Ok (mkResponse v st hs b [], r2)
                  end
              end
          end
      end
  end.

Definition strip_req (r : request) : request :=
  mkRequest (rq_version r) (rq_route r) (rq_headers r) (rq_body r) [].
Definition strip_resp (r : response) : response :=
  mkResponse (rs_version r) (rs_status r) (rs_headers r) (rs_body r) [].

Definition pairs_utf8 (h : list (bytes * bytes)) : bool :=
  forallb (fun kv => utf8_valid (fst kv) && utf8_valid (snd kv)) h.

(** What the Rust types guarantee about a message handed to the encoder, plus the size
    conditions under which the encoder accepts it. *)
Definition wf_request (max : N) (r : request) : bool :=
  (rq_version r =? 1) && utf8_valid (rq_route r) && pairs_utf8 (rq_headers r)
  && (len (req_header_bytes (rq_route r) (rq_headers r)) <=? max)
  && (len (rq_body r) <=? max) && (max <=? u32_max).

Definition wf_response (max : N) (r : response) : bool :=
  (rs_version r =? 1) && pairs_utf8 (rs_headers r)
  && (len (resp_header_bytes (rs_status r) (rs_headers r)) <=? max)
  && (len (rs_body r) <=? max) && (max <=? u32_max).
