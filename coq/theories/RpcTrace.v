(** Trace acceptance for Rpc.v: the events recorded by the cfg-guarded trace points of
    [Peer::do_rpc] and [BiStreamRequestHandler::do_handle] (category "rpc"), one connection's
    streams at a time, are replayed on the model.  Every event stands for a short list of labels
    of [Rpc.sstep] that depends on the stream's state only (byte deliveries are not observable:
    an event that needs bytes delivers what has been written); accepted traces are runs of the
    model (RpcTrace_proofs.v), so C02 / C12 / C06 theorems apply to the states they reach. *)
From Coq Require Import Arith.
From AnemoVerif Require Import Base Utf8 Bincode Status Wire Rpc.

Inductive rev :=
| EWritten      (* caller: write_request returned *)
| EFin          (* caller: finish() *)
| EDecoded      (* server: read_request returned a request; the handler is invoked *)
| EReturned     (* server: the handler returned a response *)
| EFinished     (* server: response written and the stream finished *)
| EResponse     (* caller: read_response returned *)
| ECallerEnd    (* caller: do_rpc ended without a response (dropped or failed) *)
| EServerEnd.   (* server: do_handle ended (after finishing, or dropped, or with an error) *)

Section WithHandler.
  Variable max : N.
  Variable handler : request -> response.

  Definition labels_for (st : stream) (e : rev) : list label :=
    match e with
    | EWritten =>
        match cs st with
        | CWriting n => [Write (length (wire st) - n)]
        | _ => [Write 0]      (* not enabled: rejected *)
        end
    | EFin => [Fin]
    | EDecoded => if (delivered st <? written st)%nat then [Recv (written st - delivered st); TryDecode; Dispatch] else [TryDecode; Dispatch]
    | EReturned => [HandlerReturn]
    | EFinished => [SFinish]
    | EResponse => [CRead]
    | ECallerEnd =>
        match cs st, ss st with
        | (CWriting _ | CFinished), (SFailed | SDropped) =>
            (* the server side is gone: what the caller sees is its error, when it had finished writing *)
            match cs st with CFinished => [CRead] | _ => [Abandon] end
        | (CWriting _ | CFinished), _ => [Abandon]
        | _, _ => []
        end
    | EServerEnd =>
        match ss st with
        | SWait => [NoticeReset]
        | SQueued _ | SRunning _ | SWriting _ => [NoticeStop]
        | SDone | SFailed | SDropped => []
        end
    end.

  Fixpoint srun (st : stream) (ls : list label) : option stream :=
    match ls with
    | [] => Some st
    | l :: t => match sstep max handler st l with Some st' => srun st' t | None => None end
    end.

  (** One event on stream [i] of the connection. *)
  Definition estep (c : conn) (i : nat) (e : rev) : option conn :=
    update i (fun st => srun st (labels_for st e)) c.

  (** Replays a trace; on rejection reports the index of the offending event. *)
  Fixpoint erun (c : conn) (n : nat) (es : list (nat * rev)) : conn * option nat :=
    match es with
    | [] => (c, None)
    | (i, e) :: t => match estep c i e with
                     | Some c' => erun c' (S n) t
                     | None => (c, Some n)
                     end
    end.

  (** The schedule of model labels an accepted trace stands for. *)
  Fixpoint sched_of (c : conn) (es : list (nat * rev)) : list (nat * label) :=
    match es with
    | [] => []
    | (i, e) :: t =>
        match nth_error c i with
        | Some st =>
            map (fun l => (i, l)) (labels_for st e)
            ++ match estep c i e with Some c' => sched_of c' t | None => [] end
        | None => []
        end
    end.
End WithHandler.
