(** C11 — Request deadline = min(local default, timeout header), end to end. *)
From AnemoVerif Require Import Base Timeout.
From AnemoVerif.Proofs Require Import Base_proofs Timeout_proofs.

(** The deadline is the smaller of the two; either may be absent. *)
Theorem C11_effective_is_min : forall d r, effective (Some d) (Some r) = Some (N.min d r).
Proof. exact effective_both. Qed.

Theorem C11_effective_no_default : forall hdr, effective None hdr = hdr.
Proof. exact effective_none_l. Qed.

Theorem C11_effective_no_header : forall dflt, effective dflt None = dflt.
Proof. exact effective_none_r. Qed.

(** A remote peer can shorten, never extend or disable, the local limit. *)
Theorem C11_remote_cannot_extend : forall d hdr,
  exists e, effective (Some d) hdr = Some e /\ e <= d.
Proof. exact remote_cannot_extend. Qed.

Theorem C11_remote_can_shorten : forall d r, r <= d -> effective (Some d) (Some r) = Some r.
Proof. exact remote_can_shorten. Qed.

(** An unparsable header counts as absent. *)
Theorem C11_garbage_is_absent : forall dflt hdrs v,
  lookup timeout_key hdrs = Some v -> parse_u64 v = None ->
  effective dflt (header_timeout hdrs) = dflt.
Proof. exact garbage_is_absent. Qed.

Theorem C11_absent_header : forall dflt hdrs,
  lookup timeout_key hdrs = None -> effective dflt (header_timeout hdrs) = dflt.
Proof. exact absent_header. Qed.

(** The header written by [set_timeout] is read back exactly (clamped to u64). *)
Theorem C11_set_then_get : forall d, parse_u64 (duration_to_timeout d) = Some (N.min d u64_max).
Proof. exact set_then_get. Qed.

(** What the parser accepts: an optional '+', then one or more ASCII digits whose value fits. *)
Theorem C11_parse_sound : forall s n,
  parse_u64 s = Some n ->
  n <= u64_max /\
  exists body, (s = body \/ s = 43 :: body) /\ body <> [] /\ all_digits body = true /\ dval body = n.
Proof. exact parse_sound. Qed.

(** A handler needing less is answered normally; one needing more is cut off at the deadline. *)
Theorem C11_cut_off_exactly : forall e h,
  (h < e -> layer_outcome (Some e) h = Normal h) /\
  (e < h -> layer_outcome (Some e) h = CutOff e).
Proof. exact cut_off_exactly. Qed.

Theorem C11_no_deadline : forall h, layer_outcome None h = Normal h.
Proof. exact no_deadline. Qed.

(** End to end. *)
Theorem C11_rpc_response_when_fast : forall out_dflt in_dflt hdr h d1 d2,
  (forall e, effective in_dflt hdr = Some e -> h < e) ->
  (forall e, effective out_dflt hdr = Some e -> d1 + h + d2 < e) ->
  rpc_outcome out_dflt in_dflt hdr h d1 d2 = Response (d1 + h + d2).
Proof. exact rpc_response_when_fast. Qed.

Theorem C11_rpc_server_cuts_off : forall out_dflt in_dflt hdr h d1 d2 ei,
  effective in_dflt hdr = Some ei -> ei < h ->
  (forall e, effective out_dflt hdr = Some e -> d1 + ei + d2 < e) ->
  rpc_outcome out_dflt in_dflt hdr h d1 d2 = RequestTimeoutStatus (d1 + ei + d2).
Proof. exact rpc_server_cuts_off. Qed.

Theorem C11_rpc_caller_times_out : forall out_dflt in_dflt hdr h d1 d2 eo,
  effective out_dflt hdr = Some eo ->
  (forall e, effective in_dflt hdr = Some e -> e <> h) ->
  eo < d1 + h + d2 ->
  (forall e, effective in_dflt hdr = Some e -> eo < d1 + e + d2) ->
  rpc_outcome out_dflt in_dflt hdr h d1 d2 = CallerTimeoutError eo.
Proof. exact rpc_caller_times_out. Qed.

Theorem C11_rpc_duration_bounded_by_local_default : forall out_dflt in_dflt hdr h d1 d2 d,
  out_dflt = Some d ->
  match rpc_outcome out_dflt in_dflt hdr h d1 d2 with
  | Response t | RequestTimeoutStatus t | CallerTimeoutError t => t <= d
  | RaceUnspecified => True
  end.
Proof. exact rpc_duration_bounded_by_local_default. Qed.

Example C11_ex_parse :
  parse_u64 [49; 50; 51] = Some 123 /\ parse_u64 [43; 55] = Some 7 /\ parse_u64 [] = None /\
  parse_u64 [43] = None /\ parse_u64 [45; 49] = None /\ parse_u64 [32; 49] = None /\
  parse_u64 (decimal 18446744073709551615) = Some 18446744073709551615 /\
  parse_u64 (decimal 18446744073709551616) = None /\
  duration_to_timeout 30000000000 = [51;48;48;48;48;48;48;48;48;48;48].
Proof. vm_compute. repeat split. Qed.

Example C11_ex_outcomes :
  rpc_outcome (Some 100) (Some 50) None 10 5 5 = Response 20 /\
  rpc_outcome (Some 100) (Some 50) None 60 5 5 = RequestTimeoutStatus 60 /\
  rpc_outcome (Some 40) (Some 50) None 60 5 5 = CallerTimeoutError 40 /\
  rpc_outcome (Some 100) (Some 50) (Some 20) 30 5 5 = CallerTimeoutError 20.
Proof. vm_compute. repeat split. Qed.

(** The deadline covers the whole call, the wait for a stream included: with all streams of the
    connection in use for [w], the call ends at its deadline at the latest, and with an error at
    exactly the deadline when that passes while it is still waiting (nothing was sent). *)
Theorem C11_deadline_covers_stream_wait : forall out_dflt in_dflt hdr w h d1 d2 e,
  effective out_dflt hdr = Some e ->
  match rpc_outcome_w out_dflt in_dflt hdr w h d1 d2 with
  | Response t | RequestTimeoutStatus t => t < e
  | CallerTimeoutError t => t = e
  | RaceUnspecified => True
  end.
Proof. exact rpc_w_never_exceeds_deadline. Qed.

Theorem C11_times_out_while_waiting_for_a_stream : forall out_dflt in_dflt hdr w h d1 d2 e,
  effective out_dflt hdr = Some e -> e < w ->
  rpc_outcome_w out_dflt in_dflt hdr w h d1 d2 = CallerTimeoutError e.
Proof. exact rpc_w_times_out_while_waiting. Qed.

Theorem C11_no_wait_is_the_plain_call : forall out_dflt in_dflt hdr h d1 d2,
  (forall e, effective out_dflt hdr = Some e -> 0 < e) ->
  rpc_outcome_w out_dflt in_dflt hdr 0 h d1 d2 = rpc_outcome out_dflt in_dflt hdr h d1 d2.
Proof. exact rpc_outcome_w_zero. Qed.

Print Assumptions C11_effective_is_min.
Print Assumptions C11_effective_no_default.
Print Assumptions C11_effective_no_header.
Print Assumptions C11_remote_cannot_extend.
Print Assumptions C11_remote_can_shorten.
Print Assumptions C11_garbage_is_absent.
Print Assumptions C11_absent_header.
Print Assumptions C11_set_then_get.
Print Assumptions C11_parse_sound.
Print Assumptions C11_cut_off_exactly.
Print Assumptions C11_no_deadline.
Print Assumptions C11_rpc_response_when_fast.
Print Assumptions C11_rpc_server_cuts_off.
Print Assumptions C11_rpc_caller_times_out.
Print Assumptions C11_rpc_duration_bounded_by_local_default.
Print Assumptions C11_deadline_covers_stream_wait.
Print Assumptions C11_times_out_while_waiting_for_a_stream.
Print Assumptions C11_no_wait_is_the_plain_call.
