(** C04 — At most one connection per peer; events are an exact change log. *)
From AnemoVerif Require Import Base ActivePeers.
From AnemoVerif.Proofs Require Import ActivePeers_proofs.

(** For every history of add / remove / remove-by-connection / subscribe / list operations (all
    methods run under one lock, so any multi-threaded interleaving is such a list): *)
Theorem C04_listing_nodup : forall ops, NoDup (peers (run ops)).
Proof. exact listing_nodup. Qed.

Theorem C04_never_lists_closed : forall ops q i o,
  NoDup (ids_added ops) -> In (q, (i, o)) (conns (run ops)) -> ~ In i (closed (run ops)).
Proof. exact never_lists_closed. Qed.

Theorem C04_remove_stable_unlists : forall s p id r o,
  find p (conns (fst (step s (RemoveStable p id r)))) <> Some (id, o).
Proof. exact remove_stable_unlists. Qed.

(** Per peer the events alternate NewPeer, LostPeer, NewPeer, ... and end in NewPeer iff listed. *)
Theorem C04_alternation : forall ops p,
  alternates p false (log (run ops)) = Some (existsb (N.eqb p) (peers (run ops))).
Proof. exact alternation. Qed.

(** Refinement: the listing is the event log applied to the empty set ... *)
Theorem C04_refines_spec : forall ops, peers (run ops) = apply_events [] (log (run ops)).
Proof. exact refines_spec. Qed.

(** ... hence a subscription's snapshot plus all later events reproduces the listing. *)
Theorem C04_snapshot_plus_events : forall ops1 ops2,
  let s1 := run ops1 in
  let s2 := run (ops1 ++ ops2) in
  exists later, log s2 = log s1 ++ later /\ apply_events (peers s1) later = peers s2.
Proof. exact snapshot_plus_events. Qed.

(** The end of an older, replaced connection never removes or disturbs its replacement. *)
Theorem C04_replacement_undisturbed : forall s p old new o r,
  find p (conns s) = Some (new, o) -> new <> old -> step s (RemoveStable p old r) = (s, Done).
Proof. exact replacement_undisturbed. Qed.

Example C04_ex :
  let s := run [Add 5 9 100 Outbound; Add 5 7 101 Inbound; Add 5 9 102 Inbound;
                RemoveStable 9 100 6; Remove 7 0; Subscribe] in
  peers s = [9] /\ find 9 (conns s) = Some (102, Inbound) /\ closed s = [101; 100]
  /\ log s = [NewPeer 9; NewPeer 7; LostPeer 9 0; NewPeer 9; LostPeer 7 0].
Proof. vm_compute. repeat split. Qed.

Print Assumptions C04_listing_nodup.
Print Assumptions C04_never_lists_closed.
Print Assumptions C04_remove_stable_unlists.
Print Assumptions C04_alternation.
Print Assumptions C04_refines_spec.
Print Assumptions C04_snapshot_plus_events.
Print Assumptions C04_replacement_undisturbed.
