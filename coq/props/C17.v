(** C17 — Generated typed clients reach the matching typed handlers. *)
From AnemoVerif Require Import Base Status Router Codegen.
From AnemoVerif.Proofs Require Import Router_proofs Codegen_proofs.

Theorem C17_paths_agree : forall pkg svc m, client_path pkg svc m = server_path pkg svc m.
Proof. exact paths_agree. Qed.

Theorem C17_path_under_prefix : forall pkg svc m,
  client_path pkg svc m = rpc_prefix (service_name pkg svc) ++ m.
Proof. exact path_under_prefix. Qed.

Theorem C17_client_route_reaches_service : forall r pkg svc id r' m,
  compatible r = true -> add_rpc_service r (service_name pkg svc) id = Some r' ->
  dispatch r' (client_path pkg svc m) = Found id [].
Proof. exact client_route_reaches_service. Qed.

Theorem C17_method_injective : forall pkg svc m1 m2,
  client_path pkg svc m1 = client_path pkg svc m2 -> m1 = m2.
Proof. exact method_injective. Qed.

Theorem C17_server_selects_same_method : forall pkg svc methods i d,
  NoDup methods -> (i < length methods)%nat ->
  server_select pkg svc methods (client_path pkg svc (nth i methods d)) = Some i.
Proof. exact server_select_hits. Qed.

Theorem C17_server_unknown_method_not_found : forall pkg svc methods route,
  (forall m, In m methods -> server_path pkg svc m <> route) ->
  server_select pkg svc methods route = None.
Proof. exact server_select_unknown. Qed.

(** Error statuses travel with code, message and headers intact (the message travels in the
    status-message header and therefore overrides a user header of that name). *)
Theorem C17_status_roundtrip : forall st,
  let st' := status_from_response (status_into_response st) in
  st_code st' = st_code st
  /\ st_message st' = match st_message st with
                      | Some m => Some m
                      | None => lookup status_message_key (st_headers st)
                      end
  /\ (forall k, k <> status_message_key -> lookup k (st_headers st') = lookup k (st_headers st)).
Proof. exact status_roundtrip. Qed.

(** Typed calls, for any message codecs that round-trip. *)
Theorem C17_typed_ok : forall (Req Resp : Type) enc_q dec_q enc_r dec_r format_name,
  (forall m, dec_q (enc_q m) = Some m) -> (forall m b, enc_r m = Some b -> dec_r b = Some m) ->
  forall handler e m code hdrs r b,
    handler m = inl (code, hdrs, r) -> is_success code = true -> enc_r r = Some b ->
    typed_call Req Resp enc_q dec_q enc_r dec_r format_name handler e m
    = inl (code, hdrs ++ [(content_type_key, format_name)], r).
Proof. exact typed_ok. Qed.

Theorem C17_typed_err : forall (Req Resp : Type) enc_q dec_q enc_r dec_r format_name,
  (forall m, dec_q (enc_q m) = Some m) ->
  forall handler e m st,
    handler m = inr st -> is_success (st_code st) = false ->
    typed_call Req Resp enc_q dec_q enc_r dec_r format_name handler e m
    = inr (status_from_response (status_into_response st)).
Proof. exact typed_err. Qed.

Theorem C17_never_ok_from_non_success : forall (Req Resp : Type) enc_q dec_q enc_r dec_r format_name,
  forall handler e m code hdrs r,
    typed_call Req Resp enc_q dec_q enc_r dec_r format_name handler e m = inl (code, hdrs, r) ->
    is_success code = true.
Proof. exact typed_never_ok_from_non_success. Qed.

Theorem C17_undecodable_request_is_unknown : forall (Req Resp : Type) dec_q enc_r format_name,
  forall (handler : Req -> handler_result Resp) e g,
    dec_q g = None -> w_status (server_unary Req Resp dec_q enc_r format_name handler e g) = Unknown.
Proof. exact undecodable_request_is_unknown. Qed.

Theorem C17_undecodable_response_is_unknown : forall (Resp : Type) (dec_r : bytes -> option Resp) e w,
  is_success (w_status w) = true -> dec_r (w_body w) = None ->
  client_unary Resp dec_r e w = inr (unknown_status e).
Proof. exact undecodable_response_is_unknown. Qed.

Theorem C17_non_success_is_error : forall (Resp : Type) (dec_r : bytes -> option Resp) e w,
  is_success (w_status w) = false -> client_unary Resp dec_r e w = inr (status_from_response w).
Proof. exact non_success_is_error. Qed.

Example C17_ex_paths :
  client_path [101;120] [71] [83;97;121] = [47;101;120;46;71;47;83;97;121] /\    (* /ex.G/Say *)
  client_path [] [71] [83] = [47;71;47;83] /\                                       (* /G/S *)
  service_name [97;46;98] [67] = [97;46;98;46;67].                                  (* a.b.C *)
Proof. repeat split. Qed.

Print Assumptions C17_paths_agree.
Print Assumptions C17_path_under_prefix.
Print Assumptions C17_client_route_reaches_service.
Print Assumptions C17_method_injective.
Print Assumptions C17_server_selects_same_method.
Print Assumptions C17_server_unknown_method_not_found.
Print Assumptions C17_status_roundtrip.
Print Assumptions C17_typed_ok.
Print Assumptions C17_typed_err.
Print Assumptions C17_never_ok_from_non_success.
Print Assumptions C17_undecodable_request_is_unknown.
Print Assumptions C17_undecodable_response_is_unknown.
Print Assumptions C17_non_success_is_error.
