(** C15 — Message size limits are exact, symmetric and confined to the RPC. *)
From AnemoVerif Require Import Base Utf8 Bincode Status Wire SizeLimit.
From AnemoVerif.Proofs Require Import Base_proofs Bincode_proofs Wire_proofs SizeLimit_proofs.

(** 1. One exact threshold, the same for sender and receiver. *)
Theorem C15_effective_limit : forall m, eff_max (Some m) = N.min m u32_max.
Proof. exact eff_max_some. Qed.

Theorem C15_exact_sender : forall max b, is_ok (enc_frame max b) = frame_ok max (len b).
Proof. exact enc_frame_exact. Qed.

Theorem C15_exact_receiver : forall max b r,
  len b <= u32_max ->
  dec_frame max (be_bytes 4 (len b) ++ b ++ r) =
  if frame_ok max (len b) then Ok (b, r) else Err ETooBig.
Proof. exact dec_frame_exact. Qed.

Theorem C15_symmetric : forall max b,
  len b <= u32_max ->
  is_ok (enc_frame max b) = is_ok (dec_frame max (be_bytes 4 (len b) ++ b)).
Proof. exact symmetric_threshold. Qed.

Theorem C15_receiver_refuses_on_prefix : forall max n payload,
  n <= u32_max -> max < n -> dec_frame max (be_bytes 4 n ++ payload) = Err ETooBig.
Proof. exact dec_frame_refuses_early. Qed.

(** 2. An RPC is delivered iff all four frames fit the smaller limit; then content is intact;
       otherwise the refusing end reports an error (never truncation). *)
Theorem C15_delivered_iff : forall cmax smax qh qb rh rb,
  rpc_size_outcome cmax smax qh qb rh rb = Delivered <->
  (qh <= N.min cmax smax /\ qb <= N.min cmax smax /\ rh <= N.min cmax smax /\ rb <= N.min cmax smax).
Proof. exact delivered_iff. Qed.

Theorem C15_message_outcome_depends_on_sizes_only : forall max v h b,
  is_ok (enc_message max v h b) = msg_size_ok max (len h) (len b).
Proof. exact enc_message_sizes. Qed.

Theorem C15_request_crosses_intact : forall cmax smax r,
  wf_request cmax r = true -> wf_request smax r = true ->
  exists bs, enc_request cmax r = Ok bs /\ dec_request smax bs = Ok (strip_req r, []).
Proof. exact request_crosses_intact. Qed.

Theorem C15_response_crosses_intact : forall cmax smax r,
  wf_response smax r = true -> wf_response cmax r = true ->
  exists bs, enc_response smax r = Ok bs /\ dec_response cmax bs = Ok (strip_resp r, []).
Proof. exact response_crosses_intact. Qed.

Theorem C15_oversize_refused_by_sender : forall max r,
  msg_size_ok max (len (req_header_bytes (rq_route r) (rq_headers r))) (len (rq_body r)) = false ->
  enc_request max r = Err ETooBig.
Proof. exact oversize_request_refused_by_sender. Qed.

Theorem C15_oversize_refused_by_receiver : forall cmax smax r bs,
  wf_request cmax r = true -> enc_request cmax r = Ok bs ->
  msg_size_ok smax (len (req_header_bytes (rq_route r) (rq_headers r))) (len (rq_body r)) = false ->
  dec_request smax bs = Err ETooBig.
Proof. exact oversize_request_refused_by_receiver. Qed.

(** 4. "With no maximum configured, no size limit is imposed": FALSE of the faithful model
       (tokio-util's 8 MiB builder default stays in force).  Witness 8 MiB + 1; finding F1. *)
Theorem C15_no_limit_when_unconfigured_refuted :
  exists n, n <= u32_max /\ frame_ok (eff_max None) n = false.
Proof. exact unconfigured_refuted. Qed.

Theorem C15_no_limit_when_unconfigured_partial : forall n,
  n <= 8388608 -> frame_ok (eff_max None) n = true.
Proof. exact unconfigured_partial. Qed.

Theorem C15_unconfigured_threshold_exactly_8MiB : forall n,
  frame_ok (eff_max None) n = (n <=? 8388608).
Proof. exact unconfigured_exactly. Qed.

Example C15_ex_outcomes :
  rpc_size_outcome 100 50 40 40 40 40 = Delivered /\
  rpc_size_outcome 100 50 40 51 40 40 = CalleeRefusesRecv /\
  rpc_size_outcome 50 100 40 51 40 40 = CallerRefusesSend /\
  rpc_size_outcome 50 100 40 40 40 51 = CallerRefusesRecv /\
  rpc_size_outcome 100 50 40 40 51 40 = CalleeRefusesSend.
Proof. vm_compute. repeat split. Qed.

Print Assumptions C15_effective_limit.
Print Assumptions C15_exact_sender.
Print Assumptions C15_exact_receiver.
Print Assumptions C15_symmetric.
Print Assumptions C15_receiver_refuses_on_prefix.
Print Assumptions C15_delivered_iff.
Print Assumptions C15_message_outcome_depends_on_sizes_only.
Print Assumptions C15_request_crosses_intact.
Print Assumptions C15_response_crosses_intact.
Print Assumptions C15_oversize_refused_by_sender.
Print Assumptions C15_oversize_refused_by_receiver.
Print Assumptions C15_no_limit_when_unconfigured_refuted.
Print Assumptions C15_no_limit_when_unconfigured_partial.
Print Assumptions C15_unconfigured_threshold_exactly_8MiB.
