(** C12 — Abandoned RPCs are cancelled remotely and leak nothing. *)
From AnemoVerif Require Import Base Utf8 Bincode Status Wire Rpc.
From AnemoVerif.Proofs Require Import Rpc_proofs.

(** The caller may abandon in every state before the call has returned. *)
Theorem C12_abandon_always_possible : forall max handler st,
  (exists n, cs st = CWriting n) \/ cs st = CFinished ->
  exists st', sstep max handler st Abandon = Some st' /\ abandoned st' = true /\ reset st' = true /\ stopped st' = true.
Proof.
  intros max handler st [[n E]|E]; cbn [sstep]; rewrite E; eexists; repeat split.
Qed.

(** Once the stop / reset has been noticed, the handler future is dropped and no handler for
    that stream is running or ever starts again. *)
Theorem C12_handler_dropped : forall max handler st q st',
  ss st = SRunning q -> sstep max handler st NoticeStop = Some st' ->
  ss st' = SDropped /\ sstep max handler st' HandlerReturn = None /\ sstep max handler st' TryDecode = None.
Proof. exact handler_dropped. Qed.

(** A request given up while it still waits for the service to become ready (a service that applies
    back-pressure through poll_ready) is never handed to the handler: the stream closes, the invocation
    count stays where it was (0), and neither a dispatch nor a handler return can follow. *)
Theorem C12_abandoned_while_queued_never_invoked : forall max handler st q st',
  ss st = SQueued q -> sstep max handler st NoticeStop = Some st' ->
  ss st' = SDropped /\ invocations st' = invocations st
  /\ sstep max handler st' Dispatch = None /\ sstep max handler st' HandlerReturn = None.
Proof. exact queued_dropped_never_invoked. Qed.

Example C12_queued_ex :   (* decoded, waiting for readiness, the caller gives up: closed with 0 invocations *)
  let h (q : request) := mkResponse 1 Success [] (rq_body q) [] in
  match enc_request 100 (mkRequest 1 [47] [] [7] []) with
  | Ok w =>
      match crun 100 h [open_stream w] [(0%nat, Write 1000); (0%nat, Fin); (0%nat, Recv 1000); (0%nat, TryDecode);
                                        (0%nat, Abandon); (0%nat, NoticeStop)] with
      | Some [s] => ss s = SDropped /\ invocations s = 0%nat /\ sstep 100 h s Dispatch = None
      | _ => False
      end
  | Err _ => False
  end.
Proof. vm_compute. repeat split. Qed.

Theorem C12_closed_is_absorbing : forall max handler st l st',
  closed (ss st) = true -> sstep max handler st l = Some st' ->
  ss st' = ss st /\ invocations st' = invocations st.
Proof. exact closed_absorbing. Qed.

(** Every abandoned stream that is still open at the server has an enabled step that closes it:
    under weak fairness it closes in one step. *)
Theorem C12_stream_closes : forall max handler st,
  ainv st -> abandoned st = true -> closed (ss st) = false ->
  exists l st', In l [NoticeStop; NoticeReset] /\ sstep max handler st l = Some st'
                /\ closed (ss st') = true /\ invocations st' = invocations st.
Proof. exact abandoned_progress. Qed.

(** No credit leak: once the server side is quiescent every abandoned stream has been closed,
    whatever the history (any number of abandoned calls, interleaved with live ones). *)
Theorem C12_no_credit_leak : forall max handler sched ws c',
  crun max handler (map open_stream ws) sched = Some c' -> server_quiescent max handler c' ->
  forall st, In st c' -> abandoned st = true -> closed (ss st) = true.
Proof. exact no_credit_leak. Qed.

Theorem C12_siblings_unaffected : forall max handler c i c' j,
  cstep max handler c i Abandon = Some c' -> j <> i -> nth_error c' j = nth_error c j.
Proof. exact siblings_unaffected. Qed.

Print Assumptions C12_abandon_always_possible.
Print Assumptions C12_handler_dropped.
Print Assumptions C12_closed_is_absorbing.
Print Assumptions C12_stream_closes.
Print Assumptions C12_no_credit_leak.
Print Assumptions C12_siblings_unaffected.
Print Assumptions C12_abandoned_while_queued_never_invoked.
