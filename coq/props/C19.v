(** C19 — Per-peer rate limit admits no more than the quota. *)
From AnemoVerif Require Import Base Gcra.
From AnemoVerif.Proofs Require Import Gcra_proofs.

(** Refused requests never reach the service; forwarded exactly when the limiter admits. *)
Theorem C19_refused_never_reaches_service : forall q st k now na w st',
  rate_call q st k now na = (TooMany w, st') ->
  fst (gcra_step q (tat_of q st k now) now) = false /\ st' = kset k (tat_of q st k now) st.
Proof. exact refused_never_forwarded. Qed.

Theorem C19_forwarded_iff_admitted : forall q st k now na,
  fst (rate_call q st k now na) = Forward <-> fst (gcra_step q (tat_of q st k now) now) = true.
Proof. exact forwarded_iff_admitted. Qed.

(** The hint is positive whenever the clock is re-read ([na]), it is exact when read at the
    decision instant, and waiting it out suffices. *)
Theorem C19_wait_hint_positive : forall q st k now na w st',
  rate_call q st k now na = (TooMany w, st') ->
  0 < w /\ (na = now -> w = tat_of q st k now - tau q - now).
Proof. exact wait_hint_positive. Qed.

Theorem C19_hint_is_sufficient : forall q tat now,
  fst (gcra_step q tat now) = false -> fst (gcra_step q tat (now + wait_hint q tat now)) = true.
Proof. exact hint_is_sufficient. Qed.

(** Block mode: the request is admitted at the first conforming instant, not before [now]. *)
Theorem C19_block_admit_time_conforms : forall q tat now,
  fst (gcra_step q tat (block_admit_time q tat now)) = true /\ now <= block_admit_time q tat now.
Proof. exact block_admit_time_conforms. Qed.

(** Quotas are per peer. *)
Theorem C19_keys_independent : forall q st k k2 now na,
  k2 <> k -> kget k2 (snd (rate_call q st k now na)) = kget k2 st.
Proof. exact keys_independent. Qed.

Theorem C19_keys_independent_decision : forall q st k k2 now na now2 na2,
  k2 <> k ->
  fst (rate_call q (snd (rate_call q st k now na)) k2 now2 na2) = fst (rate_call q st k2 now2 na2).
Proof. exact keys_independent_decision. Qed.

(** The window bound, for every quota, every start state, every nondecreasing arrival sequence
    and every window [a, b]: burst + 1 + replenishment. *)
Theorem C19_window_bound_general : forall q ts tat a b,
  sorted ts = true -> a <= b -> 0 < q_t q ->
  admitted_in q tat ts a b <= q_burst q + 1 + (b - a) / q_t q.
Proof. exact window_bound_div. Qed.

(** The bound as the property states it (burst + replenishment) is FALSE of the faithful model:
    after an idle period governor's GCRA admits burst + 1 cells at one instant.  Finding F2. *)
Theorem C19_window_bound_refuted :
  exists q tat ts a b,
    sorted ts = true /\ a <= b /\ 0 < q_t q /\
    q_burst q + (b - a) / q_t q < admitted_in q tat ts a b.
Proof. exact window_bound_refuted. Qed.

(** It holds for every window whose first arrival finds the key not fully replenished. *)
Theorem C19_window_bound_partial : forall q ts tat a b,
  (forall x, In x ts -> a <= x) -> a <= b -> 0 < q_t q -> a + q_t q <= tat ->
  admitted_in q tat ts a b * q_t q <= (b - a) + q_burst q * q_t q.
Proof. exact window_bound_partial. Qed.

Theorem C19_fresh_key_admitted : forall q now,
  0 < q_t q -> 0 < q_burst q -> fst (gcra_step q (now + q_t q) now) = true.
Proof. exact fresh_key_burst. Qed.

Example C19_ex_fresh_burst :   (* fresh key, burst 3: exactly 3 pass at the first instant *)
  admitted_in (mkQuota 10 3) (50 + 10) [50; 50; 50; 50; 50] 50 50 = 3.
Proof. reflexivity. Qed.

Example C19_ex_idle_burst :    (* idle key, burst 3: 4 pass at one instant *)
  admitted_in (mkQuota 10 3) 0 [50; 50; 50; 50; 50] 50 50 = 4.
Proof. reflexivity. Qed.

Print Assumptions C19_refused_never_reaches_service.
Print Assumptions C19_forwarded_iff_admitted.
Print Assumptions C19_wait_hint_positive.
Print Assumptions C19_hint_is_sufficient.
Print Assumptions C19_block_admit_time_conforms.
Print Assumptions C19_keys_independent.
Print Assumptions C19_keys_independent_decision.
Print Assumptions C19_window_bound_general.
Print Assumptions C19_window_bound_refuted.
Print Assumptions C19_window_bound_partial.
Print Assumptions C19_fresh_key_admitted.
