(** C08 — Shutdown always completes, releases everything and never panics. *)
From AnemoVerif Require Import Base Shutdown ShutdownTrace.
From AnemoVerif.Proofs Require Import Shutdown_proofs ShutdownTrace_proofs.

Definition no_teardown (ls : list label) : bool := forallb (fun l => negb (teardown_label l)) ls.

(** Without runtime teardown, for every combination of in-flight work and every schedule: *)

(** the shutdown sequence never gets stuck ... *)
Theorem C08_shutdown_progress : forall s,
  inv s -> ph s <> MLoop -> ph s <> MDone ->
  exists l s', teardown_label l = false /\ progress_label l = true /\ step s l = Some s'.
Proof. exact shutdown_progress. Qed.

(** ... and takes at most [meas s] steps besides API submissions; *)
Theorem C08_shutdown_terminates : forall ls s s',
  uniq s -> cinv s -> inv s -> ph s <> MLoop -> no_teardown ls = true -> run s ls = Some s' ->
  (count_progress ls + meas s' <= meas s)%nat.
Proof. exact shutdown_terminates. Qed.

(** the active-peer set is already empty when the cleanup step is reached (nothing is reported
    lost twice), and the manager never panics; *)
Theorem C08_assertion_holds : forall ls s,
  no_teardown ls = true -> run init ls = Some s -> ph s = MAssert -> entries s = [].
Proof. exact assertion_holds. Qed.

Theorem C08_never_panics_without_teardown : forall ls s,
  no_teardown ls = true -> run init ls = Some s -> ph s <> MPanicked.
Proof. exact never_panics_without_teardown. Qed.

(** afterwards: no peers, no handlers, no handshakes, and every API call ever issued has been
    answered (none hangs); *)
Theorem C08_post_state : forall ls s,
  no_teardown ls = true -> run init ls = Some s -> ph s = MDone ->
  entries s = [] /\ hands s = [] /\ inbound s = O /\ forallb answered (calls s) = true.
Proof. exact post_state. Qed.

(** calls issued after shutdown fail at once; repeated shutdown requests: at most one is accepted. *)
Theorem C08_late_calls_err : forall s k,
  receiver_gone s = true -> step s (Submit k) = Some (set_calls s (calls s ++ [Answered false])).
Proof. exact late_calls_err. Qed.

Theorem C08_at_most_one_shutdown_accepted : forall ls s,
  run init ls = Some s -> (n_accepted (calls s) <= 1)%nat.
Proof. exact at_most_one_shutdown_accepted. Qed.

(** Runtime teardown at any moment (handler tasks cancelled in any order, accept() yielding None):
    no schedule leads to a panic.  On the pinned code two such schedules did (unwrapped
    cancelled JoinError in the loop; emptiness assertion in shutdown()): findings F3, repaired
    by a fix: commit; the same schedules now end well (C08_former_teardown_witnesses). *)
Theorem C08_teardown_never_panics : forall ls s s',
  ph s <> MPanicked -> run s ls = Some s' -> ph s' <> MPanicked.
Proof. exact never_panics. Qed.

Theorem C08_former_teardown_witnesses :
  (exists s, run init [Incoming; InboundDone true 7; Cancel 0; Join 0] = Some s /\ ph s = MLoop)
  /\ (exists s, run init [Incoming; InboundDone true 7; Submit CShutdown; Process; Cancel 0; AbortPending;
                         Join 0; AllJoined; Assert; Finish] = Some s
                 /\ ph s = MDone /\ entries s = [] /\ lost_events s = 1%nat).
Proof. exact former_teardown_witnesses. Qed.

Theorem C08_cleanup_reports_leftovers : forall s s',
  step s Assert = Some s' -> entries s' = [] /\ lost_events s' = (lost_events s + length (entries s))%nat.
Proof. exact cleanup_reports_leftovers. Qed.

(** Trace acceptance (the executed tie of this model): a trace of manager / handler / API events
    that [ShutdownTrace.trun] accepts from the initial state is a run of the model with one label
    per event, so the state it ends in is reachable and everything above applies to it; a
    request stream accepted after the endpoint was closed (seen in the implementation's traces)
    is one that had arrived before ([StreamArrive] is impossible afterwards). *)
Theorem C08_accepted_trace_is_model_run : forall es s',
  trun init 0 es = (s', None) ->
  run init (labels_of init es) = Some s' /\ length (labels_of init es) = length es.
Proof. intros es s'. exact (trun_is_run es init 0 s'). Qed.

Theorem C08_nothing_arrives_after_close : forall s h,
  endpoint_closed s = true -> step s (StreamArrive h) = None.
Proof. exact nothing_arrives_after_close. Qed.

(** The manager's mailbox is bounded (its capacity is left open): a call issued while it is full
    waits for room ([Issue]) and enters it later ([Admit], oldest first).  Waiting callers change
    nothing the manager sees - in particular not the measure that bounds shutdown, which counts neither
    [Issue] nor [Admit] - and a caller still waiting when the manager finishes gets an error like
    every other pending call: after [Finish] every call ever issued has been answered. *)
Theorem C08_waiting_caller_leaves_manager_alone : forall s k s',
  step s (Issue k) = Some s' ->
  ph s' = ph s /\ hands s' = hands s /\ entries s' = entries s /\ inbound s' = inbound s /\ meas s' = meas s.
Proof. exact waiting_leaves_manager_alone. Qed.

Theorem C08_oldest_waiting_caller_is_admitted : forall s k pre post,
  first_waiting (calls s) = Some (k, pre, post) ->
  step s Admit = Some (set_calls s (pre ++ Queued k :: post))
  /\ calls s = pre ++ Waiting k :: post
  /\ forallb (fun c => match c with Waiting _ => false | _ => true end) pre = true.
Proof. exact admit_oldest_waiting. Qed.

Theorem C08_finish_answers_every_call : forall s s',
  step s Finish = Some s' -> forallb answered (calls s') = true.
Proof. exact finish_answers_all. Qed.

Example C08_full_mailbox_ex :   (* capacity 1: a connect is queued, a second connect and the shutdown wait for room *)
  match run init [Submit CConnect; Issue CConnect; Issue CShutdown; Process; Admit; Process; Admit; Issue CConnect; Process;
                  AbortPending; AllJoined; Assert; Finish; Issue CConnect] with
  | Some s => ph s = MDone /\ calls s = [Answered false; Answered false; Answered true; Answered false; Answered false]
  | None => False
  end.
Proof. vm_compute. repeat split. Qed.

Example C08_late_request_ex :   (* a stream that arrived before the close is accepted after it, then dropped with the handler *)
  match run init [Incoming; InboundDone true 7; StreamArrive 0; Submit CShutdown; Process; ReqStart 0; AbortPending;
                  HExit 0; HAbort 0; Join 0; AllJoined; Assert; Finish] with
  | Some s => ph s = MDone /\ entries s = [] /\ lost_events s = 1%nat
  | None => False
  end.
Proof. vm_compute. repeat split. Qed.

Example C08_ex :
  match run init [Incoming; InboundDone true 7; StreamArrive 0; ReqStart 0; Submit CConnect; Process; Submit CShutdown; Submit CShutdown;
                  Process; AbortPending; HExit 0; ReqEnd 0; HAbort 0; Join 0; AllJoined; Assert; Finish; Submit CConnect] with
  | Some s => ph s = MDone /\ entries s = [] /\ calls s = [Answered false; Answered true; Answered false; Answered false]
  | None => False
  end.
Proof. vm_compute. repeat split. Qed.

Print Assumptions C08_shutdown_progress.
Print Assumptions C08_shutdown_terminates.
Print Assumptions C08_assertion_holds.
Print Assumptions C08_never_panics_without_teardown.
Print Assumptions C08_post_state.
Print Assumptions C08_late_calls_err.
Print Assumptions C08_at_most_one_shutdown_accepted.
Print Assumptions C08_teardown_never_panics.
Print Assumptions C08_former_teardown_witnesses.
Print Assumptions C08_cleanup_reports_leftovers.
Print Assumptions C08_accepted_trace_is_model_run.
Print Assumptions C08_nothing_arrives_after_close.
Print Assumptions C08_waiting_caller_leaves_manager_alone.
Print Assumptions C08_oldest_waiting_caller_is_admitted.
Print Assumptions C08_finish_answers_every_call.
