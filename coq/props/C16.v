(** C16 — Routing delivers each request to exactly the matching service. *)
From AnemoVerif Require Import Base Router.
From AnemoVerif.Proofs Require Import Router_proofs.

(** Every table built by any sequence of route / add_rpc_service / route_layer / merge calls
    that the real Router accepts is conflict-free, so at most one route matches any path. *)
Theorem C16_built_tables_compatible : forall fuel ops r r',
  compatible r = true -> build fuel ops r = Some r' -> compatible r' = true.
Proof. exact build_compatible. Qed.

Theorem C16_dispatch_functional : forall fuel ops r' path,
  build fuel ops [] = Some r' -> (count_matches r' path <= 1)%nat.
Proof. exact build_dispatch_functional. Qed.

Theorem C16_exact_hits : forall r a svc ls,
  compatible r = true -> In (mkEntry (Exact a) svc ls) r -> dispatch r a = Found svc ls.
Proof. exact exact_hits. Qed.

Theorem C16_tail_hits : forall r s svc ls rest,
  compatible r = true -> In (mkEntry (Tail s) svc ls) r -> dispatch r (s ++ rest) = Found svc ls.
Proof. exact tail_hits. Qed.

Theorem C16_rpc_service_prefix : forall r name svc r' rest,
  compatible r = true -> add_rpc_service r name svc = Some r' ->
  dispatch r' (rpc_prefix name ++ rest) = Found svc [].
Proof. exact rpc_service_prefix. Qed.

Theorem C16_registered_route_is_served : forall r p svc ls r' path,
  compatible r = true -> route r p svc ls = Some r' -> matches p path = true ->
  dispatch r' path = Found svc ls.
Proof. exact route_then_dispatch. Qed.

Theorem C16_route_preserves_others : forall r p svc ls r' path,
  route r p svc ls = Some r' -> matches p path = false -> dispatch r' path = dispatch r path.
Proof. exact route_preserves_others. Qed.

(** Unmatched routes get NotFound: exactly when no pattern matches; the empty string and
    anything not starting with '/' in particular. *)
Theorem C16_unmatched_not_found : forall r path,
  dispatch r path = NotFound <-> (forall e, In e r -> matches (e_pat e) path = false).
Proof. exact dispatch_not_found. Qed.

Theorem C16_empty_path_not_found : forall r, compatible r = true -> dispatch r [] = NotFound.
Proof. exact empty_path_not_found. Qed.

Theorem C16_no_leading_slash_not_found : forall r b path,
  compatible r = true -> b <> slash -> dispatch r (b :: path) = NotFound.
Proof. exact no_leading_slash_not_found. Qed.

(** Merge preserves service and route-level middleware of every route of both routers. *)
Theorem C16_merge_preserves : forall r o r' path,
  merge r o = Some r' ->
  dispatch r' path =
  match dispatch r path with Found s ls => Found s ls | NotFound => dispatch o path end.
Proof. exact merge_preserves. Qed.

Theorem C16_merge_preserves_other_side : forall r o r' path svc ls,
  compatible r = true -> merge r o = Some r' -> dispatch o path = Found svc ls ->
  dispatch r' path = Found svc ls.
Proof. exact merge_preserves_other_side. Qed.

(** A route layer applies to exactly the routes registered before it. *)
Theorem C16_route_layer_scope : forall l r path,
  dispatch (route_layer l r) path = add_layer l (dispatch r path).
Proof. exact route_layer_dispatch. Qed.

Theorem C16_route_after_layer_unlayered : forall l r p svc r' path,
  route (route_layer l r) p svc [] = Some r' -> matches p path = true ->
  compatible r = true -> dispatch r' path = Found svc [].
Proof. exact route_after_layer. Qed.

Example C16_ex :
  match build 10 [ORoute (Exact [47; 97]) 1; OMerge [ORoute (Exact [47; 98]) 2; OLayer 3];
                  OLayer 4; ORpc [65] 5] [] with
  | Some r => dispatch r [47; 97] = Found 1 [4] /\ dispatch r [47; 98] = Found 2 [4; 3]
              /\ dispatch r [47; 65; 47; 109] = Found 5 [] /\ dispatch r [47; 65] = NotFound
              /\ dispatch r [] = NotFound
  | None => False
  end.
Proof. vm_compute. repeat split. Qed.

Print Assumptions C16_built_tables_compatible.
Print Assumptions C16_dispatch_functional.
Print Assumptions C16_exact_hits.
Print Assumptions C16_tail_hits.
Print Assumptions C16_rpc_service_prefix.
Print Assumptions C16_registered_route_is_served.
Print Assumptions C16_route_preserves_others.
Print Assumptions C16_unmatched_not_found.
Print Assumptions C16_empty_path_not_found.
Print Assumptions C16_no_leading_slash_not_found.
Print Assumptions C16_merge_preserves.
Print Assumptions C16_merge_preserves_other_side.
Print Assumptions C16_route_layer_scope.
Print Assumptions C16_route_after_layer_unlayered.
