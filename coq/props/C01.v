(** C01 — Peer identity is cryptographically authenticated (decision logic; cryptography symbolic). *)
From AnemoVerif Require Import Base Tls.
From AnemoVerif.Proofs Require Import Tls_proofs.

(** If a connection is established with identity X attributed to the remote end, the remote end
    produced a handshake signature under X over this handshake: X is one of its keys. *)
Theorem C01_attributed_identity_is_proven : forall K fresh pin names c p x,
  producible_proof K fresh p -> accept_remote pin names c p fresh = Some x -> In x K.
Proof. exact attributed_identity_is_proven. Qed.

Theorem C01_replay_rejected : forall K fresh pin names c p,
  producible_proof K fresh p -> ~ In (c_key c) K -> accept_remote pin names c p fresh = None.
Proof. exact replay_rejected. Qed.

Theorem C01_resigned_rejected : forall pin names c p t,
  c_signed_by c <> c_key c -> accept_remote pin names c p t = None.
Proof. exact resigned_rejected. Qed.

Theorem C01_non_ed25519_rejected : forall pin names c p t,
  c_spki_alg c = OtherAlg \/ c_sig_alg c = OtherAlg \/ p_scheme p = OtherAlg ->
  accept_remote pin names c p t = None.
Proof. exact non_ed25519_rejected. Qed.

Theorem C01_expired_rejected : forall pin names c p t,
  c_valid_now c = false -> accept_remote pin names c p t = None.
Proof. exact expired_rejected. Qed.

Theorem C01_malformed_rejected : forall pin names c p t,
  c_wellformed c = false -> accept_remote pin names c p t = None.
Proof. exact malformed_rejected. Qed.

Theorem C01_client_auth_mandatory : forall names p t, accept_client names None p t = None.
Proof. exact client_auth_mandatory. Qed.

(** The attributed identity is the key of the verified certificate, whatever else happens. *)
Theorem C01_identity_is_certificate_key : forall pin names c p t x,
  accept_remote pin names c p t = Some x ->
  x = c_key c /\ verify_cert names c = true /\ verify_hs c p t = true
  /\ (forall y, pin = Some y -> y = x).
Proof. exact accept_remote_facts. Qed.

Theorem C01_identity_fixed_by_certificate : forall pin names c p1 p2 t1 t2 x y,
  accept_remote pin names c p1 t1 = Some x -> accept_remote pin names c p2 t2 = Some y -> x = y.
Proof. exact identity_fixed_by_certificate. Qed.

Theorem C01_honest_accepted : forall k n names t,
  In n names -> accept_remote None names (honest_cert k n) (honest_proof k t) t = Some k.
Proof. exact honest_accepted. Qed.

(** Certificate chains: identity and admission depend on the end-entity (first) certificate only;
    extra certificates of identities the adversary does not hold are useless. *)
Theorem C01_chain_identity_is_end_entity : forall K fresh pin names ch p x,
  producible_proof K fresh p -> accept_chain pin names ch p fresh = Some x ->
  In x K /\ exists c rest, ch = c :: rest /\ x = c_key c.
Proof. exact chain_identity_is_end_entity. Qed.

Theorem C01_chain_tail_irrelevant : forall pin names c r1 r2 p t,
  accept_chain pin names (c :: r1) p t = accept_chain pin names (c :: r2) p t.
Proof. exact chain_tail_irrelevant. Qed.

Example C01_chain_ex :   (* adversary 7 appends / prepends the certificate of victim 3 *)
  accept_chain None [5] [honest_cert 7 5; honest_cert 3 5] (honest_proof 7 99) 99 = Some 7
  /\ accept_chain None [5] [honest_cert 3 5; honest_cert 7 5] (honest_proof 7 99) 99 = None
  /\ accept_chain None [5] [] (honest_proof 7 99) 99 = None.
Proof. vm_compute. repeat split. Qed.

Example C01_ex :
  accept_remote None [5] (honest_cert 7 5) (honest_proof 7 99) 99 = Some 7
  /\ accept_remote None [5] (honest_cert 7 5) (honest_proof 8 99) 99 = None        (* wrong key *)
  /\ accept_remote None [5] (honest_cert 7 5) (honest_proof 7 98) 99 = None        (* replayed proof *)
  /\ accept_remote (Some 8) [5] (honest_cert 7 5) (honest_proof 7 99) 99 = None    (* pin mismatch *)
  /\ accept_remote None [5] (mkCert true Ed25519 7 Ed25519 8 [5] true true) (honest_proof 7 99) 99 = None.
Proof. vm_compute. repeat split. Qed.

Print Assumptions C01_attributed_identity_is_proven.
Print Assumptions C01_replay_rejected.
Print Assumptions C01_resigned_rejected.
Print Assumptions C01_non_ed25519_rejected.
Print Assumptions C01_expired_rejected.
Print Assumptions C01_malformed_rejected.
Print Assumptions C01_client_auth_mandatory.
Print Assumptions C01_identity_is_certificate_key.
Print Assumptions C01_identity_fixed_by_certificate.
Print Assumptions C01_honest_accepted.
Print Assumptions C01_chain_identity_is_end_entity.
Print Assumptions C01_chain_tail_irrelevant.
