(** C10 — Inbound admission follows peer affinity and the connection limit. *)
From AnemoVerif Require Import Base Dialer NetModel.
From AnemoVerif.Proofs Require Import NetModel_proofs.

Theorem C10_never_rejected : forall limit count, admission (Some Never) limit count = false.
Proof. exact never_rejected. Qed.

Theorem C10_high_allowed_bypass : forall aff limit count,
  aff = High \/ aff = Allowed -> admission (Some aff) limit count = true.
Proof. exact high_allowed_bypass. Qed.

Theorem C10_other_iff_below_limit : forall limit count,
  admission None limit count = true <-> limit = None \/ exists l, limit = Some l /\ count < l.
Proof. exact other_iff_below_limit. Qed.

(** Explicit and background dials are never blocked by the dialer's own limit. *)
Theorem C10_outbound_unlimited : forall w a addr pin l,
  match getn a (w_net w) with
  | Some na =>
      dial_outcome w a addr pin =
      dial_outcome (mkWorld (setn a (mkNode (n_primary na) (n_alt na) l (n_known na) (n_active na) (n_events na)) (w_net w)) (w_cut w)) a addr pin
      \/ a = addr
  | None => True
  end.
Proof. exact outbound_unlimited. Qed.

(** The count is the number of established connections of either origin, and a disconnect
    frees exactly one slot. *)
Theorem C10_count_grows_with_every_connection : forall n p,
  mem p (n_active n) = false -> len (n_active (add_peer n p)) = len (n_active n) + 1.
Proof. exact add_peer_count. Qed.

Theorem C10_slot_freed_on_disconnect : forall n p r,
  NoDup (n_active n) -> mem p (n_active n) = true ->
  len (n_active (del_peer n p r)) + 1 = len (n_active n).
Proof. exact slot_freed_on_disconnect. Qed.

(** A rejected dialer sees its connect fail; nothing is registered on either side. *)
Theorem C10_rejected_dialer_errors : forall w a addr pin na nb,
  getn a (w_net w) = Some na -> getn addr (w_net w) = Some nb ->
  admission (lookup_aff a (n_known nb)) (n_limit nb) (len (n_active nb)) = false ->
  step w (Dial a addr pin) = (w, Some DialErr).
Proof. exact rejected_dialer_errors. Qed.

Example C10_ex :
  let n k l := mkNode 1 None l k [] [] in
  let w := mkWorld [(1, n [] None); (2, n [] None); (3, n [(1, Never)] (Some 1)); (4, n [] None)] [] in
  let r1 := step w (Dial 1 3 None) in           (* Never: rejected *)
  let r2 := step w (Dial 2 3 None) in           (* unknown, 0 < 1: admitted *)
  let r3 := step (fst r2) (Dial 4 3 None) in    (* unknown, 1 < 1 fails: rejected *)
  let r4 := step (fst r2) (Dial 3 4 None) in    (* outbound from the full node: unaffected *)
  snd r1 = Some DialErr /\ snd r2 = Some (DialOk 3) /\ snd r3 = Some DialErr /\ snd r4 = Some (DialOk 4).
Proof. vm_compute. repeat split. Qed.

(** An arrival that passes admission but never becomes an established connection (the handshake after
    TLS does not complete) leaves nothing behind: no entry, no event, and above all no used slot - what
    the node admits afterwards is what it would have admitted without it. *)
Theorem C10_failed_arrival_leaves_no_trace : forall w a b,
  step w (FailedArrival a b) = (w, None).
Proof. reflexivity. Qed.

Theorem C10_failed_arrivals_do_not_count : forall w fails o,
  (forall f, In f fails -> exists a b, f = FailedArrival a b) ->
  step (run w fails) o = step w o.
Proof.
  intros w fails o H. assert (E : run w fails = w).
  { revert w. induction fails as [|f t IH]; intros w; [reflexivity|]. unfold run. cbn [fold_left].
    destruct (H f (or_introl eq_refl)) as [a [b ->]]. cbn [step fst].
    apply IH. intros g Ig. apply H. now right. }
  now rewrite E.
Qed.

Print Assumptions C10_never_rejected.
Print Assumptions C10_high_allowed_bypass.
Print Assumptions C10_other_iff_below_limit.
Print Assumptions C10_outbound_unlimited.
Print Assumptions C10_count_grows_with_every_connection.
Print Assumptions C10_slot_freed_on_disconnect.
Print Assumptions C10_rejected_dialer_errors.
Print Assumptions C10_failed_arrival_leaves_no_trace.
Print Assumptions C10_failed_arrivals_do_not_count.
