(** C09 — Connection views are eventually mutual; disconnects propagate. *)
From AnemoVerif Require Import Base Dialer NetModel.
From AnemoVerif.Proofs Require Import NetModel_proofs.

(** The listing after a quiet period longer than the idle timeout, for any prior state. *)
Theorem C09_lists_after_quiesce : forall w a b,
  lists (fst (step w Quiesce)) a b = lists w a b && negb (is_cut w a b) && lists w b a.
Proof. exact lists_after_quiesce. Qed.

Theorem C09_mutual_at_quiescence : forall w a b,
  let w' := fst (step w Quiesce) in
  lists w' a b = lists w' b a /\ (lists w' a b = true -> is_cut w' a b = false).
Proof. exact mutual_at_quiescence. Qed.

Theorem C09_disconnect_immediate : forall w a b na,
  getn a (w_net w) = Some na -> getn b (w_net w) <> None -> a <> b -> mem b (n_active na) = true ->
  let w' := fst (step w (Disconnect a b)) in
  lists w' a b = false
  /\ exists na', getn a (w_net w') = Some na' /\ n_events na' = n_events na ++ [(false, b, 0)].
Proof. exact disconnect_immediate. Qed.

Theorem C09_disconnect_propagates : forall w a b na nb,
  getn a (w_net w) = Some na -> getn b (w_net w) = Some nb -> a <> b ->
  mem b (n_active na) = true -> is_cut w a b = false ->
  lists (fst (step w (Disconnect a b))) b a = false.
Proof. exact disconnect_propagates. Qed.

(** A successful dial lists both ends (RPC to the listed peer is possible). *)
Theorem C09_dial_lists_both : forall w a addr pin w' y,
  step w (Dial a addr pin) = (w', Some (DialOk y)) -> lists w' a y = true /\ lists w' y a = true.
Proof. exact result_was_listed. Qed.

(** Work in flight is no part of the connection views: requests that stay inside a remote handler, started
    anywhere in a history, leave every listing, event log and later dial result exactly as they would be
    without them - in particular a connection closed, rejected or lost under such work is reported lost
    like an idle one (the implementation is run with such calls pending; see DESIGN 11.6, C09-e). *)
Definition is_call (o : nop) : bool := match o with Call _ _ => true | _ => false end.

Theorem C09_calls_in_flight_do_not_affect_views : forall ops w,
  run w ops = run w (filter (fun o => negb (is_call o)) ops).
Proof.
  induction ops as [|o t IH]; intros w; [reflexivity|].
  unfold run in *. cbn [fold_left filter].
  destruct o; cbn [is_call negb fold_left]; try apply IH.
Qed.

Example C09_calls_ex :
  let n := mkNode 1 None None [] [] [] in
  let w0 := mkWorld [(1, n); (2, n); (3, n)] [] in
  run w0 [Dial 1 2 None; Call 1 2; Call 2 1; Disconnect 1 2; Quiesce] = run w0 [Dial 1 2 None; Disconnect 1 2; Quiesce]
  /\ lists (run w0 [Dial 1 2 None; Call 2 1; Disconnect 1 2]) 2 1 = false.
Proof. vm_compute. split; reflexivity. Qed.

Example C09_ex :
  let n := mkNode 1 None None [] [] [] in
  let w0 := mkWorld [(1, n); (2, n); (3, n)] [] in
  let w := run w0 [Dial 1 2 None; Dial 3 1 None; Partition 1 2; Disconnect 1 2; Restart 3] in
  (* 2 still has a stale entry for 1 (link cut); 3 restarted, 1 noticed *)
  lists w 1 2 = false /\ lists w 2 1 = true /\ lists w 1 3 = false
  /\ lists (run w [Quiesce]) 2 1 = false.
Proof. vm_compute. repeat split. Qed.

Print Assumptions C09_lists_after_quiesce.
Print Assumptions C09_mutual_at_quiescence.
Print Assumptions C09_disconnect_immediate.
Print Assumptions C09_disconnect_propagates.
Print Assumptions C09_dial_lists_both.
Print Assumptions C09_calls_in_flight_do_not_affect_views.
