(** C09 — Connection views are eventually mutual; disconnects propagate. *)
From AnemoVerif Require Import Base Dialer NetModel.
From AnemoVerif.Proofs Require Import NetModel_proofs.

(** The listing after a quiet period longer than the idle timeout, for any prior state. *)
Theorem C09_lists_after_quiesce : forall w a b,
  lists (fst (step w Quiesce)) a b = lists w a b && negb (is_cut w a b) && lists w b a.
Proof. exact lists_after_quiesce. Qed.

Theorem C09_mutual_at_quiescence : forall w a b,
  let w' := fst (step w Quiesce) in
  lists w' a b = lists w' b a /\ (lists w' a b = true -> is_cut w' a b = false).
Proof. exact mutual_at_quiescence. Qed.

Theorem C09_disconnect_immediate : forall w a b na,
  getn a (w_net w) = Some na -> getn b (w_net w) <> None -> a <> b -> mem b (n_active na) = true ->
  let w' := fst (step w (Disconnect a b)) in
  lists w' a b = false
  /\ exists na', getn a (w_net w') = Some na' /\ n_events na' = n_events na ++ [(false, b, 0)].
Proof. exact disconnect_immediate. Qed.

Theorem C09_disconnect_propagates : forall w a b na nb,
  getn a (w_net w) = Some na -> getn b (w_net w) = Some nb -> a <> b ->
  mem b (n_active na) = true -> is_cut w a b = false ->
  lists (fst (step w (Disconnect a b))) b a = false.
Proof. exact disconnect_propagates. Qed.

(** A successful dial lists both ends (RPC to the listed peer is possible). *)
Theorem C09_dial_lists_both : forall w a addr pin w' y,
  step w (Dial a addr pin) = (w', Some (DialOk y)) -> lists w' a y = true /\ lists w' y a = true.
Proof. exact result_was_listed. Qed.

Example C09_ex :
  let n := mkNode 1 None None [] [] [] in
  let w0 := mkWorld [(1, n); (2, n); (3, n)] [] in
  let w := run w0 [Dial 1 2 None; Dial 3 1 None; Partition 1 2; Disconnect 1 2; Restart 3] in
  (* 2 still has a stale entry for 1 (link cut); 3 restarted, 1 noticed *)
  lists w 1 2 = false /\ lists w 2 1 = true /\ lists w 1 3 = false
  /\ lists (run w [Quiesce]) 2 1 = false.
Proof. vm_compute. repeat split. Qed.

Print Assumptions C09_lists_after_quiesce.
Print Assumptions C09_mutual_at_quiescence.
Print Assumptions C09_disconnect_immediate.
Print Assumptions C09_disconnect_propagates.
Print Assumptions C09_dial_lists_both.
