(** C05 — Simultaneous mutual dials converge on one shared connection. *)
From AnemoVerif Require Import Base ActivePeers MutualDial MutualDialLimit.
From AnemoVerif.Proofs Require Import MutualDial_proofs MutualDialLimit_proofs.

(** The two ends reach complementary decisions on the same pair of connections, in whichever
    order each saw them: the connection dialed by the greater identity is kept. *)
Theorem C05_tie_break_agreement : forall a b,
  a <> b ->
  let keepY_at_A_XthenY := tie_break a b Outbound Inbound in
  let keepX_at_A_YthenX := tie_break a b Inbound Outbound in
  let keepY_at_B_XthenY := tie_break b a Inbound Outbound in
  let keepX_at_B_YthenX := tie_break b a Outbound Inbound in
  keepY_at_A_XthenY = (a <? b) /\ keepX_at_A_YthenX = negb (a <? b)
  /\ keepY_at_B_XthenY = (a <? b) /\ keepX_at_B_YthenX = negb (a <? b).
Proof. exact tie_break_agreement. Qed.

(** The transition system uses exactly the code's tie-break and registration logic. *)
Theorem C05_model_uses_code_tie_break : forall a b n e o,
  a <> b ->
  tb (a <? b) n e o = match n with NA => tie_break a b e o | NB => tie_break b a e o end.
Proof. exact tb_is_tie_break. Qed.

Theorem C05_ready_refines_add : forall a b n c s,
  a <> b -> entry (get s n) <> Some c ->
  let own := match n with NA => a | NB => b end in
  let peer := match n with NA => b | NB => a end in
  let before := mkState (abs_conns peer n (get s n)) [] [] in
  let after := fst (ActivePeers.step before (Add own peer (idc c) (origin_at n c))) in
  conns after = abs_conns peer n (get (do_step (a <? b) s (Ready n c)) n).
Proof. exact ready_refines_add. Qed.

(** For every pair of distinct identities and every schedule of handshake completions,
    failures and close notifications: *)
Theorem C05_survivor_never_closed : forall a b s,
  a <> b -> reachable (a <? b) s -> survivor_open (a <? b) s = true.
Proof. intros a b s _. exact (survivor_never_closed (a <? b) s). Qed.

Theorem C05_convergence : forall a b s,
  a <> b -> reachable (a <? b) s -> terminal s = true -> converged (a <? b) s = true.
Proof. intros a b s _. exact (convergence (a <? b) s). Qed.

Theorem C05_schedules_terminate : forall a b ls s',
  a <> b -> run_schedule (a <? b) init ls = Some s' -> (length ls <= 8)%nat.
Proof. intros a b ls s' _. exact (schedules_terminate (a <? b) ls s'). Qed.

(** Which connection survives depends only on the two identities, never on arrival order. *)
Theorem C05_survivor_depends_only_on_ids : forall a b ls s',
  a <> b -> run_schedule (a <? b) init ls = Some s' -> terminal s' = true ->
  entry (sa s') = Some (survivor (a <? b)) /\ entry (sb s') = Some (survivor (a <? b)).
Proof. intros a b ls s' _. exact (maximal_schedule_outcome (a <? b) ls s'). Qed.

(** With a connection limit of 1 at either node, which this very pair fills (MutualDialLimit.v: the
    inbound connection is checked against the limit when it arrives, before the acknowledgement the
    dialer waits for; [placement 0/1/2] = no limit / limit at A / limit at B): every schedule still ends
    with both ends holding one and the same connection, its handlers running - one of the two dials may
    have been refused, never both dropped; every step decreases the measure (at most 12 steps). *)
Theorem C05_convergence_under_a_limit : forall a b k s,
  a <> b -> (k <? 3) = true -> lreachable (placement k) false (a <? b) s -> lterminal s = true ->
  converged_somewhere s = true.
Proof. intros a b k s _. exact (limit_convergence k (a <? b) s). Qed.

Theorem C05_limit_steps_decrease_measure : forall a b k s l,
  a <> b -> (k <? 3) = true -> lreachable (placement k) false (a <? b) s -> lenabled s l = true ->
  lmeasure (ldo_step (placement k) false (a <? b) s l) < lmeasure s.
Proof. intros a b k s l _. exact (limit_step_decreases k (a <? b) s l). Qed.

(** Without a limit the extended system agrees with the tie-break, as before. *)
Theorem C05_no_limit_survivor : forall a b s,
  a <> b -> lreachable no_limit false (a <? b) s -> lterminal s = true -> converged_on (survivor (a <? b)) s = true.
Proof. intros a b s _. exact (nolimit_convergence (a <? b) s). Qed.

(** Who can survive under a limit (compared with the implementation's survivor in every limited run). *)
Theorem C05_survivor_under_a_limit : forall a b k s c,
  a <> b -> (k <? 3) = true -> lreachable (placement k) false (a <? b) s -> lterminal s = true ->
  converged_on c s = true -> In c (possible_survivors (placement k) (a <? b)).
Proof. intros a b k s c _. exact (terminal_survivor_is_possible k (a <? b) s c). Qed.

Theorem C05_possible_survivors_table :
  possible_survivors no_limit true = [CY] /\ possible_survivors no_limit false = [CX]
  /\ possible_survivors (limit_at NA) true = [CX; CY] /\ possible_survivors (limit_at NA) false = [CX]
  /\ possible_survivors (limit_at NB) true = [CY] /\ possible_survivors (limit_at NB) false = [CX; CY].
Proof. exact possible_survivors_table. Qed.

(** Checking the limit once more after the listener's handshake, counting the peer's own existing entry
    (seeded change C05-f), is refuted by the model: a schedule after which neither end holds a connection. *)
Theorem C05_late_recheck_refuted :
  exists ls s, lrun (limit_at NA) true true linit ls = Some s
               /\ lterminal s = true /\ lentry (la s) = None /\ lentry (lb s) = None.
Proof. exact late_recheck_refuted. Qed.

Example C05_ex_schedule :   (* A < B: both register their own dial first, Y survives *)
  match run_schedule true init [Ready NA CX; Ready NB CY; Ready NB CX; Ready NA CY; Notice NA CX] with
  | Some s => terminal s = true /\ entry (sa s) = Some CY /\ entry (sb s) = Some CY
  | None => False
  end.
Proof. vm_compute. repeat split. Qed.

Print Assumptions C05_tie_break_agreement.
Print Assumptions C05_model_uses_code_tie_break.
Print Assumptions C05_ready_refines_add.
Print Assumptions C05_survivor_never_closed.
Print Assumptions C05_convergence.
Print Assumptions C05_schedules_terminate.
Print Assumptions C05_survivor_depends_only_on_ids.
Print Assumptions C05_convergence_under_a_limit.
Print Assumptions C05_limit_steps_decrease_measure.
Print Assumptions C05_no_limit_survivor.
Print Assumptions C05_survivor_under_a_limit.
Print Assumptions C05_possible_survivors_table.
Print Assumptions C05_late_recheck_refuted.
