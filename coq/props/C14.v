(** C14 — Networks with different names never connect. *)
From AnemoVerif Require Import Base Dialer NetModel Tls.
From AnemoVerif.Proofs Require Import NetModel_proofs Tls_proofs.

Theorem C14_accepted_names : forall b name,
  accepts_name b name = true <-> name = n_primary b \/ n_alt b = Some name.
Proof. exact accepts_iff. Qed.

(** A connection is established only if the dialer's primary name is one the listener accepts. *)
Theorem C14_connect_requires_accepted_name : forall w a addr pin y,
  dial_outcome w a addr pin = DialOk y ->
  exists na nb, getn a (w_net w) = Some na /\ getn addr (w_net w) = Some nb
                /\ accepts_name nb (n_primary na) = true.
Proof. exact connect_requires_accepted_name. Qed.

Theorem C14_disjoint_never_connect : forall w a addr pin na nb,
  getn a (w_net w) = Some na -> getn addr (w_net w) = Some nb ->
  accepts_name nb (n_primary na) = false -> dial_outcome w a addr pin = DialErr.
Proof. exact disjoint_never_connect. Qed.

(** An adversarial dialer choosing claimed name and certificate name independently. *)
Theorem C14_foreign_certificate_rejected : forall b sni cert_name,
  accepts_name b cert_name = false -> adversarial_hello_accepted b sni cert_name = false.
Proof. exact foreign_certificate_rejected. Qed.

Theorem C14_unknown_sni_rejected : forall b sni cert_name,
  accepts_name b sni = false -> adversarial_hello_accepted b sni cert_name = false.
Proof. exact unknown_sni_rejected. Qed.

(** Verifier level: a certificate valid for none of the accepted names is rejected. *)
Theorem C14_wrong_name_certificate_rejected : forall pin names c p t,
  (forall n, In n names -> ~ In n (c_names c)) -> accept_remote pin names c p t = None.
Proof. exact wrong_name_rejected. Qed.

(** Chains: a dialer whose own (end-entity) certificate is valid for none of the accepted names is rejected
    whatever certificates follow it - somebody else's valid certificate for the listener's network, put
    behind one's own, buys nothing (seeded change C14-e made exactly that an admission ticket). *)
Theorem C14_wrong_name_chain_rejected : forall pin names c rest p t,
  (forall n, In n names -> ~ In n (c_names c)) -> accept_chain pin names (c :: rest) p t = None.
Proof. intros pin names c rest p t H. cbn [accept_chain]. now apply wrong_name_rejected. Qed.

Example C14_chain_ex :   (* dialer 7 holds a certificate for network 30 and appends 9's certificate for network 10 *)
  accept_chain None [10] [honest_cert 7 30; honest_cert 9 10] (honest_proof 7 99) 99 = None
  /\ accept_chain None [10] [honest_cert 7 10; honest_cert 9 30] (honest_proof 7 99) 99 = Some 7.
Proof. vm_compute. split; reflexivity. Qed.

Example C14_ex :
  let n p a := mkNode p a None [] [] [] in
  let w := mkWorld [(1, n 10 None); (2, n 20 (Some 10)); (3, n 20 None)] [] in
  dial_outcome w 1 2 None = DialOk 2      (* 1's primary 10 is 2's alternate *)
  /\ dial_outcome w 2 1 None = DialErr    (* 2 dials with its primary 20, which 1 does not accept *)
  /\ dial_outcome w 1 3 None = DialErr /\ dial_outcome w 3 2 None = DialOk 2.
Proof. vm_compute. repeat split. Qed.

Print Assumptions C14_accepted_names.
Print Assumptions C14_connect_requires_accepted_name.
Print Assumptions C14_disjoint_never_connect.
Print Assumptions C14_foreign_certificate_rejected.
Print Assumptions C14_unknown_sni_rejected.
Print Assumptions C14_wrong_name_certificate_rejected.
Print Assumptions C14_wrong_name_chain_rejected.
