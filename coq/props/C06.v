(** C06 — A connected hostile peer cannot crash or stall the network (logic; Rust panic-freedom
    is exercised by the correspondence runs, not proved). *)
From AnemoVerif Require Import Base Utf8 Bincode Status Wire Rpc Shutdown.
From AnemoVerif.Proofs Require Import Rpc_proofs Shutdown_proofs.

(** Whatever bytes a stream carries, the server either keeps reading, starts the handler with a
    request that really decodes from those bytes, or ends that stream's task with an error. *)
Theorem C06_errors_confined : forall max handler st st',
  sstep max handler st TryDecode = Some st' ->
  (exists q, ss st' = SQueued q /\ exists rest, dec_request max (firstn (delivered st) (wire st)) = Ok (q, rest))
  \/ ss st' = SFailed.
Proof. exact errors_confined. Qed.

(** Hostile streams change only themselves ... *)
Theorem C06_hostile_steps_local : forall max handler c i l c' j,
  cstep max handler c i l = Some c' -> j <> i -> nth_error c' j = nth_error c j.
Proof. exact no_crosstalk. Qed.

(** ... so honest RPCs sharing the connection with arbitrary other streams keep their results. *)
Theorem C06_honest_rpcs_keep_pairing : forall max handler sched ws c' i st req,
  crun max handler (map open_stream ws) sched = Some c' -> nth_error c' i = Some st ->
  honest max req st ->
  (forall q, ss st = SRunning q -> q = strip_req req)
  /\ (forall r, cs st = CGot (Ok r) -> wf_response max (handler (strip_req req)) = true ->
                r = strip_resp (handler (strip_req req))).
Proof. exact pairing. Qed.

(** The manager leaves its event loop only when asked to shut down (or when its last handle is
    dropped): connections, disconnects, failing handshakes, handlers exiting and request tasks
    ending in any order keep it running. *)
Theorem C06_manager_survives : forall ls s,
  forallb benign ls = true -> run init ls = Some s -> ph s = MLoop.
Proof. exact manager_stays_in_loop. Qed.

Print Assumptions C06_errors_confined.
Print Assumptions C06_hostile_steps_local.
Print Assumptions C06_honest_rpcs_keep_pairing.
Print Assumptions C06_manager_survives.
