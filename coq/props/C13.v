(** C13 — Background dialing: who is dialed, how often, and that it succeeds. *)
From AnemoVerif Require Import Base Dialer.
From AnemoVerif.Proofs Require Import Dialer_proofs.

(** Who is dialed at a connectivity check. *)
Theorem C13_only_eligible_dialed : forall c now res known active out s st dials elig p a,
  check c now res known active out s = (st, dials, elig) -> In (p, a) dials ->
  exists pi, In pi known /\ pi_id pi = p /\ pi_aff pi = High /\ p <> own c /\ pi_addrs pi <> []
    /\ ~ In p active
    /\ ~ In p (fst (drain c now res (pending s) (backoff s)))
    /\ (forall b, bget p (snd (drain c now res (pending s) (backoff s))) = Some b -> b_deadline b < now).
Proof. exact only_eligible_dialed. Qed.

Theorem C13_at_most_one_pending_per_peer : forall c now res known active out s st dials elig,
  NoDup (pending s) -> NoDup (map pi_id known) ->
  check c now res known active out s = (st, dials, elig) -> NoDup (pending st).
Proof. exact pending_nodup. Qed.

Theorem C13_cap_respected : forall c now res known active out s st dials elig,
  check c now res known active out s = (st, dials, elig) ->
  len dials <= max_outstanding c - out /\ (out <= max_outstanding c -> out + len dials <= max_outstanding c).
Proof. exact cap_respected. Qed.

(** It keeps dialing: an eligible peer is dialed at the very check at which the cap does not bind. *)
Theorem C13_eligible_is_dialed : forall c now res known active out s st dials elig pi,
  check c now res known active out s = (st, dials, elig) ->
  In pi known ->
  eligible c now active (fst (drain c now res (pending s) (backoff s)))
           (snd (drain c now res (pending s) (backoff s))) pi = true ->
  len elig <= max_outstanding c - out ->
  In (pi_id pi, pick_addr (snd (drain c now res (pending s) (backoff s))) pi) dials.
Proof. exact eligible_is_dialed. Qed.

Theorem C13_eligible_characterisation : forall c now active pend bk pi,
  pi_aff pi = High -> pi_id pi <> own c -> pi_addrs pi <> [] ->
  ~ In (pi_id pi) active -> ~ In (pi_id pi) pend ->
  (forall b, bget (pi_id pi) bk = Some b -> b_deadline b < now) ->
  eligible c now active pend bk pi = true.
Proof. exact eligible_without_backoff. Qed.

(** Backoff: after the k-th consecutive failure, noticed at [now], the deadline is
    now + min(max, (k+1-th count) * step) and no attempt is made up to and including it. *)
Theorem C13_failure_sets_deadline : forall c now res pend bk p k,
  NoDup pend -> In p pend -> res p = Some false -> attempts_of bk p = k ->
  k + 1 <= u32_max -> backoff_step c * (k + 1) <= dur_max ->
  exists b, bget p (snd (drain c now res pend bk)) = Some b
            /\ b_attempts b = k + 1
            /\ b_deadline b = now + N.min (max_backoff c) ((k + 1) * backoff_step c).
Proof. exact failure_sets_deadline. Qed.

Theorem C13_backoff_spacing : forall c now' active pend bk pi b,
  bget (pi_id pi) bk = Some b -> now' <= b_deadline b ->
  eligible c now' active pend bk pi = false.
Proof. exact backoff_spacing. Qed.

Theorem C13_backoff_never_exceeds_max : forall c k, backoff_duration c k <= max_backoff c.
Proof. exact backoff_duration_le_max. Qed.

(** Attempts rotate through the peer's addresses in order. *)
Theorem C13_rotation : forall bk pi j,
  attempts_of bk (pi_id pi) = j -> pi_addrs pi <> [] ->
  pick_addr bk pi = nth (N.to_nat (j mod len (pi_addrs pi))) (pi_addrs pi) 0
  /\ In (pick_addr bk pi) (pi_addrs pi).
Proof. exact rotation. Qed.

(** Success clears the state, so a later loss is redialed at once from the first address. *)
Theorem C13_redial_after_success : forall c now res pend bk p,
  NoDup pend -> In p pend -> res p = Some true ->
  attempts_of (snd (drain c now res pend bk)) p = 0
  /\ bget p (snd (drain c now res pend bk)) = None.
Proof. exact redial_after_success. Qed.

(** Timing over the tick sequence T0 + i*P. *)
Theorem C13_connects_within_one_period : forall t0 p t,
  0 < p -> t0 <= t ->
  t <= first_tick_at_or_after t0 p t /\ first_tick_at_or_after t0 p t < t + p
  /\ exists i, first_tick_at_or_after t0 p t = t0 + i * p.
Proof. exact first_tick_bounds. Qed.

Theorem C13_reconnect_after_k_failures : forall t0 p r bo,
  0 < p -> t0 <= r ->
  let noticed := first_tick_at_or_after t0 p r in
  let deadline := noticed + bo in
  let start := first_tick_after t0 p deadline in
  deadline < start /\ start <= r + bo + 2 * p.
Proof. exact reconnect_bound. Qed.

(** The node's connection limit plays no part in background dialing (the limit governs inbound
    admission, C10): a check depends on the connected set only through whether the known peers
    themselves are connected; connections to anybody else, however many, change nothing. *)
Theorem C13_other_connections_irrelevant : forall c now res known active active' out s,
  (forall pi, In pi known -> memN (pi_id pi) active = memN (pi_id pi) active') ->
  check c now res known active out s = check c now res known active' out s.
Proof. exact check_other_connections_irrelevant. Qed.

Example C13_ex :
  let c := mkCfg 1 10 25 2 in
  let known := [mkPeer 2 High [100; 101]; mkPeer 3 Allowed [7]; mkPeer 1 High [9]; mkPeer 4 High []; mkPeer 5 High [50]] in
  let '(s1, d1, _) := check c 0 (fun _ => None) known [] 0 (mkD [] []) in
  let '(s2, d2, _) := check c 100 (fun p => if p =? 2 then Some false else Some true) known [5] 0 s1 in
  let '(s3, d3, _) := check c 105 (fun _ => None) known [5] 0 s2 in
  let '(s4, d4, _) := check c 111 (fun _ => None) known [5] 0 s3 in
  d1 = [(2, 100); (5, 50)] /\ d2 = [] /\ d3 = [] /\ d4 = [(2, 101)].
Proof. vm_compute. repeat split. Qed.

Print Assumptions C13_only_eligible_dialed.
Print Assumptions C13_at_most_one_pending_per_peer.
Print Assumptions C13_cap_respected.
Print Assumptions C13_eligible_is_dialed.
Print Assumptions C13_eligible_characterisation.
Print Assumptions C13_failure_sets_deadline.
Print Assumptions C13_backoff_spacing.
Print Assumptions C13_backoff_never_exceeds_max.
Print Assumptions C13_rotation.
Print Assumptions C13_redial_after_success.
Print Assumptions C13_connects_within_one_period.
Print Assumptions C13_reconnect_after_k_failures.
Print Assumptions C13_other_connections_irrelevant.
