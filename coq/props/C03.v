(** C03 — Dialing with an expected identity only ever reaches that identity. *)
From AnemoVerif Require Import Base Dialer NetModel Tls.
From AnemoVerif.Proofs Require Import NetModel_proofs Tls_proofs.

(** Network level. *)
Theorem C03_pinned_dial_sound : forall w a addr x y,
  dial_outcome w a addr (Some x) = DialOk y -> y = x /\ y = addr.
Proof. exact pinned_dial_sound. Qed.

Theorem C03_wrong_party_never_registered : forall w a addr x,
  x <> addr -> step w (Dial a addr (Some x)) = (w, Some DialErr).
Proof. exact wrong_party_never_registered. Qed.

Theorem C03_result_is_reached_party : forall w a addr pin y,
  dial_outcome w a addr pin = DialOk y -> y = addr.
Proof. exact result_is_reached_party. Qed.

Theorem C03_result_was_listed : forall w a addr pin w' y,
  step w (Dial a addr pin) = (w', Some (DialOk y)) -> lists w' a y = true /\ lists w' y a = true.
Proof. exact result_was_listed. Qed.

(** Handshake level: with a pin, the attributed identity is the pin, and an answering party
    that lacks the pinned key (e.g. an impostor replaying the certificate) is rejected. *)
Theorem C03_pinned_identity : forall pin names c p t x,
  accept_remote (Some pin) names c p t = Some x -> x = pin.
Proof. exact pinned_identity. Qed.

Theorem C03_impostor_rejected : forall K fresh pin names c p,
  producible_proof K fresh p -> ~ In (c_key c) K -> accept_remote pin names c p fresh = None.
Proof. exact replay_rejected. Qed.

Print Assumptions C03_pinned_dial_sound.
Print Assumptions C03_wrong_party_never_registered.
Print Assumptions C03_result_is_reached_party.
Print Assumptions C03_result_was_listed.
Print Assumptions C03_pinned_identity.
Print Assumptions C03_impostor_rejected.
