(** C02 — RPC delivery integrity, pairing and at-most-once handling. *)
From AnemoVerif Require Import Base Utf8 Bincode Status Wire Rpc RpcTrace.
From AnemoVerif.Proofs Require Import Rpc_proofs RpcTrace_proofs.

(** For every number of streams on a connection, whatever bytes each carries, every schedule of
    writes (any chunking), deliveries, handler completions (any order), reads and abandonments: *)

(** no request is delivered to a handler more than once; *)
Theorem C02_at_most_once : forall max handler sched ws c',
  crun max handler (map open_stream ws) sched = Some c' ->
  Forall (fun st => (invocations st <= 1)%nat) c'.
Proof. exact at_most_once. Qed.

(** on a stream carrying the encoding of a well-formed request, the handler sees exactly that
    request and the caller gets exactly the response the handler produced for it; *)
Theorem C02_pairing : forall max handler sched ws c' i st req,
  crun max handler (map open_stream ws) sched = Some c' -> nth_error c' i = Some st ->
  honest max req st ->
  (forall q, ss st = SRunning q -> q = strip_req req)
  /\ (forall r, cs st = CGot (Ok r) -> wf_response max (handler (strip_req req)) = true ->
                r = strip_resp (handler (strip_req req))).
Proof. exact pairing. Qed.

(** a step of one stream leaves every other stream exactly as it was (nothing is shared). *)
Theorem C02_no_crosstalk : forall max handler c i l c' j,
  cstep max handler c i l = Some c' -> j <> i -> nth_error c' j = nth_error c j.
Proof. exact no_crosstalk. Qed.

(** Trace acceptance (the executed tie of Rpc.v): the per-RPC events recorded at both ends of a
    connection (request written / finished, request decoded, handler returned, response finished,
    response read, either side ending early) stand for model labels chosen by the stream's state
    alone; a trace that [RpcTrace.erun] accepts is a run of the model, so the theorems above hold of
    the states it reaches. *)
Theorem C02_accepted_trace_is_model_run : forall max handler es c n c',
  erun max handler c n es = (c', None) -> crun max handler c (sched_of max handler c es) = Some c'.
Proof. exact erun_is_crun. Qed.

Example C02_trace_ex :   (* a completed call and one abandoned while its handler runs, interleaved *)
  let h (q : request) := mkResponse 1 Success [] (rq_body q) [] in
  match enc_request 100 (mkRequest 1 [47] [] [1; 2] []), enc_request 100 (mkRequest 1 [47] [] [9] []) with
  | Ok w1, Ok w2 =>
      match erun 100 h [open_stream w1; open_stream w2] 0
              [(0%nat, EWritten); (1%nat, EWritten); (1%nat, EFin); (1%nat, EDecoded); (0%nat, EFin); (0%nat, EDecoded);
               (1%nat, ECallerEnd); (0%nat, EReturned); (1%nat, EServerEnd); (0%nat, EFinished); (0%nat, EResponse); (0%nat, EServerEnd)] with
      | ([s1; s2], None) =>
          cs s1 = CGot (Ok (mkResponse 1 Success [] [1; 2] [])) /\ ss s2 = SDropped /\ abandoned s2 = true
          /\ invocations s1 = 1%nat /\ invocations s2 = 1%nat
      | _ => False
      end
  | _, _ => False
  end.
Proof. vm_compute. repeat split. Qed.

Example C02_ex :
  let h (q : request) := mkResponse 1 Success [] (rq_body q ++ rq_body q) [] in
  let r1 := mkRequest 1 [47] [] [1; 2] [] in
  let r2 := mkRequest 1 [47] [] [9] [] in
  match enc_request 100 r1, enc_request 100 r2 with
  | Ok w1, Ok w2 =>
      match crun 100 h [open_stream w1; open_stream w2]
              [(0%nat, Write 5); (1%nat, Write 1000); (1%nat, Fin); (1%nat, Recv 1000); (0%nat, Write 1000);
               (1%nat, TryDecode); (0%nat, Fin); (0%nat, Recv 3); (0%nat, Recv 1000); (0%nat, TryDecode);
               (0%nat, Dispatch); (1%nat, Dispatch); (0%nat, HandlerReturn); (1%nat, HandlerReturn); (0%nat, SFinish); (1%nat, SFinish);
               (1%nat, CRead); (0%nat, CRead)] with
      | Some [s1; s2] =>
          cs s1 = CGot (Ok (mkResponse 1 Success [] [1; 2; 1; 2] []))
          /\ cs s2 = CGot (Ok (mkResponse 1 Success [] [9; 9] []))
          /\ invocations s1 = 1%nat /\ invocations s2 = 1%nat
      | _ => False
      end
  | _, _ => False
  end.
Proof. vm_compute. repeat split. Qed.

Print Assumptions C02_at_most_once.
Print Assumptions C02_pairing.
Print Assumptions C02_no_crosstalk.
Print Assumptions C02_accepted_trace_is_model_run.
