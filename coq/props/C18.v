(** C18 — Per-peer in-flight limit holds and never leaks capacity. *)
From AnemoVerif Require Import Base Inflight.
From AnemoVerif.Proofs Require Import Inflight_proofs.

(** For every interleaving of arrivals, completions, failures and cancellations from any peers,
    every limit (0 included) and both modes: *)
Theorem C18_gauge_le_max : forall m max evs p, gauge max p (run m max evs) <= max.
Proof. exact gauge_le_max. Qed.

Theorem C18_permits_conserved : forall m max evs p,
  free (get max p (run m max evs)) + len (holding (get max p (run m max evs))) = max.
Proof. exact permits_conserved. Qed.

Theorem C18_no_idle_permit_while_waiting : forall m max evs p,
  waiting (get max p (run m max evs)) <> [] -> free (get max p (run m max evs)) = 0.
Proof. exact no_idle_permit_while_waiting. Qed.

Theorem C18_quiescent_all_free : forall m max evs p,
  holding (get max p (run m max evs)) = [] -> free (get max p (run m max evs)) = max.
Proof. exact quiescent_all_free. Qed.

Theorem C18_quiescent_nobody_waits : forall m max evs p,
  0 < max -> holding (get max p (run m max evs)) = [] -> waiting (get max p (run m max evs)) = [].
Proof. exact quiescent_nobody_waits. Qed.

Theorem C18_excess_waits_or_429 : forall m s r,
  (0 < free s -> snd (p_arrive m s r) = Entered [r]) /\
  (free s = 0 -> match m with
                 | Block => p_arrive m s r = (mkP 0 (holding s) (waiting s ++ [r]), Queued)
                 | ReturnError => p_arrive m s r = (s, Rejected)
                 end).
Proof. exact arrive_outcome. Qed.

Theorem C18_peers_independent : forall m max st e q,
  q <> peer_of e -> get max q (fst (step m max st e)) = get max q st.
Proof. exact peers_independent. Qed.

Theorem C18_release_grants_fifo_head : forall s r w ws,
  waiting s = w :: ws ->
  p_release s r = (mkP (free s) (remove1 r (holding s) ++ [w]) ws, Entered [w]).
Proof. exact release_grants_fifo_head. Qed.

Theorem C18_fifo_progress : forall pre s w post rs,
  waiting s = pre ++ w :: post -> length rs = S (length pre) ->
  In w (holding (releases s rs)).
Proof. exact fifo_progress. Qed.

Example C18_ex :
  let st := run Block 2 [Arrive 1 10; Arrive 1 11; Arrive 1 12; Arrive 2 20; Cancel 1 10; Finish 1 11] in
  holding (get 2 1 st) = [12] /\ waiting (get 2 1 st) = [] /\ free (get 2 1 st) = 1 /\
  holding (get 2 2 st) = [20].
Proof. vm_compute. repeat split. Qed.

Print Assumptions C18_gauge_le_max.
Print Assumptions C18_permits_conserved.
Print Assumptions C18_no_idle_permit_while_waiting.
Print Assumptions C18_quiescent_all_free.
Print Assumptions C18_quiescent_nobody_waits.
Print Assumptions C18_excess_waits_or_429.
Print Assumptions C18_peers_independent.
Print Assumptions C18_release_grants_fifo_head.
Print Assumptions C18_fifo_progress.
