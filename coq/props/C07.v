(** C07 — Wire format: exact layout, lossless round trip, total decoder.
    This file contains only statements; every proof is [exact <lemma>]. *)
From AnemoVerif Require Import Base Utf8 Bincode Status Wire.
From AnemoVerif.Proofs Require Import Base_proofs Bincode_proofs Wire_proofs.
From Coq Require Import Permutation.

(** 1. Lossless round trip, for every order in which the header hash map is serialised and
       with anything following on the stream; local extensions never arrive. *)
Theorem C07_roundtrip_request : forall max r h' rest,
  wf_request max r = true -> NoDup (map fst (rq_headers r)) -> Permutation (rq_headers r) h' ->
  exists bs r',
    enc_request max (mkRequest (rq_version r) (rq_route r) h' (rq_body r) (rq_ext r)) = Ok bs
    /\ dec_request max (bs ++ rest) = Ok (r', rest)
    /\ rq_version r' = rq_version r /\ rq_route r' = rq_route r /\ rq_body r' = rq_body r
    /\ rq_ext r' = []
    /\ forall k, lookup k (rq_headers r') = lookup k (rq_headers r).
Proof. exact request_roundtrip_perm. Qed.

Theorem C07_roundtrip_response : forall max r h' rest,
  wf_response max r = true -> NoDup (map fst (rs_headers r)) -> Permutation (rs_headers r) h' ->
  exists bs r',
    enc_response max (mkResponse (rs_version r) (rs_status r) h' (rs_body r) (rs_ext r)) = Ok bs
    /\ dec_response max (bs ++ rest) = Ok (r', rest)
    /\ rs_version r' = rs_version r /\ rs_status r' = rs_status r /\ rs_body r' = rs_body r
    /\ rs_ext r' = []
    /\ forall k, lookup k (rs_headers r') = lookup k (rs_headers r).
Proof. exact response_roundtrip_perm. Qed.

(** 2. The byte layout. *)
Theorem C07_layout_request : forall max r bs,
  rq_version r = 1 -> enc_request max r = Ok bs ->
  let H := le64 (len (rq_route r)) ++ rq_route r
           ++ le64 (len (rq_headers r)) ++ layout_pairs (rq_headers r) in
  bs = [97; 110; 101; 109; 111] ++ [0; 1] ++ [0]
       ++ be32 (len H) ++ H ++ be32 (len (rq_body r)) ++ rq_body r.
Proof. exact request_layout. Qed.

Theorem C07_layout_response : forall max r bs,
  rs_version r = 1 -> enc_response max r = Ok bs ->
  let H := le_bytes 2 (status_to_u16 (rs_status r))
           ++ le64 (len (rs_headers r)) ++ layout_pairs (rs_headers r) in
  bs = [97; 110; 101; 109; 111] ++ [0; 1] ++ [0]
       ++ be32 (len H) ++ H ++ be32 (len (rs_body r)) ++ rs_body r.
Proof. exact response_layout. Qed.

(** 3. Every strict prefix of a valid message is rejected. *)
Theorem C07_strict_prefix_rejected_request : forall max r bs n,
  wf_request max r = true -> enc_request max r = Ok bs -> (n < length bs)%nat ->
  dec_request max (firstn n bs) = Err EShort.
Proof. exact request_prefix_rejected. Qed.

Theorem C07_strict_prefix_rejected_response : forall max r bs n,
  wf_response max r = true -> enc_response max r = Ok bs -> (n < length bs)%nat ->
  dec_response max (firstn n bs) = Err EShort.
Proof. exact response_prefix_rejected. Qed.

(** 4. Any other preamble, any unknown version, any unknown status code is rejected. *)
Theorem C07_bad_preamble_rejected : forall a b c d e v1 v0 z rest,
  [a; b; c; d; e] <> magic \/ z <> 0 ->
  parse_preamble (a :: b :: c :: d :: e :: v1 :: v0 :: z :: rest) = Err EPreamble.
Proof. exact bad_preamble_rejected. Qed.

Theorem C07_short_preamble_rejected : forall s,
  (length s < 8)%nat -> parse_preamble s = Err EShort.
Proof. exact parse_preamble_short. Qed.

Theorem C07_unknown_version_rejected : forall v rest,
  v < 65536 -> v <> 1 -> parse_preamble (preamble v ++ rest) = Err EVersion.
Proof. exact unknown_version_rejected. Qed.

Theorem C07_version_new_only_one : forall v, (exists x, version_new v = Ok x) <-> v = 1.
Proof. exact version_new_only_one. Qed.

Theorem C07_unknown_status_rejected : forall max code h body rest,
  code < 65536 -> status_new code = None -> Wire.pairs_utf8 h = true ->
  len (enc_u16 code ++ enc_map h) <= max -> max <= u32_max ->
  dec_response max (preamble 1 ++ (be_bytes 4 (len (enc_u16 code ++ enc_map h))
                                     ++ (enc_u16 code ++ enc_map h)) ++ body ++ rest)
  = Err EStatus.
Proof. exact unknown_status_rejected. Qed.

Theorem C07_status_roundtrip : forall s, status_new (status_to_u16 s) = Some s.
Proof. exact status_new_to_u16. Qed.

Theorem C07_status_new_sound : forall c s, status_new c = Some s -> c = status_to_u16 s.
Proof. exact status_new_some. Qed.

(** 5. Local extensions never travel. *)
Theorem C07_ext_never_travels_request : forall max r e,
  enc_request max (mkRequest (rq_version r) (rq_route r) (rq_headers r) (rq_body r) e)
  = enc_request max r.
Proof. exact ext_never_travels_req. Qed.

Theorem C07_ext_never_travels_response : forall max r e,
  enc_response max (mkResponse (rs_version r) (rs_status r) (rs_headers r) (rs_body r) e)
  = enc_response max r.
Proof. exact ext_never_travels_resp. Qed.

(** 6. The map decoder's recursion fuel never decides an outcome. *)
Theorem C07_decoder_fuel_irrelevant : forall f1 f2 c s,
  (length s <= f1)%nat -> (length s <= f2)%nat -> dec_pairs f1 c s = dec_pairs f2 c s.
Proof. exact dec_pairs_fuel. Qed.

(** Non-vacuity and golden vectors (bytes produced by the pinned implementation). *)
Definition ex_req : request :=
  mkRequest 1 [47; 102; 111; 111] [([97], [98]); ([99], [100])] [104; 101; 108; 108; 111] [9].

Example C07_ex_wf : wf_request (eff_max None) ex_req = true /\ NoDup (map fst (rq_headers ex_req)).
Proof. split; [vm_compute; reflexivity|]. repeat constructor; cbn; intuition discriminate. Qed.

Example C07_golden_request :
  enc_request (eff_max None) ex_req =
  Ok [97;110;101;109;111;0;1;0; 0;0;0;56;
      4;0;0;0;0;0;0;0; 47;102;111;111; 2;0;0;0;0;0;0;0;
      1;0;0;0;0;0;0;0; 97; 1;0;0;0;0;0;0;0; 98;
      1;0;0;0;0;0;0;0; 99; 1;0;0;0;0;0;0;0; 100;
      0;0;0;5; 104;101;108;108;111].
Proof. vm_compute. reflexivity. Qed.

Example C07_golden_response :
  enc_response (eff_max None) (mkResponse 1 NotFound [([97], [98])] [] []) =
  Ok [97;110;101;109;111;0;1;0; 0;0;0;28; 148;1; 1;0;0;0;0;0;0;0;
      1;0;0;0;0;0;0;0; 97; 1;0;0;0;0;0;0;0; 98; 0;0;0;0].
Proof. vm_compute. reflexivity. Qed.

Example C07_ex_prefix : dec_request (eff_max None) (firstn 30 [97;110;101;109;111;0;1;0; 0;0;0;56;
      4;0;0;0;0;0;0;0; 47;102;111;111; 2;0;0;0;0;0;0;0;
      1;0;0;0;0;0;0;0; 97; 1;0;0;0;0;0;0;0; 98]) = Err EShort.
Proof. vm_compute. reflexivity. Qed.

Print Assumptions C07_roundtrip_request.
Print Assumptions C07_roundtrip_response.
Print Assumptions C07_layout_request.
Print Assumptions C07_layout_response.
Print Assumptions C07_strict_prefix_rejected_request.
Print Assumptions C07_strict_prefix_rejected_response.
Print Assumptions C07_bad_preamble_rejected.
Print Assumptions C07_short_preamble_rejected.
Print Assumptions C07_unknown_version_rejected.
Print Assumptions C07_version_new_only_one.
Print Assumptions C07_unknown_status_rejected.
Print Assumptions C07_status_roundtrip.
Print Assumptions C07_status_new_sound.
Print Assumptions C07_ext_never_travels_request.
Print Assumptions C07_ext_never_travels_response.
Print Assumptions C07_decoder_fuel_irrelevant.
