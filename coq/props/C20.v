(** C20 — Authorization layer gates every request and the allow-list is exact. *)
From AnemoVerif Require Import Base AuthLayer.
From AnemoVerif.Proofs Require Import AuthLayer_proofs.

Theorem C20_invoked_iff_accepted : forall auth r,
  (exists r', call auth r = Invoke r') <-> snd (auth r) = None.
Proof. exact invoked_iff_accepted. Qed.

Theorem C20_refusal_is_authorizers_response : forall auth r st p,
  snd (auth r) = Some (st, p) -> call auth r = Reply st p.
Proof. exact refusal_is_authorizers_response. Qed.

Theorem C20_reply_only_from_authorizer : forall auth r st p,
  call auth r = Reply st p -> snd (auth r) = Some (st, p).
Proof. exact reply_only_from_authorizer. Qed.

Theorem C20_allow_list_exact : forall l r,
  match a_sender r with
  | None => call (allowed_peers l) r = Reply 500 0
  | Some p => (In p l -> call (allowed_peers l) r = Invoke r)
              /\ (~ In p l -> call (allowed_peers l) r = Reply 404 0)
  end.
Proof. exact allow_list_exact. Qed.

(** Any history of calls: every request gets exactly one outcome, determined by that request alone,
    and the service sees exactly the accepted requests, in order. *)
Theorem C20_calls_independent : forall auth reqs i d,
  (i < length reqs)%nat -> nth i (run auth reqs) (call auth d) = call auth (nth i reqs d).
Proof. exact calls_independent. Qed.

Theorem C20_one_outcome_per_request : forall auth reqs, length (run auth reqs) = length reqs.
Proof. exact length_run. Qed.

Theorem C20_invocations_exact : forall auth reqs,
  invocations (run auth reqs) =
  map (fun r => fst (auth r)) (filter (fun r => match snd (auth r) with None => true | Some _ => false end) reqs).
Proof. exact invocations_exact. Qed.

Example C20_ex :
  run (allowed_peers [3; 5]) [mkAreq (Some 3) 1; mkAreq (Some 4) 2; mkAreq None 3; mkAreq (Some 5) 4]
  = [Invoke (mkAreq (Some 3) 1); Reply 404 0; Reply 500 0; Invoke (mkAreq (Some 5) 4)].
Proof. reflexivity. Qed.

Print Assumptions C20_invoked_iff_accepted.
Print Assumptions C20_refusal_is_authorizers_response.
Print Assumptions C20_reply_only_from_authorizer.
Print Assumptions C20_allow_list_exact.
Print Assumptions C20_calls_independent.
Print Assumptions C20_one_outcome_per_request.
Print Assumptions C20_invocations_exact.
