(** Extraction of the executable models to OCaml. Only [ExtrOcamlBasic] is used: bool, option,
    unit, list, prod, sumbool and sumor map to the OCaml types; N, positive, Z and nat stay the
    extracted inductive types. No [Extract Constant], no further [Extract Inductive]. *)
From Coq Require Import Extraction ExtrOcamlBasic.
From AnemoVerif Require Import Base Utf8 Bincode Status Wire SizeLimit Timeout AuthLayer Inflight Gcra Router Codegen ActivePeers MutualDial MutualDialLimit Dialer NetModel Tls Shutdown ShutdownTrace Rpc RpcTrace.

Extraction Language OCaml.

Separate Extraction
  Base.take Base.lookup Base.le_val Base.le_bytes
  Utf8.utf8_valid
  Status.status_new Status.status_to_u16 Status.is_success
  Wire.version_new Wire.preamble Wire.parse_preamble Wire.eff_max
  Wire.enc_frame Wire.dec_frame
  Wire.enc_request Wire.enc_response Wire.dec_request Wire.dec_response
  Wire.strip_req
  SizeLimit.msg_size_ok SizeLimit.rpc_size_outcome
  Timeout.parse_u64 Timeout.header_timeout Timeout.duration_to_timeout Timeout.effective
  Timeout.layer_outcome Timeout.rpc_outcome Timeout.rpc_outcome_w Timeout.timeout_key
  AuthLayer.run AuthLayer.allowed_peers AuthLayer.invocations
  Inflight.step Inflight.gauge Inflight.run
  Gcra.rate_call Gcra.check_key Gcra.admitted_in
  Router.route Router.add_rpc_service Router.route_layer Router.merge Router.dispatch
  Router.parse_pattern Router.build Router.compatible
  Codegen.client_path Codegen.server_path Codegen.service_name Codegen.server_select
  Codegen.status_into_response Codegen.status_from_response Codegen.typed_call
  Codegen.server_unary Codegen.client_unary
  ActivePeers.step ActivePeers.run ActivePeers.peers ActivePeers.tie_break ActivePeers.empty ActivePeers.find
  MutualDial.reach MutualDial.do_step MutualDial.enabled MutualDial.terminal MutualDial.init
  MutualDial.all_labels MutualDial.survivor MutualDial.converged
  MutualDialLimit.possible_survivors MutualDialLimit.no_limit MutualDialLimit.limit_at
  Dialer.check Dialer.b_update Dialer.backoff_duration Dialer.first_tick_after
  NetModel.step NetModel.run NetModel.lists NetModel.admission NetModel.adversarial_hello_accepted NetModel.dial_outcome
  Tls.accept_remote Tls.accept_client Tls.honest_cert Tls.honest_proof Tls.verify_cert Tls.verify_cert_pinned Tls.verify_hs Tls.peer_id Tls.accept_chain
  Shutdown.init Shutdown.step Shutdown.run ShutdownTrace.trun ShutdownTrace.tstep ShutdownTrace.count_answers ShutdownTrace.unanswered
  Rpc.open_stream Rpc.sstep Rpc.crun RpcTrace.erun RpcTrace.estep.
