(* modelrun: runs the extracted Coq models on case lines read from stdin and prints one
   canonical result line per case.  Hand-written glue (trusted): parsing and printing only. *)
open BinNums

let rec pos_of_int (i : int) : positive =
  if i = 1 then Coq_xH
  else if i land 1 = 0 then Coq_xO (pos_of_int (i lsr 1))
  else Coq_xI (pos_of_int (i lsr 1))

let n_of_int (i : int) : coq_N = if i = 0 then N0 else Npos (pos_of_int i)

let rec int_of_pos (p : positive) : int =
  match p with Coq_xH -> 1 | Coq_xO q -> 2 * int_of_pos q | Coq_xI q -> 2 * int_of_pos q + 1

let int_of_n (x : coq_N) : int = match x with N0 -> 0 | Npos p -> int_of_pos p

let n10 = n_of_int 10

(* decimal string -> N, any size *)
let n_of_string (s : string) : coq_N =
  let acc = ref N0 in
  Stdlib.String.iter
    (fun c ->
      let d = Char.code c - 48 in
      if d < 0 || d > 9 then failwith ("bad number " ^ s);
      acc := BinNat.N.add (BinNat.N.mul !acc n10) (n_of_int d))
    s;
  !acc

let rec string_of_n (x : coq_N) : string =
  match x with
  | N0 -> "0"
  | _ ->
      let (q, r) = BinNat.N.div_eucl x n10 in
      let d = string_of_int (int_of_n r) in
      (match q with N0 -> d | _ -> string_of_n q ^ d)

let hexval c =
  match c with
  | '0' .. '9' -> Char.code c - 48
  | 'a' .. 'f' -> Char.code c - 87
  | 'A' .. 'F' -> Char.code c - 55
  | _ -> failwith "bad hex"

let byte_tbl : coq_N array = Array.init 256 n_of_int

let unhex (s : string) : coq_N list =
  if s = "-" then []
  else begin
    let l = Stdlib.String.length s / 2 in
    let rec go i acc =
      if i < 0 then acc
      else go (i - 1) (byte_tbl.(hexval s.[2 * i] * 16 + hexval s.[2 * i + 1]) :: acc)
    in
    go (l - 1) []
  end

let tohex (l : coq_N list) : string =
  match l with
  | [] -> "-"
  | _ ->
      let b = Buffer.create 64 in
      Stdlib.List.iter (fun x -> Buffer.add_string b (Printf.sprintf "%02x" (int_of_n x))) l;
      Buffer.contents b

let err_name (e : Base.err) : string =
  match e with
  | Base.EShort -> "short"
  | Base.EPreamble -> "preamble"
  | Base.EVersion -> "version"
  | Base.ETooBig -> "toobig"
  | Base.EBincode -> "bincode"
  | Base.EStatus -> "status"

let maxcfg (s : string) : coq_N =
  Wire.eff_max (if s = "none" then None else Some (n_of_string s))

let rec parse_headers (toks : string list) (n : int) : (coq_N list * coq_N list) list =
  if n = 0 then []
  else
    match toks with
    | k :: v :: rest -> (unhex k, unhex v) :: parse_headers rest (n - 1)
    | _ -> failwith "bad header list"

(* later-wins association list -> sorted, deduplicated, printed like the implementation side *)
let fmt_headers (h : (coq_N list * coq_N list) list) : string =
  let tbl = Hashtbl.create 16 in
  Stdlib.List.iter (fun (k, v) -> Hashtbl.replace tbl (tohex k) (tohex v, k)) h;
  let l = Hashtbl.fold (fun _ (v, k) acc -> (Stdlib.List.map int_of_n k, v) :: acc) tbl [] in
  let l = Stdlib.List.sort compare l in
  let b = Buffer.create 64 in
  Buffer.add_string b (string_of_int (Stdlib.List.length l));
  Stdlib.List.iter
    (fun (k, v) ->
      Buffer.add_char b ' ';
      Buffer.add_string b (tohex (Stdlib.List.map n_of_int k));
      Buffer.add_char b ' ';
      Buffer.add_string b v)
    l;
  Buffer.contents b

let zeros (n : int) : coq_N list = Stdlib.List.init n (fun _ -> N0)

let run_case (t : string list) : string =
  match t with
  | "encreq" :: max :: route :: body :: nh :: hs ->
      let r =
        { Wire.rq_version = n_of_int 1; rq_route = unhex route;
          rq_headers = parse_headers hs (int_of_string nh); rq_body = unhex body;
          rq_ext = [n_of_int 7] }
      in
      (match Wire.enc_request (maxcfg max) r with
       | Base.Ok b -> "OK " ^ tohex b
       | Base.Err e -> "ERR " ^ err_name e)
  | "encresp" :: max :: st :: body :: nh :: hs ->
      let st =
        match Status.status_new (n_of_string st) with Some s -> s | None -> failwith "status"
      in
      let r =
        { Wire.rs_version = n_of_int 1; rs_status = st;
          rs_headers = parse_headers hs (int_of_string nh); rs_body = unhex body;
          rs_ext = [n_of_int 7] }
      in
      (match Wire.enc_response (maxcfg max) r with
       | Base.Ok b -> "OK " ^ tohex b
       | Base.Err e -> "ERR " ^ err_name e)
  | [ "decreq"; max; _chunk; data ] ->
      (match Wire.dec_request (maxcfg max) (unhex data) with
       | Base.Ok (r, _rest) ->
           Printf.sprintf "OK %s %s %s %s ext=%d" (string_of_n r.Wire.rq_version)
             (tohex r.Wire.rq_route) (tohex r.Wire.rq_body) (fmt_headers r.Wire.rq_headers)
             (Stdlib.List.length r.Wire.rq_ext)
       | Base.Err e -> "ERR " ^ err_name e)
  | [ "decresp"; max; _chunk; data ] ->
      (match Wire.dec_response (maxcfg max) (unhex data) with
       | Base.Ok (r, _rest) ->
           Printf.sprintf "OK %s %s %s %s ext=%d" (string_of_n r.Wire.rs_version)
             (string_of_n (Status.status_to_u16 r.Wire.rs_status))
             (tohex r.Wire.rs_body) (fmt_headers r.Wire.rs_headers)
             (Stdlib.List.length r.Wire.rs_ext)
       | Base.Err e -> "ERR " ^ err_name e)
  | [ "reencreq"; max; data ] ->
      (* decode, then re-encode the decoded message with headers in the order found *)
      (match Wire.dec_request (maxcfg max) (unhex data) with
       | Base.Ok (r, _) ->
           (match Wire.enc_request (maxcfg max) r with
            | Base.Ok b -> "OK " ^ tohex b
            | Base.Err e -> "ERR " ^ err_name e)
       | Base.Err e -> "ERR " ^ err_name e)
  | [ "reencresp"; max; data ] ->
      (match Wire.dec_response (maxcfg max) (unhex data) with
       | Base.Ok (r, _) ->
           (match Wire.enc_response (maxcfg max) r with
            | Base.Ok b -> "OK " ^ tohex b
            | Base.Err e -> "ERR " ^ err_name e)
       | Base.Err e -> "ERR " ^ err_name e)
  | [ "framelen"; max; n ] ->
      (* the frame decision depends on the length only (lemma enc_frame_len / dec_frame_len) *)
      let m = maxcfg max in
      let n = n_of_string n in
      let hdr = n_of_int 17 in
      let too x = BinNat.N.ltb m x in
      let v = if too hdr || too n then "ERR:toobig" else "OK" in
      Printf.sprintf "enc=%s dec=%s" v v
  | [ "framelen2"; max; hn; bn ] ->
      let v =
        if SizeLimit.msg_size_ok (maxcfg max) (n_of_string hn) (n_of_string bn) then "OK"
        else "ERR:toobig"
      in
      Printf.sprintf "req enc=%s dec=%s resp enc=%s dec=%s" v v v v
  | [ "rpcsize"; cmax; smax; qh; qb; rh; rb ] ->
      (match
         SizeLimit.rpc_size_outcome (maxcfg cmax) (maxcfg smax) (n_of_string qh) (n_of_string qb)
           (n_of_string rh) (n_of_string rb)
       with
       | SizeLimit.Delivered -> "delivered"
       | SizeLimit.CallerRefusesSend -> "caller-refuses-send"
       | SizeLimit.CalleeRefusesRecv -> "callee-refuses-recv"
       | SizeLimit.CalleeRefusesSend -> "callee-refuses-send"
       | SizeLimit.CallerRefusesRecv -> "caller-refuses-recv")
  | [ "tparse"; h ] ->
      if h = "none" then "NONE absent"
      else
        (match Timeout.parse_u64 (unhex h) with
         | Some n -> "SOME " ^ string_of_n n
         | None -> "NONE unparsable")
  | [ "tfmt"; secs; nanos ] ->
      let ns =
        BinNat.N.add (BinNat.N.mul (n_of_string secs) (n_of_string "1000000000")) (n_of_string nanos)
      in
      "OK " ^ tohex (Timeout.duration_to_timeout ns)
  | [ "tlayer"; _dir; dflt; hdr; h ] ->
      let d = if dflt = "none" then None else Some (n_of_string dflt) in
      let hv = if hdr = "none" then [] else [ (Timeout.timeout_key, unhex hdr) ] in
      let e = Timeout.effective d (Timeout.header_timeout hv) in
      (match Timeout.layer_outcome e (n_of_string h) with
       | Timeout.Normal t -> "normal " ^ string_of_n t ^ " handler=completed"
       | Timeout.CutOff t -> "cutoff " ^ string_of_n t ^ " handler=dropped"
       | Timeout.Unspecified -> "unspecified")
  | [ "trpc"; od; id; hdr; h; d1; d2 ] ->
      let o s = if s = "none" then None else Some (n_of_string s) in
      let hv = if hdr = "none" then None else Timeout.parse_u64 (unhex hdr) in
      (match Timeout.rpc_outcome (o od) (o id) hv (n_of_string h) (n_of_string d1) (n_of_string d2) with
       | Timeout.Response t -> "response " ^ string_of_n t
       | Timeout.RequestTimeoutStatus t -> "status408 " ^ string_of_n t
       | Timeout.CallerTimeoutError t -> "callertimeout " ^ string_of_n t
       | Timeout.RaceUnspecified -> "unspecified")
  | [ "trpcw"; od; id; hdr; w; h; d1; d2 ] ->
      let o s = if s = "none" then None else Some (n_of_string s) in
      let hv = if hdr = "none" then None else Timeout.parse_u64 (unhex hdr) in
      (match Timeout.rpc_outcome_w (o od) (o id) hv (n_of_string w) (n_of_string h) (n_of_string d1) (n_of_string d2) with
       | Timeout.Response t -> "response " ^ string_of_n t
       | Timeout.RequestTimeoutStatus t -> "status408 " ^ string_of_n t
       | Timeout.CallerTimeoutError t -> "callertimeout " ^ string_of_n t
       | Timeout.RaceUnspecified -> "unspecified")
  | "authallow" :: csv :: _threads :: reqs ->
      let allow =
        if csv = "-" then []
        else Stdlib.List.map n_of_string (Stdlib.String.split_on_char ',' csv)
      in
      let areqs =
        Stdlib.List.mapi
          (fun i s ->
            { AuthLayer.a_sender =
                (if s = "n" then None
                 else Some (n_of_string (Stdlib.String.sub s 1 (Stdlib.String.length s - 1))));
              a_tag = n_of_int i })
          reqs
      in
      let outs = AuthLayer.run (AuthLayer.allowed_peers allow) areqs in
      let f o =
        match o with
        | AuthLayer.Invoke r -> "inv:" ^ string_of_n r.AuthLayer.a_tag
        | AuthLayer.Reply (st, p) -> "r" ^ string_of_n st ^ ":" ^ string_of_n p
      in
      let inv = Stdlib.List.map (fun r -> string_of_n r.AuthLayer.a_tag) (AuthLayer.invocations outs) in
      Stdlib.String.concat " " (Stdlib.List.map f outs)
      ^ " invoked=" ^ (if inv = [] then "-" else Stdlib.String.concat "," inv)
  | "authfn" :: _threads :: reqs ->
      (* the authorizer is the closure of the harness: verdict carried by the request *)
      let verdicts = Array.of_list reqs in
      let mark = n_of_int 1000000 in
      let auth (r : AuthLayer.areq) =
        let v = verdicts.(int_of_n r.AuthLayer.a_tag) in
        if v = "ok" then ({ r with AuthLayer.a_tag = BinNat.N.add r.AuthLayer.a_tag mark }, None)
        else (r, Some (n_of_int 0, r.AuthLayer.a_tag))
      in
      let areqs =
        Stdlib.List.mapi (fun i _ -> { AuthLayer.a_sender = None; a_tag = n_of_int i }) reqs
      in
      let outs = AuthLayer.run auth areqs in
      let f o =
        match o with
        | AuthLayer.Invoke r ->
            let t = int_of_n r.AuthLayer.a_tag in
            if t >= 1000000 then Printf.sprintf "inv:%d:seen" (t - 1000000) else Printf.sprintf "inv:%d" t
        | AuthLayer.Reply (_, idx) ->
            (* the reply is exactly the authorizer's response: d<status>:<payload> *)
            let v = verdicts.(int_of_n idx) in
            "r" ^ Stdlib.String.sub v 1 (Stdlib.String.length v - 1)
      in
      let inv =
        Stdlib.List.map (fun r -> string_of_int (int_of_n r.AuthLayer.a_tag - 1000000)) (AuthLayer.invocations outs)
      in
      Stdlib.String.concat " " (Stdlib.List.map f outs)
      ^ " invoked=" ^ (if inv = [] then "-" else Stdlib.String.concat "," inv)
  | "inflight" :: mode :: max :: evs ->
      let m = if mode = "block" then Inflight.Block else Inflight.ReturnError in
      let max = n_of_string max in
      let st = ref [] in
      let out =
        Stdlib.List.map
          (fun ev ->
            let kind = ev.[0] in
            let rest = Stdlib.String.sub ev 1 (Stdlib.String.length ev - 1) in
            let p, r =
              match Stdlib.String.split_on_char '.' rest with
              | [ p; r ] -> (n_of_string p, n_of_string r)
              | _ -> failwith "bad inflight event"
            in
            let e =
              match kind with
              | 'a' -> Inflight.Arrive (p, r)
              | 'f' | 'e' -> Inflight.Finish (p, r)
              | 'c' -> Inflight.Cancel (p, r)
              | _ -> failwith "bad inflight event kind"
            in
            let st', res = Inflight.step m max !st e in
            st := st';
            let o =
              match res with
              | Inflight.Entered [] -> "N"
              | Inflight.Entered rs -> "E" ^ Stdlib.String.concat "," (Stdlib.List.map string_of_n rs)
              | Inflight.Queued -> "Q"
              | Inflight.Rejected -> "R"
              | Inflight.NoOp -> "N"
            in
            Printf.sprintf "%s:%s;g%s" ev o (string_of_n (Inflight.gauge max p st')))
          evs
      in
      Stdlib.String.concat " " out
  | "gcra" :: t :: burst :: evs ->
      let q = { Gcra.q_t = n_of_string t; q_burst = n_of_string burst } in
      let st = ref [] in
      let out =
        Stdlib.List.map
          (fun ev ->
            match Stdlib.String.split_on_char '@' ev with
            | [ k; at ] ->
                let now = n_of_string at in
                (* governor itself does not clamp the hint: wait = earliest - now *)
                let tat = Gcra.tat_of q !st (n_of_string k) now in
                let o, st' = Gcra.rate_call q !st (n_of_string k) now now in
                st := st';
                (match o with
                 | Gcra.Forward -> "ok"
                 | Gcra.TooMany _ -> "no:" ^ string_of_n (Gcra.wait_hint q tat now))
            | _ -> failwith "bad gcra event")
          evs
      in
      Stdlib.String.concat " " out
  | "router" :: rest ->
      let service_names = [| "A"; "pkg.Svc"; "a.b.C"; "x" |] in
      let bytes_of_string str =
        Stdlib.List.init (Stdlib.String.length str) (fun i -> n_of_int (Char.code str.[i]))
      in
      let rec split acc l =
        match l with
        | "|" :: t -> (Stdlib.List.rev acc, t)
        | x :: t -> split (x :: acc) t
        | [] -> (Stdlib.List.rev acc, [])
      in
      let ops, paths = split [] rest in
      let stack = ref [ [] ] in
      let build = ref [] in
      let failed = ref false in
      let unsupported = ref false in
      Stdlib.List.iteri
        (fun i o ->
          if not !failed then begin
            let top, below =
              match !stack with t :: b -> (t, b) | [] -> failwith "empty stack"
            in
            let res =
              if o = "[c" then Some (top :: top :: below)
              else if o = "[" then Some ([] :: top :: below)
              else if o = "]" then
                (match below with
                 | b :: bb ->
                     (match Router.merge b top with Some r -> Some (r :: bb) | None -> None)
                 | [] -> failwith "unbalanced")
              else if o.[0] = 'r' then
                (match Stdlib.String.split_on_char ':' o with
                 | [ _; p; sid ] ->
                     (match Router.parse_pattern (unhex p) with
                      | Some pat ->
                          (match Router.route top pat (n_of_string sid) [] with
                           | Some r -> Some (r :: below)
                           | None -> None)
                      | None -> unsupported := true; None)
                 | _ -> failwith "bad route op")
              else if o.[0] = 'S' then
                (match Stdlib.String.split_on_char ':' (Stdlib.String.sub o 1 (Stdlib.String.length o - 1)) with
                 | [ k; sid ] ->
                     let k = int_of_string k in
                     let name = service_names.(if k > 3 then 3 else k) in
                     (match Router.add_rpc_service top (bytes_of_string name) (n_of_string sid) with
                      | Some r -> Some (r :: below)
                      | None -> None)
                 | _ -> failwith "bad rpc op")
              else if o.[0] = 'L' then
                Some (Router.route_layer (n_of_string (Stdlib.String.sub o 1 (Stdlib.String.length o - 1))) top :: below)
              else failwith "bad op"
            in
            match res with
            | Some st -> stack := st; build := "ok" :: !build
            | None -> failed := true; build := Printf.sprintf "PANIC@%d" i :: !build
          end)
        ops;
      let b = "build=" ^ Stdlib.String.concat "," (Stdlib.List.rev !build) ^ " |" in
      if !unsupported then "unsupported"
      else if !failed then b
      else begin
        let r = match !stack with t :: _ -> t | [] -> failwith "empty" in
        let outs =
          Stdlib.List.map
            (fun p ->
              match Router.dispatch r (unhex p) with
              | Router.NotFound -> "404"
              | Router.Found (svc, ls) ->
                  "s" ^ string_of_n svc
                  ^ Stdlib.String.concat "" (Stdlib.List.map (fun l -> ";l" ^ string_of_n l) ls))
            paths
        in
        b ^ " " ^ Stdlib.String.concat " " outs
      end
  | "gen" :: pkg :: svc :: routes ->
      let pkg = unhex pkg and svc = unhex svc in
      let cl = Stdlib.List.map (fun m -> tohex (Codegen.client_path pkg svc (unhex m))) routes in
      let sv = Stdlib.List.map (fun m -> tohex (Codegen.server_path pkg svc (unhex m))) routes in
      let j l = if l = [] then "-" else Stdlib.String.concat "," l in
      Printf.sprintf "client=%s server=%s name=%s" (j cl) (j sv) (tohex (Codegen.service_name pkg svc))
  | "typed" :: calls ->
      let bytes_of_string str =
        Stdlib.List.init (Stdlib.String.length str) (fun i -> n_of_int (Char.code str.[i]))
      in
      let string_of_bytes l =
        Stdlib.String.init (Stdlib.List.length l) (fun i -> Char.chr (int_of_n (Stdlib.List.nth l i)))
      in
      (* services: (pkg, svc, [(route, format)]) -- the fixed definition of harness/build.rs *)
      let services =
        [ ("", "Alpha", [ ("Echo", "json"); ("Add", "bincode"); ("Raw", "bincode"); ("EchoTwice", "json") ]);
          ("pkg.sub", "Beta", [ ("Echo", "bincode"); ("Other", "json") ]) ]
      in
      let router =
        Stdlib.List.fold_left
          (fun (r, i) (pkg, svc, _) ->
            match
              Router.add_rpc_service r
                (Codegen.service_name (bytes_of_string pkg) (bytes_of_string svc))
                (n_of_int i)
            with
            | Some r' -> (r', i + 1)
            | None -> failwith "model router rejects the services")
          ([], 0) services
        |> fst
      in
      let log = ref [] in
      let status_of_code c =
        match Status.status_new (n_of_string c) with Some s -> s | None -> failwith "bad status"
      in
      (* message codec glue: (tag, text, behave) <-> bytes, injective *)
      let enc_q (tag, text, behave) = bytes_of_string (Printf.sprintf "%s\000%s\000%s" tag text behave) in
      let dec_q b =
        match Stdlib.String.split_on_char '\000' (string_of_bytes b) with
        | [ tag; text; behave ] -> Some (tag, text, behave)
        | _ -> None
      in
      let enc_r m = Some (enc_q m) in
      let dec_r = dec_q in
      let handler who (tag, text, behave) =
        log := (who ^ ":" ^ tag) :: !log;
        let parts = Stdlib.String.split_on_char ';' behave in
        let head = Stdlib.List.hd parts in
        let message = ref None and headers = ref [] in
        Stdlib.List.iter
          (fun p ->
            let n = Stdlib.String.length p in
            if n >= 2 && Stdlib.String.sub p 0 2 = "m=" then
              message := Some (bytes_of_string (Stdlib.String.sub p 2 (n - 2)))
            else if n >= 2 && Stdlib.String.sub p 0 2 = "h=" then begin
              let kv = Stdlib.String.sub p 2 (n - 2) in
              let i = Stdlib.String.index kv '=' in
              headers :=
                !headers
                @ [ (bytes_of_string (Stdlib.String.sub kv 0 i),
                     bytes_of_string (Stdlib.String.sub kv (i + 1) (Stdlib.String.length kv - i - 1))) ]
            end)
          (Stdlib.List.tl parts);
        let reply = (tag, who ^ "<" ^ text ^ ">", "") in
        let pre k = Stdlib.String.length head >= Stdlib.String.length k
                    && Stdlib.String.sub head 0 (Stdlib.String.length k) = k in
        let rest k = Stdlib.String.sub head (Stdlib.String.length k) (Stdlib.String.length head - Stdlib.String.length k) in
        if head = "ok" then Datatypes.Coq_inl ((Status.Success, !headers), reply)
        else if pre "okst" then Datatypes.Coq_inl ((status_of_code (rest "okst"), !headers), reply)
        else if pre "err" then
          Datatypes.Coq_inr
            { Codegen.st_code = status_of_code (rest "err"); st_message = !message; st_headers = !headers }
        else failwith "bad behaviour"
      in
      let star = bytes_of_string "*" in
      let fmt_headers h =
        let tbl = Hashtbl.create 8 in
        Stdlib.List.iter (fun (k, v) -> Hashtbl.replace tbl (string_of_bytes k) (tohex v)) h;
        let l = Hashtbl.fold (fun k v acc -> (k ^ "=" ^ v) :: acc) tbl [] in
        let l = Stdlib.List.sort compare l in
        if l = [] then "-" else Stdlib.String.concat "," l
      in
      let code st = string_of_n (Status.status_to_u16 st) in
      let find_method route =
        (* router dispatch, then the generated server's match *)
        match Router.dispatch router route with
        | Router.NotFound -> None
        | Router.Found (id, _) ->
            let pkg, svc, methods = Stdlib.List.nth services (int_of_n id) in
            let names = Stdlib.List.map (fun (m, _) -> bytes_of_string m) methods in
            (match Codegen.server_select (bytes_of_string pkg) (bytes_of_string svc) names route with
             | Some i ->
                 let rec to_int (x : Datatypes.nat) = match x with Datatypes.O -> 0 | Datatypes.S y -> 1 + to_int y in
                 let m, fmt = Stdlib.List.nth methods (to_int i) in
                 Some (svc ^ "." ^ m, fmt)
             | None -> None)
      in
      let outs =
        Stdlib.List.map
          (fun call ->
            match Stdlib.String.split_on_char ':' call with
            | "raw" :: route :: body :: _ ->
                (match find_method (unhex route) with
                 | None -> "status:404"
                 | Some (who, fmt) ->
                     let w =
                       Codegen.server_unary dec_q enc_r (bytes_of_string fmt) (handler who) star (unhex body)
                     in
                     "status:" ^ code w.Codegen.w_status)
            | who :: tag :: text :: behave ->
                let behave = Stdlib.String.concat ":" behave in
                let svc, m =
                  match Stdlib.String.split_on_char '.' who with [ s; m ] -> (s, m) | _ -> failwith "bad call"
                in
                let pkg, _, _ = Stdlib.List.find (fun (_, s, _) -> s = svc) services in
                let route = Codegen.client_path (bytes_of_string pkg) (bytes_of_string svc) (bytes_of_string m) in
                let msg = (tag, string_of_bytes (unhex text), behave) in
                let res =
                  match find_method route with
                  | None ->
                      Codegen.client_unary dec_r star
                        { Codegen.w_status = Status.NotFound; w_headers = []; w_body = [] }
                  | Some (who', fmt) ->
                      Codegen.typed_call enc_q dec_q enc_r dec_r (bytes_of_string fmt) (handler who') star msg
                in
                (match res with
                 | Datatypes.Coq_inl ((st, hdrs), (tag', text', _)) ->
                     Printf.sprintf "ok:%s:%s:%s:%s" tag' (tohex (bytes_of_string text')) (code st) (fmt_headers hdrs)
                 | Datatypes.Coq_inr st ->
                     let w = Codegen.status_into_response st in
                     Printf.sprintf "err:%s:%s" (code st.Codegen.st_code) (fmt_headers w.Codegen.w_headers))
            | _ -> failwith "bad typed call")
          calls
      in
      let l = Stdlib.List.rev !log in
      Stdlib.String.concat " " outs ^ " | " ^ (if l = [] then "-" else Stdlib.String.concat " " l)
  | "apm" :: ranks :: conns :: "|" :: ops ->
      (* ranks = own,p0,p1,... ; conns = k:peer:o|i,... ; ops as the activepeers driver *)
      let ranks = Array.of_list (Stdlib.List.map int_of_string (Stdlib.String.split_on_char ',' ranks)) in
      let own = n_of_int ranks.(0) in
      let prank p = n_of_int ranks.(p + 1) in
      let pidx r =
        let r = int_of_n r in
        let res = ref (-1) in
        Array.iteri (fun i x -> if i > 0 && x = r then res := i - 1) ranks;
        !res
      in
      let conns =
        Array.of_list
          (Stdlib.List.filter_map
             (fun c ->
               match Stdlib.String.split_on_char ':' c with
               | [ _; p; o ] ->
                   Some (int_of_string p, if o = "o" then ActivePeers.Outbound else ActivePeers.Inbound)
               | _ -> None)
             (Stdlib.String.split_on_char ',' conns))
      in
      let st = ref ActivePeers.empty in
      let seen_events = ref 0 in
      let fmt_listing l =
        let l = Stdlib.List.sort compare (Stdlib.List.map pidx l) in
        "[" ^ Stdlib.String.concat "," (Stdlib.List.map string_of_int l) ^ "]"
      in
      let out =
        Stdlib.List.map
          (fun o ->
            let kind = o.[0] in
            let rest = Stdlib.String.sub o 1 (Stdlib.String.length o - 1) in
            let op =
              match kind with
              | 'A' ->
                  let k = int_of_string rest in
                  let p, orig = conns.(k) in
                  ActivePeers.Add (own, prank p, n_of_int k, orig)
              | 'R' ->
                  (match Stdlib.String.split_on_char ':' rest with
                   | [ p; r ] -> ActivePeers.Remove (prank (int_of_string p), n_of_string r)
                   | _ -> failwith "bad R")
              | 'S' ->
                  (match Stdlib.String.split_on_char ':' rest with
                   | [ k; r ] ->
                       let k = int_of_string k in
                       let p, _ = conns.(k) in
                       ActivePeers.RemoveStable (prank p, n_of_int k, n_of_string r)
                   | _ -> failwith "bad S")
              | 'U' -> ActivePeers.Subscribe
              | 'P' -> ActivePeers.Peers
              | _ -> failwith "bad op"
            in
            let st', res = ActivePeers.step !st op in
            st := st';
            let r =
              match res with
              | ActivePeers.Kept -> "K"
              | ActivePeers.Dropped -> "D"
              | ActivePeers.Done -> "ok"
              | ActivePeers.Listing l ->
                  if kind = 'U' then "snap" ^ fmt_listing l
                  else
                    "["
                    ^ Stdlib.String.concat ","
                        (Stdlib.List.map
                           (fun (p, c) -> Printf.sprintf "%d:%d" p c)
                           (Stdlib.List.sort compare
                              (Stdlib.List.map (fun (p, (id, _)) -> (pidx p, int_of_n id)) st'.ActivePeers.conns)))
                    ^ "]"
            in
            let log = st'.ActivePeers.log in
            let n = Stdlib.List.length log in
            let fresh = Stdlib.List.filteri (fun i _ -> i >= !seen_events) log in
            seen_events := n;
            let ev =
              Stdlib.String.concat ","
                (Stdlib.List.map
                   (fun e ->
                     match e with
                     | ActivePeers.NewPeer p -> Printf.sprintf "+%d" (pidx p)
                     | ActivePeers.LostPeer (p, r) -> Printf.sprintf "-%d:%s" (pidx p) (string_of_n r))
                   fresh)
            in
            let cl =
              Stdlib.List.sort_uniq compare (Stdlib.List.map int_of_n st'.ActivePeers.closed)
            in
            let entries =
              Stdlib.List.sort compare
                (Stdlib.List.map (fun (p, (id, _)) -> (pidx p, int_of_n id)) st'.ActivePeers.conns)
            in
            Printf.sprintf "%s=%s;ev=%s;cl=%s;L=[%s]" o r ev
              (Stdlib.String.concat "," (Stdlib.List.map string_of_int cl))
              (Stdlib.String.concat "," (Stdlib.List.map (fun (p, c) -> Printf.sprintf "%d:%d" p c) entries)))
          ops
      in
      Stdlib.String.concat " " out
  | [ "tb"; own; remote; e; n; _pos ] ->
      let o s = if s = "i" then ActivePeers.Inbound else ActivePeers.Outbound in
      if ActivePeers.tie_break (n_of_string own) (n_of_string remote) (o e) (o n) then "1" else "0"
  | [ "md"; lt; sched ] ->
      let lt = lt = "1" in
      let parse l =
        let n = if l.[1] = 'A' then MutualDial.NA else MutualDial.NB in
        let c = if l.[2] = 'X' then MutualDial.CX else MutualDial.CY in
        match l.[0] with
        | 'R' -> MutualDial.Ready (n, c)
        | 'F' -> MutualDial.Fail (n, c)
        | _ -> MutualDial.Notice (n, c)
      in
      let labels = Stdlib.List.filter (fun l -> l <> "") (Stdlib.String.split_on_char ',' sched) in
      let pre = ref [] in
      let s =
        Stdlib.List.fold_left
          (fun s l ->
            let lab = parse l in
            pre := (l ^ ":" ^ if MutualDial.enabled s lab then "1" else "0") :: !pre;
            MutualDial.do_step lt s lab)
          MutualDial.init labels
      in
      let e x = match x.MutualDial.entry with None -> "-" | Some MutualDial.CX -> "X" | Some MutualDial.CY -> "Y" in
      let b x = if x then 0 else 1 in
      let sa = s.MutualDial.sa and sb = s.MutualDial.sb in
      Printf.sprintf "A=%s B=%s nA=%d nB=%d evA=%s evB=%s openX=%d%d openY=%d%d pre=%s" (e sa) (e sb)
        (if sa.MutualDial.entry = None then 0 else 1)
        (if sb.MutualDial.entry = None then 0 else 1)
        (string_of_n sa.MutualDial.nevents) (string_of_n sb.MutualDial.nevents)
        (b (sa.MutualDial.clX || sb.MutualDial.clX)) (b (sa.MutualDial.clX || sb.MutualDial.clX))
        (b (sa.MutualDial.clY || sb.MutualDial.clY)) (b (sa.MutualDial.clY || sb.MutualDial.clY))
        (Stdlib.String.concat "," (Stdlib.List.rev !pre))
  | [ "mdlimit"; lim; lt ] ->
      (* which of the two dials can be the pair's one connection, with a connection limit of 1 at node lim (MutualDialLimit.v) *)
      let l = match lim with "A" -> MutualDialLimit.limit_at MutualDial.NA | "B" -> MutualDialLimit.limit_at MutualDial.NB | _ -> MutualDialLimit.no_limit in
      Stdlib.String.concat ","
        (Stdlib.List.map (fun c -> match c with MutualDial.CX -> "X" | MutualDial.CY -> "Y") (MutualDialLimit.possible_survivors l (lt = "1")))
  | [ "mdreach"; lt ] ->
      (* all maximal schedules of the mutual-dial system, as label lists *)
      let lt = lt = "1" in
      let lbl l =
        let nn n = match n with MutualDial.NA -> "A" | MutualDial.NB -> "B" in
        let cc c = match c with MutualDial.CX -> "X" | MutualDial.CY -> "Y" in
        match l with
        | MutualDial.Ready (n, c) -> "R" ^ nn n ^ cc c
        | MutualDial.Fail (n, c) -> "F" ^ nn n ^ cc c
        | MutualDial.Notice (n, c) -> "N" ^ nn n ^ cc c
      in
      let res = ref [] in
      let rec go s acc =
        let en = Stdlib.List.filter (fun l -> MutualDial.enabled s l) MutualDial.all_labels in
        if en = [] then
          res :=
            (Stdlib.String.concat "," (Stdlib.List.rev acc)
             ^ (if MutualDial.converged lt s then ":ok" else ":BAD"))
            :: !res
        else Stdlib.List.iter (fun l -> go (MutualDial.do_step lt s l) (lbl l :: acc)) en
      in
      go MutualDial.init [];
      Stdlib.String.concat " " (Stdlib.List.rev !res)
  | "dialer" :: rest ->
      (* dialer own=.. step=.. maxb=.. maxout=.. P=.. ticks=.. | p:aff:a,a;... | t:addr:up|down ...
         environment: every dial completes before the next tick; an address is reachable for peer p iff it is
         up at the tick the dial started and owned by p (address id = owning peer id, ids >= 100 are nobody's) *)
      let rec split acc l =
        match l with "|" :: t -> (Stdlib.List.rev acc, t) | x :: t -> split (x :: acc) t | [] -> (Stdlib.List.rev acc, [])
      in
      let head, r1 = split [] rest in
      let known_s, avail_s = split [] r1 in
      let kvs = Stdlib.List.filter_map (fun s -> match Stdlib.String.split_on_char '=' s with [ k; v ] -> Some (k, v) | _ -> None) head in
      let g k = n_of_string (Stdlib.List.assoc k kvs) in
      let cfg = { Dialer.own = g "own"; backoff_step = g "step"; max_backoff = g "maxb"; max_outstanding = g "maxout" } in
      let period = g "P" in
      let ticks = int_of_string (Stdlib.List.assoc "ticks" kvs) in
      (* ext=<tick>:<n>,... : connections being established for other reasons (explicit connects, inbound
         handshakes) at that tick: pending_connections.len() as the check sees it *)
      let ext =
        match Stdlib.List.assoc_opt "ext" kvs with
        | None | Some "" | Some "-" -> []
        | Some v ->
            Stdlib.List.map
              (fun e -> match Stdlib.String.split_on_char ':' e with
                 | [ t; n ] -> (int_of_string t, int_of_string n) | _ -> failwith "bad ext")
              (Stdlib.String.split_on_char ',' v)
      in
      let known =
        Stdlib.List.map
          (fun e ->
            match Stdlib.String.split_on_char ':' e with
            | [ p; aff; addrs ] ->
                { Dialer.pi_id = n_of_string p;
                  pi_aff = (match aff with "high" -> Dialer.High | "allowed" -> Dialer.Allowed | _ -> Dialer.Never);
                  pi_addrs =
                    (if addrs = "" then []
                     else Stdlib.List.map n_of_string (Stdlib.String.split_on_char ',' addrs)) }
            | _ -> failwith "bad known entry")
          (Stdlib.List.filter (fun s -> s <> "") (Stdlib.String.split_on_char ';' (Stdlib.String.concat "" known_s)))
      in
      (* availability events: (time, addr, up) sorted by time *)
      let avail =
        Stdlib.List.map
          (fun e ->
            match Stdlib.String.split_on_char ':' e with
            | [ t; a; st ] -> (int_of_string t, int_of_string a, st = "up")
            | _ -> failwith "bad avail")
          avail_s
      in
      let up_at addr t =
        Stdlib.List.fold_left (fun acc (te, a, u) -> if a = addr && te <= t then u else acc) (addr < 100) avail
      in
      let went_down_between addr t0 t1 =
        Stdlib.List.exists (fun (te, a, u) -> a = addr && (not u) && te > t0 && te <= t1) avail
      in
      let st = ref { Dialer.pending = []; backoff = [] } in
      (* connected: peer -> (addr, since) ; last dials: peer -> (addr, tick time) *)
      let connected : (int, int * int) Hashtbl.t = Hashtbl.create 8 in
      let lastdial : (int, int * int) Hashtbl.t = Hashtbl.create 8 in
      let out = ref [] in
      for i = 0 to ticks - 1 do
        let now = i * int_of_n period in
        (* connections whose node went down are lost *)
        Hashtbl.filter_map_inplace
          (fun _p (a, since) -> if went_down_between a since now then None else Some (a, since))
          connected;
        (* results of the dials started at the previous tick *)
        let results p =
          let p = int_of_n p in
          match Hashtbl.find_opt lastdial p with
          | None -> None
          | Some (a, ts) ->
              (* the dial completes right after the tick at which it started *)
              Some (a = p && up_at a ts)
        in
        Hashtbl.iter
          (fun p (a, ts) -> if a = p && up_at a ts && not (went_down_between a ts now) then Hashtbl.replace connected p (a, ts))
          lastdial;
        let active = Hashtbl.fold (fun p _ acc -> n_of_int p :: acc) connected [] in
        let outstanding = n_of_int (match Stdlib.List.assoc_opt i ext with Some n -> n | None -> 0) in
        let (st', dials), elig = Dialer.check cfg (n_of_int now) results known active outstanding !st in
        st := st';
        Hashtbl.reset lastdial;
        Stdlib.List.iter (fun (p, a) -> Hashtbl.replace lastdial (int_of_n p) (int_of_n a, now)) dials;
        let d = Stdlib.List.sort compare (Stdlib.List.map (fun (p, a) -> (int_of_n p, int_of_n a)) dials) in
        let e = Stdlib.List.sort compare (Stdlib.List.map int_of_n elig) in
        out :=
          Printf.sprintf "t%d:%s:e%s:c%s" i
            (Stdlib.String.concat "," (Stdlib.List.map (fun (p, a) -> Printf.sprintf "%d@%d" p a) d))
            (Stdlib.String.concat "," (Stdlib.List.map string_of_int e))
            (Stdlib.String.concat "," (Stdlib.List.map string_of_int (Stdlib.List.sort compare (Stdlib.List.map int_of_n active))))
          :: !out
      done;
      Stdlib.String.concat " " (Stdlib.List.rev !out)
  | [ "backoff"; step; maxb; n ] ->
      let cfg = { Dialer.own = N0; backoff_step = n_of_string step; max_backoff = n_of_string maxb; max_outstanding = N0 } in
      let n = int_of_string n in
      let out = ref [] in
      let att = ref N0 in
      for _ = 1 to n do
        let b = Dialer.b_update cfg N0 !att in
        att := b.Dialer.b_attempts;
        out := (string_of_n b.Dialer.b_attempts ^ ":" ^ string_of_n b.Dialer.b_deadline) :: !out
      done;
      Stdlib.String.concat " " (Stdlib.List.rev !out)
  | "mgrtrace" :: evs ->
      (* replays recorded manager events on Shutdown.v: see ShutdownTrace.tev *)
      let rec nat_of_int i = if i <= 0 then Datatypes.O else Datatypes.S (nat_of_int (i - 1)) in
      let rec int_of_nat n = match n with Datatypes.O -> 0 | Datatypes.S m -> 1 + int_of_nat m in
      let b x = x = "1" in
      let kind x = if x = "c" then Shutdown.CConnect else Shutdown.CShutdown in
      let ev tok =
        match Stdlib.String.split_on_char ':' tok with
        | [ "S"; k; sent ] -> ShutdownTrace.TSubmit (kind k, b sent)
        | [ "W"; k ] -> ShutdownTrace.TIssue (kind k)
        | [ "M"; k ] -> ShutdownTrace.TAdmit (kind k)
        | [ "P"; k ] -> ShutdownTrace.TProcess (kind k)
        | [ "I" ] -> ShutdownTrace.TIncoming
        | [ "N" ] -> ShutdownTrace.TAcceptNone
        | [ "R"; reply; ok; reg; peer ] -> ShutdownTrace.TConnResult (b reply, b ok, b reg, n_of_string peer)
        | [ "D"; peer ] -> ShutdownTrace.TDisconnect (n_of_string peer)
        | [ "a"; h ] -> ShutdownTrace.TStreamArrive (n_of_string h)
        | [ "q+"; h ] -> ShutdownTrace.TReqStart (n_of_string h)
        | [ "q-"; h ] -> ShutdownTrace.TReqEnd (n_of_string h)
        | [ "X"; h ] -> ShutdownTrace.THExit (n_of_string h)
        | [ "A"; h ] -> ShutdownTrace.THAbort (n_of_string h)
        | [ "J"; c ] -> ShutdownTrace.TJoin (b c)
        | [ "H" ] -> ShutdownTrace.THandlesDropped
        | [ "AP" ] -> ShutdownTrace.TAbortPending
        | [ "AJ" ] -> ShutdownTrace.TAllJoined
        | [ "C"; n ] -> ShutdownTrace.TCleanup (nat_of_int (int_of_string n))
        | [ "F" ] -> ShutdownTrace.TFinish
        | _ -> failwith ("bad manager event " ^ tok)
      in
      let (s, rej) = ShutdownTrace.trun Shutdown.init Datatypes.O (Stdlib.List.map ev evs) in
      let phase = match s.Shutdown.ph with
        | Shutdown.MLoop -> "loop" | Shutdown.MClosing -> "closing" | Shutdown.MWaitHandlers -> "wait-handlers"
        | Shutdown.MAssert -> "cleanup" | Shutdown.MWaitIdle -> "wait-idle" | Shutdown.MDone -> "done" | Shutdown.MPanicked -> "panicked" in
      let entries = Stdlib.String.concat "," (Stdlib.List.sort compare (Stdlib.List.map (fun (p, _) -> string_of_n p) s.Shutdown.entries)) in
      Printf.sprintf "%s ph=%s entries=[%s] hands=%d inbound=%d lost=%d ansok=%d ansfail=%d unanswered=%d"
        (match rej with None -> "accepted" | Some k -> "rejected@" ^ string_of_int (int_of_nat k))
        phase entries (Stdlib.List.length s.Shutdown.hands) (int_of_nat s.Shutdown.inbound) (int_of_nat s.Shutdown.lost_events)
        (int_of_nat (ShutdownTrace.count_answers true s)) (int_of_nat (ShutdownTrace.count_answers false s))
        (int_of_nat (ShutdownTrace.unanswered s))
  | "aphist" :: ops ->
      (* a recorded history of one ActivePeers instance (H4 trace) replayed on ActivePeers.v; every line
         carries the pre-state the implementation saw (existing / present / current), checked against the model:
         A:<own>:<peer>:<id>:<i|o>:<existing id|->   R:<peer>:<reason>:<present 0|1>   S:<peer>:<id>:<reason>:<current id|-> *)
      let st = ref ActivePeers.empty in
      let bad = ref None in
      Stdlib.List.iteri
        (fun k o ->
          if !bad = None then begin
            let cur p = match ActivePeers.find (n_of_string p) !st.ActivePeers.conns with
              | Some (id, _) -> string_of_n id | None -> "-" in
            let op, pre_ok =
              match Stdlib.String.split_on_char ':' o with
              | [ "A"; own; peer; id; orig; existing ] ->
                  (ActivePeers.Add (n_of_string own, n_of_string peer, n_of_string id,
                                    (if orig = "o" then ActivePeers.Outbound else ActivePeers.Inbound)),
                   cur peer = existing)
              | [ "R"; peer; reason; present ] ->
                  (ActivePeers.Remove (n_of_string peer, n_of_string reason), (cur peer <> "-") = (present = "1"))
              | [ "S"; peer; id; reason; current ] ->
                  (ActivePeers.RemoveStable (n_of_string peer, n_of_string id, n_of_string reason), cur peer = current)
              | _ -> failwith ("bad aphist op " ^ o)
            in
            if not pre_ok then bad := Some k
            else st := fst (ActivePeers.step !st op)
          end)
        ops;
      let listing = Stdlib.List.sort compare (Stdlib.List.map int_of_n (ActivePeers.peers !st)) in
      let ev = Stdlib.List.map (fun e -> match e with
        | ActivePeers.NewPeer p -> "+" ^ string_of_n p
        | ActivePeers.LostPeer (p, r) -> "-" ^ string_of_n p ^ ":" ^ string_of_n r) !st.ActivePeers.log in
      Printf.sprintf "%s L=[%s] ev=%s"
        (match !bad with None -> "accepted" | Some k -> "pre-state-mismatch@" ^ string_of_int k)
        (Stdlib.String.concat "," (Stdlib.List.map string_of_int listing)) (Stdlib.String.concat "," ev)
  | "rpctrace" :: maxs :: "|" :: rest ->
      (* rpctrace <max|none> | <stream>* | <event>*
         stream = route:hdrs:len:seed:resp   resp = - | status:hdrs:len:seed   hdrs = - | k=v+k=v (hex)
         event  = <stream index>:<W|F|D|R|S|P|CE|SE>
         The handler is the table "request id header -> response" the server side recorded. *)
      let max = maxcfg maxs in
      let rec split acc l =
        match l with "|" :: t -> (Stdlib.List.rev acc, t) | x :: t -> split (x :: acc) t | [] -> (Stdlib.List.rev acc, [])
      in
      let streams_s, events_s = split [] rest in
      let pattern n seed = Stdlib.List.init n (fun i -> byte_tbl.(((i * 31) + seed) land 255)) in
      let hdrs s =
        if s = "-" then []
        else Stdlib.List.map
            (fun kv -> match Stdlib.String.split_on_char '=' kv with
               | [ k; v ] -> (unhex k, unhex v) | _ -> failwith "bad header")
            (Stdlib.String.split_on_char '+' s)
      in
      let table : (string, Wire.response) Hashtbl.t = Hashtbl.create 16 in
      let id_of (h : (coq_N list * coq_N list) list) =
        match Stdlib.List.find_opt (fun (k, _) -> tohex k = "6964") h with Some (_, v) -> tohex v | None -> "?" in
      let reqs =
        Stdlib.List.map
          (fun s ->
            match Stdlib.String.split_on_char ':' s with
            | route :: h :: len :: seed :: resp ->
                let q = { Wire.rq_version = n_of_int 1; rq_route = unhex route; rq_headers = hdrs h;
                          rq_body = pattern (int_of_string len) (int_of_string seed); rq_ext = [] } in
                (match resp with
                 | [ st; rh; rl; rs ] ->
                     (match Status.status_new (n_of_string st) with
                      | Some code ->
                          Hashtbl.replace table (id_of q.Wire.rq_headers)
                            { Wire.rs_version = n_of_int 1; rs_status = code; rs_headers = hdrs rh;
                              rs_body = pattern (int_of_string rl) (int_of_string rs); rs_ext = [] }
                      | None -> failwith "bad status")
                 | _ -> ());
                q
            | _ -> failwith "bad stream")
          streams_s
      in
      let default = { Wire.rs_version = n_of_int 1; rs_status = (match Status.status_new (n_of_int 500) with Some c -> c | None -> failwith "500");
                      rs_headers = []; rs_body = []; rs_ext = [] } in
      let handler (q : Wire.request) = match Hashtbl.find_opt table (id_of q.Wire.rq_headers) with Some r -> r | None -> default in
      let conn0 =
        Stdlib.List.map
          (fun q -> match Wire.enc_request max q with
             | Base.Ok w -> Rpc.open_stream w
             | Base.Err _ -> Rpc.open_stream [])       (* refused by the sender's own encoder: nothing is written *)
          reqs
      in
      let rec nat_of_int i = if i <= 0 then Datatypes.O else Datatypes.S (nat_of_int (i - 1)) in
      let rec int_of_nat n = match n with Datatypes.O -> 0 | Datatypes.S m -> 1 + int_of_nat m in
      let ev s =
        match Stdlib.String.split_on_char ':' s with
        | [ i; e ] ->
            (nat_of_int (int_of_string i),
             (match e with
              | "W" -> RpcTrace.EWritten | "F" -> RpcTrace.EFin | "D" -> RpcTrace.EDecoded | "R" -> RpcTrace.EReturned
              | "S" -> RpcTrace.EFinished | "P" -> RpcTrace.EResponse | "CE" -> RpcTrace.ECallerEnd | "SE" -> RpcTrace.EServerEnd
              | _ -> failwith "bad rpc event"))
        | _ -> failwith "bad rpc event"
      in
      let c, rej = RpcTrace.erun max handler conn0 Datatypes.O (Stdlib.List.map ev events_s) in
      let fnv (l : coq_N list) =
        let h = ref 0xcbf29ce484222325L in
        Stdlib.List.iter (fun x -> h := Int64.mul (Int64.logxor !h (Int64.of_int (int_of_n x))) 0x100000001b3L) l;
        Printf.sprintf "%d:%016Lx" (Stdlib.List.length l) !h
      in
      let hs h = let l = Stdlib.List.sort compare (Stdlib.List.map (fun (k, v) -> tohex k ^ ":" ^ tohex v) h) in
        if l = [] then "-" else Stdlib.String.concat "+" l in
      let per =
        Stdlib.List.mapi
          (fun i st ->
            let sss = match st.Rpc.ss with
              | Rpc.SWait -> "wait" | Rpc.SQueued _ -> "queued" | Rpc.SRunning _ -> "running" | Rpc.SWriting _ -> "writing" | Rpc.SDone -> "done"
              | Rpc.SFailed -> "failed" | Rpc.SDropped -> "dropped" in
            let css = match st.Rpc.cs with
              | Rpc.CWriting _ -> "writing" | Rpc.CFinished -> "finished" | Rpc.CAbandoned _ -> "abandoned"
              | Rpc.CGot (Base.Ok r) ->
                  Printf.sprintf "ok,st=%s,hdr=%s,body=%s" (string_of_n (Status.status_to_u16 r.Wire.rs_status)) (hs r.Wire.rs_headers) (fnv r.Wire.rs_body)
              | Rpc.CGot (Base.Err _) -> "err" in
            Printf.sprintf "%d:inv=%d:ss=%s:cs=%s" i (int_of_nat st.Rpc.invocations) sss css)
          c
      in
      (match rej with None -> "accepted" | Some k -> "rejected@" ^ string_of_int (int_of_nat k)) ^ " " ^ Stdlib.String.concat " " per
  | "netmodel" :: spec :: "|" :: ops ->
      (* netmodel <id:name:alt|-:limit|-;...> | D a b [x] | X a b | R a | K a p aff | P a b | H a b | Q *)
      let nodes =
        Stdlib.List.map
          (fun e ->
            match Stdlib.String.split_on_char ':' e with
            | [ id; name; alt; limit ] ->
                ( n_of_string id,
                  { NetModel.n_primary = n_of_string name;
                    n_alt = (if alt = "-" then None else Some (n_of_string alt));
                    n_limit = (if limit = "-" then None else Some (n_of_string limit));
                    n_known = []; n_active = []; n_events = [] } )
            | _ -> failwith "bad node spec")
          (Stdlib.List.filter (fun x -> x <> "") (Stdlib.String.split_on_char ';' spec))
      in
      let w = ref { NetModel.w_net = nodes; w_cut = [] } in
      let listing () =
        Stdlib.String.concat ";"
          (Stdlib.List.map
             (fun (id, _) ->
               let n = match NetModel.getn id !w.NetModel.w_net with Some n -> n | None -> failwith "gone" in
               let l = Stdlib.List.sort compare (Stdlib.List.map int_of_n n.NetModel.n_active) in
               string_of_n id ^ ":[" ^ Stdlib.String.concat "," (Stdlib.List.map string_of_int l) ^ "]")
             nodes)
      in
      (* group tokens into ops *)
      let rec group acc cur l =
        match l with
        | [] -> Stdlib.List.rev (if cur = [] then acc else Stdlib.List.rev cur :: acc)
        | "/" :: t -> group (if cur = [] then acc else Stdlib.List.rev cur :: acc) [] t
        | x :: t -> group acc (x :: cur) t
      in
      let out =
        Stdlib.List.map
          (fun o ->
            let op =
              match o with
              | [ "D"; a; b ] -> NetModel.Dial (n_of_string a, n_of_string b, None)
              | [ "D"; a; b; x ] -> NetModel.Dial (n_of_string a, n_of_string b, Some (n_of_string x))
              | [ "X"; a; b ] -> NetModel.Disconnect (n_of_string a, n_of_string b)
              | [ "F"; a; b ] -> NetModel.FailedArrival (n_of_string a, n_of_string b)
              | [ "W"; a; b ] -> NetModel.Call (n_of_string a, n_of_string b)
              | [ "R"; a ] -> NetModel.Restart (n_of_string a)
              | [ "K"; a; p; aff ] ->
                  NetModel.SetKnown
                    ( n_of_string a, n_of_string p,
                      match aff with
                      | "high" -> Some Dialer.High
                      | "allowed" -> Some Dialer.Allowed
                      | "never" -> Some Dialer.Never
                      | _ -> None )
              | [ "P"; a; b ] -> NetModel.Partition (n_of_string a, n_of_string b)
              | [ "H"; a; b ] -> NetModel.Heal (n_of_string a, n_of_string b)
              | [ "Q" ] -> NetModel.Quiesce
              | _ -> failwith ("bad net op " ^ Stdlib.String.concat " " o)
            in
            let w', res = NetModel.step !w op in
            w := w';
            let r =
              match res with
              | Some (NetModel.DialOk b) -> "ok" ^ string_of_n b
              | Some NetModel.DialErr -> "err"
              | None -> "-"
            in
            r ^ " L=" ^ listing ())
          (group [] [] ops)
      in
      Stdlib.String.concat " | " out
  | [ "advhello"; primary; alt; sni; certname ] ->
      let b =
        { NetModel.n_primary = n_of_string primary;
          n_alt = (if alt = "-" then None else Some (n_of_string alt));
          n_limit = None; n_known = []; n_active = []; n_events = [] }
      in
      if NetModel.adversarial_hello_accepted b (n_of_string sni) (n_of_string certname) then "accepted" else "rejected"
  | ("vserver" | "vclient" | "peerid" | "hssig") :: _ as toks ->
      let kind = Stdlib.List.hd toks in
      let kvs =
        Stdlib.List.filter_map
          (fun s -> match Stdlib.String.index_opt s '=' with
             | Some i -> Some (Stdlib.String.sub s 0 i, Stdlib.String.sub s (i + 1) (Stdlib.String.length s - i - 1))
             | None -> None)
          (Stdlib.List.tl toks)
      in
      let g k d = match Stdlib.List.assoc_opt k kvs with Some v -> v | None -> d in
      let name_n s = n_of_string (Stdlib.String.sub s 1 (Stdlib.String.length s - 1)) in
      let names k = Stdlib.List.map name_n (Stdlib.List.filter (fun x -> x <> "") (Stdlib.String.split_on_char ',' (g k ""))) in
      let keyn s = if s = "e" then n_of_int 99 else n_of_string s in
      let k = g "k" "1" in
      let by = g "by" "self" in
      let signer = if by = "self" then k else by in
      let eku = g "eku" "none" in
      let role_server = kind <> "vclient" in
      let usage_ok =
        eku = "none" || eku = "both" || (role_server && eku = "server") || ((not role_server) && eku = "client")
      in
      let c =
        { Tls.c_wellformed = g "wf" "ok" = "ok";
          c_spki_alg = (if k = "e" then Tls.OtherAlg else Tls.Ed25519);
          c_key = keyn k;
          c_sig_alg = (if signer = "e" then Tls.OtherAlg else Tls.Ed25519);
          c_signed_by = keyn signer;
          c_names = names "names";
          c_valid_now = g "valid" "ok" = "ok";
          c_usage_ok = usage_ok }
      in
      (match kind with
       | "vserver" ->
           let accept = names "accept" in
           let sni = name_n (g "sni" "n0") in
           let accepted = if Stdlib.List.exists (fun x -> x = sni) accept then [ sni ] else [] in
           let pin = g "pin" "-" in
           let ok =
             if pin = "-" then Tls.verify_cert accepted c else Tls.verify_cert_pinned (keyn pin) accepted c
           in
           if ok then "ok" else "err"
       | "vclient" -> if Tls.verify_cert (names "accept") c then "ok" else "err"
       | "peerid" -> (match Tls.peer_id c with Some x -> "ok " ^ string_of_n x | None -> "err")
       | _ ->
           let scheme = if g "scheme" "ed" = "ed" then Tls.Ed25519 else Tls.OtherAlg in
           let tr = if g "mut" "0" = "1" || g "othermsg" "0" = "1" then N0 else n_of_int 1 in
           let p = { Tls.p_scheme = scheme; p_key = keyn (g "signer" "1"); p_transcript = tr } in
           if c.Tls.c_wellformed && Tls.verify_hs c p (n_of_int 1) then "ok" else "err")
  | [ "version"; v ] ->
      (match Wire.version_new (n_of_string v) with
       | Base.Ok v -> "OK " ^ string_of_n v
       | Base.Err _ -> "ERR")
  | [ "status"; c ] ->
      (match Status.status_new (n_of_string c) with
       | Some s ->
           Printf.sprintf "OK %s %d" (string_of_n (Status.status_to_u16 s))
             (if Status.is_success s then 1 else 0)
       | None -> "ERR")
  | [ "encver"; v ] -> "OK " ^ tohex (Wire.preamble (n_of_string v))
  | [ "decver"; data ] ->
      (match Wire.parse_preamble (unhex data) with
       | Base.Ok (v, _) -> "OK " ^ string_of_n v
       | Base.Err e -> "ERR " ^ err_name e)
  | c :: _ -> failwith ("unknown case " ^ c)
  | [] -> failwith "empty case"

let () =
  let _ = zeros in
  try
    while true do
      let line = String.trim (input_line stdin) in
      if line <> "" && line.[0] <> '#' then begin
        let toks =
          Stdlib.List.filter (fun s -> s <> "") (Stdlib.String.split_on_char ' ' line)
        in
        print_endline (run_case toks)
      end
    done
  with End_of_file -> ()
