#!/bin/sh
# Regenerates the extracted OCaml from coq/extract/Extract.v and builds modelrun.
# usage: ml/build.sh   (expects coq/ to be built: make -C coq)
set -e
cd "$(dirname "$0")"
rm -rf gen _build && mkdir -p gen _build
(cd gen && coqc -Q ../../coq/theories AnemoVerif -Q ../../coq/extract AnemoVerif.Extract ../../coq/extract/Extract.v >/dev/null)
cp gen/*.ml gen/*.mli driver.ml _build/
cd _build
# dependency order from ocamldep
ORDER=$(ocamlfind ocamldep -sort *.mli *.ml)
ocamlfind ocamlopt -O2 -w -a -o modelrun $ORDER 2>/dev/null || ocamlfind ocamlopt -w -a -o modelrun $ORDER
cp modelrun ../modelrun.new && mv -f ../modelrun.new ../modelrun
