//! Driver `teardown` (C08): real UDP sockets, multi-thread runtime; the runtime is dropped at a
//! seeded moment while Network handles are still alive, under a watchdog and a panic counter.
//!   teardown <connected|idle|shutdown-in-progress|after-shutdown|rebind> <runs> <seed>
use crate::simnet::key_from_seed;
use crate::util::*;
use anemo::{Network, Request, Response};
use bytes::Bytes;
use std::convert::Infallible;
use std::sync::atomic::Ordering;
use std::time::Duration;

fn echo() -> tower::util::BoxCloneService<Request<Bytes>, Response<Bytes>, Infallible> {
    tower::ServiceExt::boxed_clone(tower::service_fn(|req: Request<Bytes>| async move {
        Ok::<_, Infallible>(Response::new(req.into_body()))
    }))
}

/// A service whose live clones are counted and whose handler has a blocking section (a poll that does not
/// return for `busy_ms`: an abort takes effect only when it does).
struct Busy(std::sync::Arc<std::sync::atomic::AtomicI64>, u64);
impl Busy {
    fn new(c: std::sync::Arc<std::sync::atomic::AtomicI64>, busy_ms: u64) -> Busy {
        c.fetch_add(1, Ordering::SeqCst);
        Busy(c, busy_ms)
    }
}
impl Clone for Busy {
    fn clone(&self) -> Busy {
        Busy::new(self.0.clone(), self.1)
    }
}
impl Drop for Busy {
    fn drop(&mut self) {
        self.0.fetch_sub(1, Ordering::SeqCst);
    }
}
impl tower::Service<Request<Bytes>> for Busy {
    type Response = Response<Bytes>;
    type Error = Infallible;
    type Future = futures::future::BoxFuture<'static, Result<Response<Bytes>, Infallible>>;
    fn poll_ready(&mut self, _: &mut std::task::Context<'_>) -> std::task::Poll<Result<(), Infallible>> {
        std::task::Poll::Ready(Ok(()))
    }
    fn call(&mut self, req: Request<Bytes>) -> Self::Future {
        let ms = self.1;
        // like generated servers, which move a clone of their inner service into every request's future
        let me = self.clone();
        Box::pin(async move {
            let _me = me;
            std::thread::sleep(Duration::from_millis(ms));
            Ok(Response::new(req.into_body()))
        })
    }
}

fn net(seed: u64, idle_wait_ms: u64) -> Network {
    let mut cfg = anemo::Config::default();
    cfg.shutdown_idle_timeout_ms = Some(idle_wait_ms);
    Network::bind("127.0.0.1:0")
        .server_name("teardown")
        .private_key(key_from_seed(seed))
        .config(cfg)
        .start(echo())
        .unwrap()
}

pub fn run() {
    for_each_case(|t| {
        let variant = t[1].to_string();
        let runs: usize = t[2].parse().unwrap();
        let mut seed: u64 = t[3].parse().unwrap();
        let (mut panics, mut hangs, mut rebind_failures, mut rebind_transient) = (0u64, 0u64, 0u64, 0u64);
        let (mut clones_left, mut busy_runs) = (0u64, 0u64);
        let mut where_ = String::new();
        LAST_PANIC.lock().unwrap().clear();
        for i in 0..runs {
            seed = seed.wrapping_mul(6364136223846793005).wrapping_add(1442695040888963407);
            let before = PANICS.load(Ordering::SeqCst);
            let rt = tokio::runtime::Builder::new_multi_thread().worker_threads(4).enable_all().build().unwrap();
            let variant2 = variant.clone();
            let spin = (seed >> 33) % 2000;
            let (a, b, addr, busy) = rt.block_on(async move {
                // the idle wait of shutdown() is bounded: with a short bound it ends while connections are still
                // draining, with a long one the endpoint goes idle first; the address must be free either way
                let idle_wait = if variant2 == "rebind" { [0u64, 1, 5, 20, 200][(seed >> 20) as usize % 5] } else { 200 };
                let clones = std::sync::Arc::new(std::sync::atomic::AtomicI64::new(0));
                let a = if variant2 == "busy" || variant2 == "busy-close" {
                    let mut cfg = anemo::Config::default();
                    cfg.shutdown_idle_timeout_ms = Some(idle_wait);
                    Network::bind("127.0.0.1:0")
                        .server_name("teardown")
                        .private_key(key_from_seed(2 * i as u64 + 1))
                        .config(cfg)
                        .start(Busy::new(clones.clone(), if variant2 == "busy-close" { 700 } else { 150 + (seed >> 12) % 200 }))
                        .unwrap()
                } else {
                    net(2 * i as u64 + 1, idle_wait)
                };
                let b = net(2 * i as u64 + 2, 200);
                let addr = a.local_addr();
                if variant2 != "idle" {
                    let _ = a.connect(b.local_addr()).await;
                }
                match variant2.as_str() {
                    "shutdown-in-progress" => {
                        let a2 = a.clone();
                        tokio::spawn(async move { let _ = a2.shutdown().await; });
                        tokio::task::yield_now().await;
                    }
                    "after-shutdown" | "rebind" => {
                        let _ = a.shutdown().await;
                    }
                    "busy-close" => {
                        // b's request is inside a's handler (in its blocking section) when b closes the connection: a has seen
                        // the connection closed and must not list b any more, whatever that handler is doing (C04)
                        let b2 = b.clone();
                        let (pa, pb) = (a.peer_id(), b.peer_id());
                        for _ in 0..200 {
                            if b.peers().contains(&pa) {
                                break;
                            }
                            tokio::time::sleep(Duration::from_millis(5)).await;
                        }
                        let entered = clones.load(Ordering::SeqCst);
                        tokio::spawn(async move { let _ = b2.rpc(pa, Request::new(Bytes::from_static(b"x"))).await; });
                        for _ in 0..400 {
                            if clones.load(Ordering::SeqCst) > entered {
                                break;
                            }
                            tokio::time::sleep(Duration::from_millis(1)).await;
                        }
                        let inside = clones.load(Ordering::SeqCst) > entered;
                        let _ = b.disconnect(pa);
                        tokio::time::sleep(Duration::from_millis(300)).await;
                        let stale = a.peers().contains(&pb);
                        let still_busy = clones.load(Ordering::SeqCst) > entered;
                        tokio::time::sleep(Duration::from_millis(500)).await;
                        return (a, b, addr, ((inside && still_busy) as i64, stale as i64));
                    }
                    "busy" => {
                        // b's request is inside a's handler (in its blocking section) when a shuts down: when shutdown()
                        // returns, every clone of a's service must be gone
                        let b2 = b.clone();
                        let pa = a.peer_id();
                        for _ in 0..200 {
                            if b.peers().contains(&pa) {
                                break;
                            }
                            tokio::time::sleep(Duration::from_millis(5)).await;
                        }
                        let entered = clones.load(Ordering::SeqCst);
                        tokio::spawn(async move { let r = b2.rpc(pa, Request::new(Bytes::from_static(b"x"))).await; if std::env::var("VERIF_DEBUG").is_ok() { eprintln!("rpc -> {:?}", r.map(|x| x.status())); } });
                        // wait until the request is inside the handler (a further clone of the service exists), then a little more
                        for _ in 0..400 {
                            if clones.load(Ordering::SeqCst) > entered {
                                break;
                            }
                            tokio::time::sleep(Duration::from_millis(1)).await;
                        }
                        let inside = clones.load(Ordering::SeqCst) > entered;
                        if std::env::var("VERIF_DEBUG").is_ok() { eprintln!("entered={entered} now={}", clones.load(Ordering::SeqCst)); }
                        tokio::time::sleep(Duration::from_millis((seed >> 40) % 40)).await;
                        let r = a.shutdown().await;
                        let left = clones.load(Ordering::SeqCst);
                        return (a, b, addr, ((r.is_ok() && inside) as i64, left));
                    }
                    _ => {}
                }
                (a, b, addr, (0, 0))
            });
            if variant == "busy" || variant == "busy-close" {
                busy_runs += busy.0 as u64;
                if busy.0 == 1 && busy.1 != 0 {
                    clones_left += 1;
                }
            }
            if variant == "rebind" && std::net::UdpSocket::bind(addr).is_err() {
                // not free at once.  Transient (connections still draining when the idle-wait bound was hit keep the
                // old socket until their drivers have handled the rebind) or lasting (the endpoint still owns it)?
                let t0 = std::time::Instant::now();
                let mut freed = false;
                while t0.elapsed() < Duration::from_millis(1500) {
                    std::thread::sleep(Duration::from_millis(10));
                    if std::net::UdpSocket::bind(addr).is_ok() {
                        freed = true;
                        break;
                    }
                }
                if freed {
                    rebind_transient += 1;
                } else {
                    rebind_failures += 1;
                }
            }
            // a seeded amount of spinning so that the drop lands at different moments
            for _ in 0..spin {
                std::hint::spin_loop();
            }
            // drop the runtime with the handles alive, under a watchdog
            let (tx, rx) = std::sync::mpsc::channel();
            let h = std::thread::spawn(move || {
                drop(rt);
                let _ = tx.send(());
            });
            match rx.recv_timeout(Duration::from_secs(5)) {
                Ok(()) => {
                    let _ = h.join();
                }
                Err(_) => {
                    hangs += 1; // the thread is leaked; its runtime keeps spinning
                }
            }
            drop(a);
            drop(b);
            let after = PANICS.load(Ordering::SeqCst);
            if after > before {
                panics += 1;
                if where_.is_empty() {
                    where_ = LAST_PANIC.lock().unwrap().clone();
                }
            }
            if hangs >= 3 {
                break; // every hang leaks a spinning thread
            }
        }
        format!(
            "runs={runs} panics={panics} hangs={hangs} rebind_failures={rebind_failures} rebind_transient={rebind_transient} busy_shutdowns={busy_runs} clones_left={clones_left} where={}",
            if where_.is_empty() { "-".into() } else { where_.replace(' ', "_") }
        )
    });
}
