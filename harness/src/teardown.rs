//! Driver `teardown` (C08): real UDP sockets, multi-thread runtime; the runtime is dropped at a
//! seeded moment while Network handles are still alive, under a watchdog and a panic counter.
//!   teardown <connected|idle|shutdown-in-progress|after-shutdown|rebind> <runs> <seed>
use crate::simnet::key_from_seed;
use crate::util::*;
use anemo::{Network, Request, Response};
use bytes::Bytes;
use std::convert::Infallible;
use std::sync::atomic::Ordering;
use std::time::Duration;

fn echo() -> tower::util::BoxCloneService<Request<Bytes>, Response<Bytes>, Infallible> {
    tower::ServiceExt::boxed_clone(tower::service_fn(|req: Request<Bytes>| async move {
        Ok::<_, Infallible>(Response::new(req.into_body()))
    }))
}

fn net(seed: u64, idle_wait_ms: u64) -> Network {
    let mut cfg = anemo::Config::default();
    cfg.shutdown_idle_timeout_ms = Some(idle_wait_ms);
    Network::bind("127.0.0.1:0")
        .server_name("teardown")
        .private_key(key_from_seed(seed))
        .config(cfg)
        .start(echo())
        .unwrap()
}

pub fn run() {
    for_each_case(|t| {
        let variant = t[1].to_string();
        let runs: usize = t[2].parse().unwrap();
        let mut seed: u64 = t[3].parse().unwrap();
        let (mut panics, mut hangs, mut rebind_failures, mut rebind_transient) = (0u64, 0u64, 0u64, 0u64);
        let mut where_ = String::new();
        LAST_PANIC.lock().unwrap().clear();
        for i in 0..runs {
            seed = seed.wrapping_mul(6364136223846793005).wrapping_add(1442695040888963407);
            let before = PANICS.load(Ordering::SeqCst);
            let rt = tokio::runtime::Builder::new_multi_thread().worker_threads(4).enable_all().build().unwrap();
            let variant2 = variant.clone();
            let spin = (seed >> 33) % 2000;
            let (a, b, addr) = rt.block_on(async move {
                // the idle wait of shutdown() is bounded: with a short bound it ends while connections are still
                // draining, with a long one the endpoint goes idle first; the address must be free either way
                let idle_wait = if variant2 == "rebind" { [0u64, 1, 5, 20, 200][(seed >> 20) as usize % 5] } else { 200 };
                let a = net(2 * i as u64 + 1, idle_wait);
                let b = net(2 * i as u64 + 2, 200);
                let addr = a.local_addr();
                if variant2 != "idle" {
                    let _ = a.connect(b.local_addr()).await;
                }
                match variant2.as_str() {
                    "shutdown-in-progress" => {
                        let a2 = a.clone();
                        tokio::spawn(async move { let _ = a2.shutdown().await; });
                        tokio::task::yield_now().await;
                    }
                    "after-shutdown" | "rebind" => {
                        let _ = a.shutdown().await;
                    }
                    _ => {}
                }
                (a, b, addr)
            });
            if variant == "rebind" && std::net::UdpSocket::bind(addr).is_err() {
                // not free at once.  Transient (connections still draining when the idle-wait bound was hit keep the
                // old socket until their drivers have handled the rebind) or lasting (the endpoint still owns it)?
                let t0 = std::time::Instant::now();
                let mut freed = false;
                while t0.elapsed() < Duration::from_millis(1500) {
                    std::thread::sleep(Duration::from_millis(10));
                    if std::net::UdpSocket::bind(addr).is_ok() {
                        freed = true;
                        break;
                    }
                }
                if freed {
                    rebind_transient += 1;
                } else {
                    rebind_failures += 1;
                }
            }
            // a seeded amount of spinning so that the drop lands at different moments
            for _ in 0..spin {
                std::hint::spin_loop();
            }
            // drop the runtime with the handles alive, under a watchdog
            let (tx, rx) = std::sync::mpsc::channel();
            let h = std::thread::spawn(move || {
                drop(rt);
                let _ = tx.send(());
            });
            match rx.recv_timeout(Duration::from_secs(5)) {
                Ok(()) => {
                    let _ = h.join();
                }
                Err(_) => {
                    hangs += 1; // the thread is leaked; its runtime keeps spinning
                }
            }
            drop(a);
            drop(b);
            let after = PANICS.load(Ordering::SeqCst);
            if after > before {
                panics += 1;
                if where_.is_empty() {
                    where_ = LAST_PANIC.lock().unwrap().clone();
                }
            }
            if hangs >= 3 {
                break; // every hang leaks a spinning thread
            }
        }
        format!(
            "runs={runs} panics={panics} hangs={hangs} rebind_failures={rebind_failures} rebind_transient={rebind_transient} where={}",
            if where_.is_empty() { "-".into() } else { where_.replace(' ', "_") }
        )
    });
}
