//! Driver `certs` (C01, C03, C14): the certificate verifiers, peer_id_from_certificate and the
//! handshake-signature verification through the H1c wrappers, on concrete certificates built
//! from symbolic records.
//!
//! cert spec tokens (after the case keyword): k=<1|2|3|e> by=<self|1|2|3|e> names=a,b valid=<ok|expired|future>
//!   eku=<none|server|client|both> wf=<ok|trunc|flip>
use crate::simnet::key_from_seed;
use crate::util::*;
use anemo::verif;
use rcgen::{CertificateParams, ExtendedKeyUsagePurpose, KeyPair};
use std::collections::HashMap;

pub fn pkcs8_ed25519(seed: &[u8; 32]) -> Vec<u8> {
    let mut v = hex::decode("302e020100300506032b657004220420").unwrap();
    v.extend_from_slice(seed);
    v
}

pub fn ed_keypair(k: u64) -> KeyPair {
    let der = rustls::pki_types::PrivateKeyDer::Pkcs8(pkcs8_ed25519(&key_from_seed(k)).into());
    KeyPair::from_der_and_sign_algo(&der, &rcgen::PKCS_ED25519).unwrap()
}

thread_local! {
    static ECDSA: KeyPair = KeyPair::generate_for(&rcgen::PKCS_ECDSA_P256_SHA256).unwrap();
}

pub fn ecdsa_pkcs8() -> Vec<u8> {
    ECDSA.with(|k| k.serialize_der())
}

fn keypair(spec: &str) -> KeyPair {
    if spec == "e" {
        ECDSA.with(|k| KeyPair::try_from(k.serialize_der()).unwrap())
    } else {
        ed_keypair(spec.parse().unwrap())
    }
}

fn kv<'a>(t: &'a [&'a str]) -> HashMap<&'a str, &'a str> {
    t.iter().filter_map(|x| x.split_once('=')).collect()
}

pub fn build_cert(a: &HashMap<&str, &str>) -> Vec<u8> {
    let names: Vec<String> = a.get("names").unwrap_or(&"").split(',').filter(|s| !s.is_empty()).map(|s| s.to_string()).collect();
    let mut params = CertificateParams::new(names).unwrap();
    match *a.get("valid").unwrap_or(&"ok") {
        "expired" => {
            params.not_before = rcgen::date_time_ymd(1999, 1, 1);
            params.not_after = rcgen::date_time_ymd(2000, 1, 1);
        }
        "future" => {
            params.not_before = rcgen::date_time_ymd(2200, 1, 1);
            params.not_after = rcgen::date_time_ymd(2300, 1, 1);
        }
        _ => {}
    }
    params.extended_key_usages = match *a.get("eku").unwrap_or(&"none") {
        "server" => vec![ExtendedKeyUsagePurpose::ServerAuth],
        "client" => vec![ExtendedKeyUsagePurpose::ClientAuth],
        "both" => vec![ExtendedKeyUsagePurpose::ServerAuth, ExtendedKeyUsagePurpose::ClientAuth],
        _ => vec![],
    };
    // decoy=<k>: the 44 bytes <Ed25519 SubjectPublicKeyInfo DER header || public key of identity k> placed in the
    // serial number (a field in front of the real subjectPublicKeyInfo); decoyext=<k>: the same in a private
    // extension (behind it).  The certificate stays valid and correctly self-signed with its own key.
    let spki_of = |k: &str| -> Vec<u8> {
        let mut v = hex::decode("302a300506032b6570032100").unwrap();
        v.extend_from_slice(&rcgen::PublicKeyData::der_bytes(&keypair(k)));
        v
    };
    if let Some(k) = a.get("decoy") {
        params.serial_number = Some(rcgen::SerialNumber::from_slice(&spki_of(k)));
    }
    if let Some(k) = a.get("decoyext") {
        params.custom_extensions.push(rcgen::CustomExtension::from_oid_content(&[1, 3, 6, 1, 4, 1, 99999, 1], spki_of(k)));
    }
    let subject = keypair(a.get("k").unwrap_or(&"1"));
    let by = *a.get("by").unwrap_or(&"self");
    let cert = if by == "self" {
        params.self_signed(&subject).unwrap()
    } else {
        let issuer_key = keypair(by);
        let issuer = CertificateParams::new(vec!["issuer".to_string()]).unwrap().self_signed(&issuer_key).unwrap();
        params.signed_by(&subject, &issuer, &issuer_key).unwrap()
    };
    let mut der = cert.der().to_vec();
    match *a.get("wf").unwrap_or(&"ok") {
        "trunc" => der.truncate(der.len() / 2),
        "flip" => der[0] ^= 0x01,
        _ => {}
    }
    der
}

fn names(a: &HashMap<&str, &str>, k: &str) -> Vec<String> {
    a.get(k).unwrap_or(&"").split(',').filter(|s| !s.is_empty()).map(|s| s.to_string()).collect()
}

fn pid_name(p: &anemo::PeerId) -> String {
    for k in 1..=3u64 {
        if let Ok((id, _)) = verif::endpoint_identity(key_from_seed(k), "x") {
            if id == *p {
                return k.to_string();
            }
        }
    }
    "?".into()
}

pub fn run() {
    for_each_case(|t| {
        catch(|| {
            let a = kv(&t[1..]);
            match t[0] {
                // vserver accept=<names> sni=<name> pin=<k|-> <cert spec>
                "vserver" => {
                    let der = build_cert(&a);
                    let pin = match *a.get("pin").unwrap_or(&"-") {
                        "-" => None,
                        k => Some(verif::endpoint_identity(key_from_seed(k.parse().unwrap()), "x").unwrap().0),
                    };
                    match verif::verify_server_cert(names(&a, "accept"), pin, &der, a.get("sni").unwrap(), None) {
                        Ok(()) => "ok".into(),
                        Err(_) => "err".into(),
                    }
                }
                // vclient accept=<names> <cert spec>
                "vclient" => {
                    let der = build_cert(&a);
                    match verif::verify_client_cert(names(&a, "accept"), &der, None) {
                        Ok(()) => "ok".into(),
                        Err(_) => "err".into(),
                    }
                }
                // peerid <cert spec>
                "peerid" => match verif::peer_id_from_certificate(&build_cert(&a)) {
                    Ok(p) => format!("ok {}", pid_name(&p)),
                    Err(_) => "err".into(),
                },
                // the certificate anemo itself generates: identity and acceptance
                "honest" => {
                    let k: u64 = a.get("k").unwrap().parse().unwrap();
                    let (id, _) = verif::endpoint_identity(key_from_seed(k), a.get("name").unwrap()).unwrap();
                    format!("ok {}", pid_name(&id))
                }
                // mutate accept=.. sni=.. <cert spec>: every single-byte mutation of the certificate
                "mutate" => {
                    let der = build_cert(&a);
                    let orig = verif::peer_id_from_certificate(&der).ok();
                    let accept = names(&a, "accept");
                    let sni = a.get("sni").unwrap().to_string();
                    let (mut total, mut accepted, mut same, mut pid_changed) = (0, 0, 0, 0);
                    for off in 0..der.len() {
                        for x in [0x01u8, 0x80, 0xff] {
                            let mut m = der.clone();
                            m[off] ^= x;
                            total += 1;
                            let okc = verif::verify_client_cert(accept.clone(), &m, None).is_ok();
                            let oks = verif::verify_server_cert(accept.clone(), None, &m, &sni, None).is_ok();
                            if okc || oks {
                                accepted += 1;
                                if verif::peer_id_from_certificate(&m).ok() == orig {
                                    same += 1;
                                }
                            }
                            if let Ok(p) = verif::peer_id_from_certificate(&m) {
                                if Some(p) != orig {
                                    pid_changed += 1;
                                }
                            }
                        }
                    }
                    format!("total={total} accepted={accepted} same_identity={same} parsable_with_other_identity={pid_changed}")
                }
                // hssig which=<0|1|2> signer=<k> scheme=<ed|ecdsa|rsa> mut=<0|1> <cert spec>
                "hssig" => {
                    use ring::signature::Ed25519KeyPair;
                    let der = build_cert(&a);
                    let msg = b"TLS 1.3, server CertificateVerify\0transcript-hash-of-this-handshake";
                    let signer: u64 = a.get("signer").unwrap().parse().unwrap();
                    let kp = Ed25519KeyPair::from_seed_unchecked(&key_from_seed(signer)).unwrap();
                    let mut sig = kp.sign(msg).as_ref().to_vec();
                    if a.get("mut") == Some(&"1") {
                        sig[5] ^= 0x40;
                    }
                    let scheme: u16 = match *a.get("scheme").unwrap_or(&"ed") {
                        "ed" => 0x0807,
                        "ecdsa" => 0x0403,
                        _ => 0x0804,
                    };
                    let m: &[u8] = if a.get("othermsg") == Some(&"1") { b"another transcript" } else { msg };
                    match verif::verify_tls13_signature(a.get("which").unwrap().parse().unwrap(), m, &der, scheme, &sig) {
                        Ok(()) => "ok".into(),
                        Err(_) => "err".into(),
                    }
                }
                "policy" => {
                    let (offer, mandatory) = verif::client_auth_policy();
                    let s = verif::supported_verify_schemes();
                    format!("offer={} mandatory={} schemes={:?}", offer as u8, mandatory as u8, s).replace(' ', "")
                }
                other => panic!("unknown certs case {other}"),
            }
        })
    });
}
