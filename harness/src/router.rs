//! Driver `router`: the public `anemo::Router` built by an operation sequence and queried with
//! arbitrary route strings.
//!
//! case: router <op>* | <pathhex>*
//!   op = r:<pathhex>:<sid>   route(path, service sid)
//!      | S<k>:<sid>          add_rpc_service(service with SERVICE_NAME number k)
//!      | L<lid>              route_layer(layer lid)
//!      | [  ...  ]           build a nested router and merge it
//!      | [c ...  ]           the nested router starts as a clone of the current one
use crate::util::*;
use anemo::rpc::RpcService;
use anemo::{Request, Response, Router};
use bytes::Bytes;
use std::convert::Infallible;
use std::task::{Context, Poll};
use tower::{Layer, Service, ServiceExt};

#[derive(Clone)]
struct Tag(u32);
impl Service<Request<Bytes>> for Tag {
    type Response = Response<Bytes>;
    type Error = Infallible;
    type Future = std::future::Ready<Result<Response<Bytes>, Infallible>>;
    fn poll_ready(&mut self, _: &mut Context<'_>) -> Poll<Result<(), Infallible>> {
        Poll::Ready(Ok(()))
    }
    fn call(&mut self, req: Request<Bytes>) -> Self::Future {
        let trace = req.headers().get("trace").cloned().unwrap_or_default();
        std::future::ready(Ok(Response::new(Bytes::from(format!("s{}{}", self.0, trace)))))
    }
}

macro_rules! named {
    ($t:ident, $name:expr) => {
        #[derive(Clone)]
        struct $t(Tag);
        impl RpcService for $t {
            const SERVICE_NAME: &'static str = $name;
        }
        impl Service<Request<Bytes>> for $t {
            type Response = Response<Bytes>;
            type Error = Infallible;
            type Future = std::future::Ready<Result<Response<Bytes>, Infallible>>;
            fn poll_ready(&mut self, _: &mut Context<'_>) -> Poll<Result<(), Infallible>> {
                Poll::Ready(Ok(()))
            }
            fn call(&mut self, req: Request<Bytes>) -> Self::Future {
                self.0.call(req)
            }
        }
    };
}
pub const SERVICE_NAMES: [&str; 4] = ["A", "pkg.Svc", "a.b.C", "x"];
named!(Svc0, "A");
named!(Svc1, "pkg.Svc");
named!(Svc2, "a.b.C");
named!(Svc3, "x");

#[derive(Clone)]
struct Mark(u32);
#[derive(Clone)]
struct Marked<S>(S, u32);
impl<S> Layer<S> for Mark {
    type Service = Marked<S>;
    fn layer(&self, inner: S) -> Marked<S> {
        Marked(inner, self.0)
    }
}
impl<S> Service<Request<Bytes>> for Marked<S>
where
    S: Service<Request<Bytes>, Response = Response<Bytes>, Error = Infallible>,
    S::Future: Send + 'static,
{
    type Response = Response<Bytes>;
    type Error = Infallible;
    type Future = std::pin::Pin<Box<dyn std::future::Future<Output = Result<Response<Bytes>, Infallible>> + Send>>;
    fn poll_ready(&mut self, cx: &mut Context<'_>) -> Poll<Result<(), Infallible>> {
        self.0.poll_ready(cx)
    }
    fn call(&mut self, mut req: Request<Bytes>) -> Self::Future {
        let mut trace = req.headers().get("trace").cloned().unwrap_or_default();
        trace.push_str(&format!(";l{}", self.1));
        req.headers_mut().insert("trace".into(), trace);
        // the layer also marks the response, so that it is visible on whatever it wraps (the fallback too)
        let id = self.1;
        let fut = self.0.call(req);
        Box::pin(async move {
            let mut resp = fut.await?;
            let mut seen = resp.headers().get("layers-seen").cloned().unwrap_or_default();
            seen.push_str(&format!(";l{id}"));
            resp.headers_mut().insert("layers-seen".into(), seen);
            Ok(resp)
        })
    }
}

pub fn run() {
    let rt = tokio::runtime::Builder::new_current_thread().build().unwrap();
    for_each_case(|t| {
        let bar = t.iter().position(|x| *x == "|").unwrap();
        let ops = &t[1..bar];
        let paths = &t[bar + 1..];
        // build; each op is guarded so that a rejected route is reported and skipped
        let mut stack: Vec<Router> = vec![Router::new()];
        let mut build = Vec::new();
        for (i, op) in ops.iter().enumerate() {
            let top = stack.pop().unwrap();
            let r = std::panic::catch_unwind(std::panic::AssertUnwindSafe(|| -> Vec<Router> {
                if *op == "[c" {
                    // the nested router starts as a clone of the one built so far (then usually gets a route layer):
                    // merging it back registers every path a second time
                    let c = top.clone();
                    vec![top, c]
                } else if *op == "[" {
                    vec![top, Router::new()]
                } else if *op == "]" {
                    let below = stack.pop().unwrap();
                    vec![below.merge(top)]
                } else if let Some(rest) = op.strip_prefix("r:") {
                    let (p, sid) = rest.split_once(':').unwrap();
                    let path = String::from_utf8(unhex(p)).unwrap();
                    vec![top.route(&path, Tag(sid.parse().unwrap()))]
                } else if let Some(rest) = op.strip_prefix('S') {
                    let (k, sid) = rest.split_once(':').unwrap();
                    let tag = Tag(sid.parse().unwrap());
                    vec![match k {
                        "0" => top.add_rpc_service(Svc0(tag)),
                        "1" => top.add_rpc_service(Svc1(tag)),
                        "2" => top.add_rpc_service(Svc2(tag)),
                        _ => top.add_rpc_service(Svc3(tag)),
                    }]
                } else if let Some(l) = op.strip_prefix('L') {
                    vec![top.route_layer(Mark(l.parse().unwrap()))]
                } else {
                    panic!("bad op")
                }
            }));
            match r {
                Ok(v) => {
                    if *op == "]" {
                        // `below` was popped inside the closure
                    }
                    stack.extend(v);
                    build.push("ok".to_string());
                }
                Err(_) => {
                    // the router consumed by the failed op is lost; the case ends here
                    build.push(format!("PANIC@{i}"));
                    return format!("build={} |", build.join(","));
                }
            }
        }
        let router = stack.pop().unwrap();
        let mut outs = Vec::new();
        for p in paths {
            let raw = unhex(p);
            let path = match String::from_utf8(raw) {
                Ok(s) => s,
                Err(_) => {
                    outs.push("skip".to_string());
                    continue;
                }
            };
            let r = std::panic::catch_unwind(std::panic::AssertUnwindSafe(|| {
                let req = Request::new(Bytes::new()).with_route(path);
                rt.block_on(router.clone().oneshot(req)).unwrap()
            }));
            outs.push(match r {
                Ok(resp) => {
                    if resp.status() == anemo::types::response::StatusCode::NotFound && resp.body().is_empty() {
                        // a route layer that ran for an unmatched request shows here
                        format!("404{}", resp.headers().get("layers-seen").cloned().unwrap_or_default())
                    } else {
                        String::from_utf8_lossy(resp.body()).to_string()
                    }
                }
                Err(_) => "PANIC".to_string(),
            });
        }
        format!("build={} | {}", build.join(","), outs.join(" "))
    });
}
