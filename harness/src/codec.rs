//! Driver `codec`: the wire codecs of network/wire.rs through the H1 wrappers.
use crate::util::*;
use anemo::types::response::StatusCode;
use anemo::types::Version;
use anemo::{verif, Config, Request, Response};
use bytes::Bytes;
use std::pin::Pin;
use std::task::{Context, Poll};
use tokio::io::{AsyncRead, ReadBuf};

/// An AsyncRead over a byte slice that hands out at most `chunk` bytes per poll (0 = no limit)
/// and returns Pending once between chunks, so that the decoders see every split of the input.
struct Chunked<'a> {
    data: &'a [u8],
    chunk: usize,
    yield_next: bool,
}

impl AsyncRead for Chunked<'_> {
    fn poll_read(
        mut self: Pin<&mut Self>,
        cx: &mut Context<'_>,
        buf: &mut ReadBuf<'_>,
    ) -> Poll<std::io::Result<()>> {
        if self.chunk != 0 && self.yield_next {
            self.yield_next = false;
            cx.waker().wake_by_ref();
            return Poll::Pending;
        }
        let mut n = self.data.len().min(buf.remaining());
        if self.chunk != 0 {
            n = n.min(self.chunk);
        }
        let (a, b) = self.data.split_at(n);
        buf.put_slice(a);
        self.data = b;
        self.yield_next = true;
        Poll::Ready(Ok(()))
    }
}

fn config(max: &str) -> Config {
    let mut c = Config::default();
    if max != "none" {
        c.max_frame_size = Some(max.parse().unwrap());
    }
    c
}

pub fn classify(e: &anyhow::Error) -> &'static str {
    // errors raised by bincode while decoding the header frame (including its own EOF errors)
    if e.downcast_ref::<bincode::Error>().is_some() {
        return "bincode";
    }
    let s = format!("{e:#}");
    if s.contains("Invalid Protocol Header") {
        "preamble"
    } else if s.contains("invalid version") {
        "version"
    } else if s.contains("frame size too big") {
        "toobig"
    } else if s.contains("invalid StatusCode") {
        "status"
    } else if s.contains("unexpected EOF")
        || s.contains("early eof")
        || s.contains("bytes remaining on stream")
        || s.contains("unexpected end of file")
    {
        "short"
    } else {
        "other"
    }
}

fn headers(toks: &[&str]) -> Vec<(String, String)> {
    let n: usize = toks[0].parse().unwrap();
    let mut v = Vec::new();
    for i in 0..n {
        let k = String::from_utf8(unhex(toks[1 + 2 * i])).expect("case keys must be utf8");
        let val = String::from_utf8(unhex(toks[2 + 2 * i])).expect("case values must be utf8");
        v.push((k, val));
    }
    v
}

fn fmt_headers(h: &anemo::types::HeaderMap) -> String {
    let mut v: Vec<_> = h.iter().collect();
    v.sort();
    let mut s = format!("{}", v.len());
    for (k, val) in v {
        s.push(' ');
        s.push_str(&tohex(k.as_bytes()));
        s.push(' ');
        s.push_str(&tohex(val.as_bytes()));
    }
    s
}

pub fn run() {
    let rt = tokio::runtime::Builder::new_current_thread()
        .enable_all()
        .build()
        .unwrap();
    for_each_case(|t| {
        catch(|| match t[0] {
            // encreq <max> <route> <body> <n> (<k> <v>)*
            "encreq" => {
                let cfg = config(t[1]);
                let mut req = Request::new(Bytes::from(unhex(t[3])))
                    .with_route(String::from_utf8(unhex(t[2])).unwrap());
                for (k, v) in headers(&t[4..]) {
                    req.headers_mut().insert(k, v);
                }
                // a local extension must never travel
                let req = req.with_extension(0xdead_beef_u32);
                match rt.block_on(verif::write_request(&cfg, Vec::new(), req)) {
                    Ok(b) => format!("OK {}", tohex(&b)),
                    Err(e) => format!("ERR {}", classify(&e)),
                }
            }
            // encresp <max> <status> <body> <n> (<k> <v>)*
            "encresp" => {
                let cfg = config(t[1]);
                let status = StatusCode::new(t[2].parse().unwrap()).expect("case status valid");
                let mut resp = Response::new(Bytes::from(unhex(t[3]))).with_status(status);
                for (k, v) in headers(&t[4..]) {
                    resp.headers_mut().insert(k, v);
                }
                let resp = resp.with_extension(0xdead_beef_u32);
                match rt.block_on(verif::write_response(&cfg, Vec::new(), resp)) {
                    Ok(b) => format!("OK {}", tohex(&b)),
                    Err(e) => format!("ERR {}", classify(&e)),
                }
            }
            // decreq <max> <chunk> <bytes>
            "decreq" => {
                let cfg = config(t[1]);
                let data = unhex(t[3]);
                let rd = Chunked {
                    data: &data,
                    chunk: t[2].parse().unwrap(),
                    yield_next: false,
                };
                match rt.block_on(verif::read_request(&cfg, rd)) {
                    Ok(r) => format!(
                        "OK {} {} {} {} ext={}",
                        r.version().to_u16(),
                        tohex(r.route().as_bytes()),
                        tohex(r.body()),
                        fmt_headers(r.headers()),
                        r.extensions().len()
                    ),
                    Err(e) => format!("ERR {}", classify(&e)),
                }
            }
            "decresp" => {
                let cfg = config(t[1]);
                let data = unhex(t[3]);
                let rd = Chunked {
                    data: &data,
                    chunk: t[2].parse().unwrap(),
                    yield_next: false,
                };
                match rt.block_on(verif::read_response(&cfg, rd)) {
                    Ok(r) => format!(
                        "OK {} {} {} {} ext={}",
                        r.version().to_u16(),
                        r.status().to_u16(),
                        tohex(r.body()),
                        fmt_headers(r.headers()),
                        r.extensions().len()
                    ),
                    Err(e) => format!("ERR {}", classify(&e)),
                }
            }
            // framelen <max> <n>: can a frame (body) of n zero bytes be encoded / decoded?
            "framelen" => {
                let cfg = config(t[1]);
                let n: usize = t[2].parse().unwrap();
                let req = Request::new(Bytes::from(vec![0u8; n])).with_route("/");
                let enc = rt.block_on(verif::write_request(&cfg, Vec::new(), req));
                // decoding side: build the bytes with no limit on the writer
                let mut wcfg = Config::default();
                wcfg.max_frame_size = Some(u32::MAX as usize);
                let req = Request::new(Bytes::from(vec![0u8; n])).with_route("/");
                let bytes = rt
                    .block_on(verif::write_request(&wcfg, Vec::new(), req))
                    .expect("unlimited writer");
                let dec = rt.block_on(verif::read_request(&cfg, &bytes[..]));
                let e = match &enc {
                    Ok(b) => format!("OK{}", if b.len() == bytes.len() { "" } else { "!len" }),
                    Err(e) => format!("ERR:{}", classify(e)),
                };
                let d = match &dec {
                    Ok(r) => format!("OK{}", if r.body().len() == n { "" } else { "!len" }),
                    Err(e) => format!("ERR:{}", classify(e)),
                };
                format!("enc={e} dec={d}")
            }
            // framelen2 <max> <hn> <bn>: request and response whose header frame has exactly hn bytes
            // (hn >= 27) and whose body has bn bytes, under limit <max>, in both directions; the
            // receiving side is fed bytes produced by a writer with the largest possible limit.
            "framelen2" => {
                let cfg = config(t[1]);
                let hn: usize = t[2].parse().unwrap();
                let bn: usize = t[3].parse().unwrap();
                assert!(hn >= 27);
                let mut wcfg = Config::default();
                wcfg.max_frame_size = Some(u32::MAX as usize);
                let mk_req = || {
                    Request::new(Bytes::from(vec![7u8; bn])).with_route("a".repeat(hn - 16))
                };
                let mk_resp = || {
                    Response::new(Bytes::from(vec![7u8; bn]))
                        .with_status(StatusCode::NotFound)
                        .with_header("k", "v".repeat(hn - 27))
                };
                let f = |r: &anyhow::Result<bool>| match r {
                    Ok(true) => "OK".to_string(),
                    Ok(false) => "OK!content".to_string(),
                    Err(e) => format!("ERR:{}", classify(e)),
                };
                let wreq = rt
                    .block_on(verif::write_request(&wcfg, Vec::new(), mk_req()))
                    .expect("unlimited writer");
                let wresp = rt
                    .block_on(verif::write_response(&wcfg, Vec::new(), mk_resp()))
                    .expect("unlimited writer");
                let e1 = rt
                    .block_on(verif::write_request(&cfg, Vec::new(), mk_req()))
                    .map(|b| b == wreq);
                let d1 = rt.block_on(verif::read_request(&cfg, &wreq[..])).map(|r| {
                    r.body().len() == bn
                        && r.body().iter().all(|b| *b == 7)
                        && r.route().len() == hn - 16
                });
                let e2 = rt
                    .block_on(verif::write_response(&cfg, Vec::new(), mk_resp()))
                    .map(|b| b == wresp);
                let d2 = rt.block_on(verif::read_response(&cfg, &wresp[..])).map(|r| {
                    r.body().len() == bn
                        && r.body().iter().all(|b| *b == 7)
                        && r.headers().get("k").map(|v| v.len()) == Some(hn - 27)
                        && r.status() == StatusCode::NotFound
                });
                format!(
                    "req enc={} dec={} resp enc={} dec={}",
                    f(&e1),
                    f(&d1),
                    f(&e2),
                    f(&d2)
                )
            }
            // version <u16>
            "version" => match Version::new(t[1].parse().unwrap()) {
                Ok(v) => format!("OK {}", v.to_u16()),
                Err(_) => "ERR".into(),
            },
            // status <u16>
            "status" => match StatusCode::new(t[1].parse().unwrap()) {
                Ok(s) => format!(
                    "OK {} {}",
                    s.to_u16(),
                    if s.is_success() { 1 } else { 0 }
                ),
                Err(_) => "ERR".into(),
            },
            // encver <u16>: preamble for a version value (only valid versions can be built)
            "encver" => {
                let v = Version::new(t[1].parse().unwrap()).expect("case version valid");
                let mut buf = Vec::new();
                rt.block_on(verif::write_version_frame(&mut buf, v)).unwrap();
                format!("OK {}", tohex(&buf))
            }
            // decver <bytes>
            "decver" => {
                let data = unhex(t[1]);
                match rt.block_on(verif::read_version_frame(&mut &data[..])) {
                    Ok(v) => format!("OK {}", v.to_u16()),
                    Err(e) => format!("ERR {}", classify(&e)),
                }
            }
            other => panic!("unknown codec case {other}"),
        })
    });
}
