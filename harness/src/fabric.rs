//! In-memory datagram fabric: implements `quinn::AsyncUdpSocket` so that whole anemo Networks
//! (and raw quinn adversaries) run on one tokio runtime under the paused (virtual) clock, with a
//! seeded schedule of delay, jitter, loss, duplication and partitions.
use std::collections::{HashMap, HashSet, VecDeque};
use std::io::{self, IoSliceMut};
use std::net::{IpAddr, Ipv4Addr, SocketAddr};
use std::pin::Pin;
use std::sync::{Arc, Mutex};
use std::future::Future;
use std::task::{Context, Poll, Waker};
use std::time::Duration;

#[derive(Clone, Debug)]
pub struct LinkCfg {
    pub delay_us: u64,
    pub jitter_us: u64,
    pub loss_permille: u32,
    pub dup_permille: u32,
}

impl Default for LinkCfg {
    fn default() -> Self {
        LinkCfg { delay_us: 1000, jitter_us: 0, loss_permille: 0, dup_permille: 0 }
    }
}

#[derive(Debug)]
pub struct PacketLog {
    pub at: Duration,
    pub src: u16,
    pub dst: u16,
    pub len: usize,
    pub delivered: bool,
}

struct Inner {
    nodes: HashMap<u16, Arc<FabricSocket>>,
    rng: u64,
    cfg: LinkCfg,
    /// unordered pairs of ports that cannot talk
    partitions: HashSet<(u16, u16)>,
    /// isolated ports (cannot talk to anyone)
    isolated: HashSet<u16>,
    log: Vec<PacketLog>,
    log_enabled: bool,
    start: Option<tokio::time::Instant>,
    sent: u64,
    dropped: u64,
}

pub struct Fabric(Mutex<Inner>);

impl std::fmt::Debug for Fabric {
    fn fmt(&self, f: &mut std::fmt::Formatter<'_>) -> std::fmt::Result {
        f.write_str("Fabric")
    }
}

fn key(a: u16, b: u16) -> (u16, u16) {
    if a <= b { (a, b) } else { (b, a) }
}

impl Fabric {
    pub fn new(seed: u64) -> Arc<Fabric> {
        Arc::new(Fabric(Mutex::new(Inner {
            nodes: HashMap::new(),
            rng: seed.wrapping_mul(0x9E3779B97F4A7C15) | 1,
            cfg: LinkCfg::default(),
            partitions: HashSet::new(),
            isolated: HashSet::new(),
            log: Vec::new(),
            log_enabled: false,
            start: None,
            sent: 0,
            dropped: 0,
        })))
    }

    /// Registers a socket at `port` (replacing an earlier one: restart with the same address).
    pub fn socket(self: &Arc<Self>, port: u16) -> Arc<FabricSocket> {
        let s = Arc::new(FabricSocket {
            burst: Mutex::new((None, 0)),
            port,
            queue: Mutex::new(VecDeque::new()),
            waker: Mutex::new(None),
            fabric: self.clone(),
        });
        self.0.lock().unwrap().nodes.insert(port, s.clone());
        s
    }

    pub fn set_cfg(&self, cfg: LinkCfg) {
        self.0.lock().unwrap().cfg = cfg;
    }
    pub fn cfg(&self) -> LinkCfg {
        self.0.lock().unwrap().cfg.clone()
    }
    pub fn partition(&self, a: u16, b: u16) {
        self.0.lock().unwrap().partitions.insert(key(a, b));
    }
    pub fn heal(&self, a: u16, b: u16) {
        self.0.lock().unwrap().partitions.remove(&key(a, b));
    }
    pub fn isolate(&self, a: u16, on: bool) {
        let mut g = self.0.lock().unwrap();
        if on { g.isolated.insert(a); } else { g.isolated.remove(&a); }
    }
    pub fn heal_all(&self) {
        let mut g = self.0.lock().unwrap();
        g.partitions.clear();
        g.isolated.clear();
    }
    pub fn enable_log(&self, on: bool) {
        self.0.lock().unwrap().log_enabled = on;
    }
    pub fn take_log(&self) -> Vec<PacketLog> {
        std::mem::take(&mut self.0.lock().unwrap().log)
    }
    pub fn stats(&self) -> (u64, u64) {
        let g = self.0.lock().unwrap();
        (g.sent, g.dropped)
    }

    fn next(inner: &mut Inner) -> u64 {
        // xorshift64*
        let mut x = inner.rng;
        x ^= x >> 12;
        x ^= x << 25;
        x ^= x >> 27;
        inner.rng = x;
        x.wrapping_mul(0x2545F4914F6CDD1D)
    }

    /// `src_ip`: the address the sender answers from (a node is reachable under every 127.0.0.x address; replies to
    /// a datagram that arrived for 127.0.0.2 leave from 127.0.0.2, as with a socket bound to 0.0.0.0 and IP_PKTINFO).
    fn send(self: &Arc<Self>, src: u16, src_ip: IpAddr, dst: SocketAddr, data: &[u8]) {
        let mut copies: Vec<Duration> = Vec::new();
        let dst_port = dst.port();
        {
            let mut g = self.0.lock().unwrap();
            g.sent += 1;
            if g.start.is_none() {
                if tokio::runtime::Handle::try_current().is_ok() {
                    g.start = Some(tokio::time::Instant::now());
                }
            }
            let blocked = g.partitions.contains(&key(src, dst_port))
                || g.isolated.contains(&src)
                || g.isolated.contains(&dst_port);
            let lost = !blocked && g.cfg.loss_permille > 0 && (Self::next(&mut g) % 1000) < g.cfg.loss_permille as u64;
            let n = if blocked || lost {
                0
            } else if g.cfg.dup_permille > 0 && (Self::next(&mut g) % 1000) < g.cfg.dup_permille as u64 {
                2
            } else {
                1
            };
            for _ in 0..n {
                let j = if g.cfg.jitter_us > 0 { Self::next(&mut g) % (g.cfg.jitter_us + 1) } else { 0 };
                copies.push(Duration::from_micros(g.cfg.delay_us + j));
            }
            if n == 0 {
                g.dropped += 1;
            }
            if std::env::var_os("VERIF_FABRIC_TRACE").is_some() {
                let at = g.start.map(|s| s.elapsed()).unwrap_or_default();
                eprintln!("pkt t={:?} {}->{} len={} n={}", at, src, dst_port, data.len(), n);
            }
            if g.log_enabled {
                let at = g.start.map(|s| s.elapsed()).unwrap_or_default();
                g.log.push(PacketLog { at, src, dst: dst_port, len: data.len(), delivered: n > 0 });
            }
        }
        for d in copies {
            let data = data.to_vec();
            let me = self.clone();
            let deliver = move || {
                let target = me.0.lock().unwrap().nodes.get(&dst_port).cloned();
                if let Some(t) = target {
                    t.queue.lock().unwrap().push_back((SocketAddr::new(src_ip, src), dst.ip(), data));
                    if let Some(w) = t.waker.lock().unwrap().take() {
                        w.wake();
                    }
                }
            };
            if d.is_zero() {
                deliver();
            } else if let Ok(h) = tokio::runtime::Handle::try_current() {
                h.spawn(async move {
                    tokio::time::sleep(d).await;
                    deliver();
                });
            }
        }
    }
}

/// At most this many datagrams per socket and virtual instant; more and the socket reports
/// "not writable" until virtual time has advanced (a send buffer that fills up). Without it a
/// sender that loops at one instant would keep the paused clock from ever advancing.
const BURST_LIMIT: u32 = 256;

pub struct FabricSocket {
    burst: Mutex<(Option<tokio::time::Instant>, u32)>,
    port: u16,
    queue: Mutex<VecDeque<(SocketAddr, IpAddr, Vec<u8>)>>,
    waker: Mutex<Option<Waker>>,
    fabric: Arc<Fabric>,
}

impl std::fmt::Debug for FabricSocket {
    fn fmt(&self, f: &mut std::fmt::Formatter<'_>) -> std::fmt::Result {
        write!(f, "FabricSocket({})", self.port)
    }
}

pub fn addr(port: u16) -> SocketAddr {
    SocketAddr::new(IpAddr::V4(Ipv4Addr::LOCALHOST), port)
}

impl FabricSocket {
    /// Counts a datagram against the burst budget of the current virtual instant.
    fn over_budget(&self, count: bool) -> bool {
        if tokio::runtime::Handle::try_current().is_err() {
            return false;
        }
        let now = tokio::time::Instant::now();
        let mut b = self.burst.lock().unwrap();
        if b.0 != Some(now) {
            *b = (Some(now), 0);
        }
        if count {
            b.1 += 1;
        }
        b.1 > BURST_LIMIT
    }
}

struct Writable {
    socket: Arc<FabricSocket>,
    sleep: Option<Pin<Box<tokio::time::Sleep>>>,
}
impl std::fmt::Debug for Writable {
    fn fmt(&self, f: &mut std::fmt::Formatter<'_>) -> std::fmt::Result {
        f.write_str("Writable")
    }
}
impl quinn::UdpPoller for Writable {
    fn poll_writable(mut self: Pin<&mut Self>, cx: &mut Context) -> Poll<io::Result<()>> {
        if let Some(s) = self.sleep.as_mut() {
            if s.as_mut().poll(cx).is_pending() {
                return Poll::Pending;
            }
            self.sleep = None;
        }
        if self.socket.over_budget(false) {
            let mut s = Box::pin(tokio::time::sleep(Duration::from_micros(200)));
            if s.as_mut().poll(cx).is_pending() {
                self.sleep = Some(s);
                return Poll::Pending;
            }
        }
        Poll::Ready(Ok(()))
    }
}

impl quinn::AsyncUdpSocket for FabricSocket {
    fn create_io_poller(self: Arc<Self>) -> Pin<Box<dyn quinn::UdpPoller>> {
        Box::pin(Writable { socket: self, sleep: None })
    }

    fn try_send(&self, transmit: &quinn::udp::Transmit) -> io::Result<()> {
        if self.over_budget(true) {
            return Err(io::Error::new(io::ErrorKind::WouldBlock, "fabric socket burst budget exhausted"));
        }
        let src_ip = transmit.src_ip.unwrap_or(IpAddr::V4(Ipv4Addr::LOCALHOST));
        match transmit.segment_size {
            Some(seg) if seg > 0 => {
                for chunk in transmit.contents.chunks(seg) {
                    self.fabric.send(self.port, src_ip, transmit.destination, chunk);
                }
            }
            _ => self.fabric.send(self.port, src_ip, transmit.destination, transmit.contents),
        }
        Ok(())
    }

    fn poll_recv(
        &self,
        cx: &mut Context,
        bufs: &mut [IoSliceMut<'_>],
        meta: &mut [quinn::udp::RecvMeta],
    ) -> Poll<io::Result<usize>> {
        let mut q = self.queue.lock().unwrap();
        if q.is_empty() {
            *self.waker.lock().unwrap() = Some(cx.waker().clone());
            return Poll::Pending;
        }
        let mut n = 0;
        while n < bufs.len() && n < meta.len() {
            let Some((src, dst_ip, data)) = q.pop_front() else { break };
            let len = data.len().min(bufs[n].len());
            bufs[n][..len].copy_from_slice(&data[..len]);
            meta[n] = quinn::udp::RecvMeta { addr: src, len, stride: len, ecn: None, dst_ip: Some(dst_ip) };
            n += 1;
        }
        Poll::Ready(Ok(n))
    }

    fn local_addr(&self) -> io::Result<SocketAddr> {
        Ok(addr(self.port))
    }

    // quinn-proto 0.11.18 re-sends an Initial-space CONNECTION_CLOSE forever when a handshake is
    // aborted and only one datagram per transmit is allowed (no GSO): the close flag is cleared
    // only once the Handshake-space close has been written into a second datagram. Linux sockets
    // offer GSO batches of 10; so does the fabric.
    fn max_transmit_segments(&self) -> usize {
        10
    }

    fn may_fragment(&self) -> bool {
        false
    }
}

/// When set, the next endpoint created gets this fabric port instead of its UDP socket's port
/// (restart of a node at the address it had before).
pub static NEXT_PORT: Mutex<Option<u16>> = Mutex::new(None);
static AUTO_PORT: std::sync::atomic::AtomicU16 = std::sync::atomic::AtomicU16::new(30000);

/// A port nobody else on the current fabric has (reset by `install`).
pub fn auto_port() -> u16 {
    AUTO_PORT.fetch_add(1, std::sync::atomic::Ordering::Relaxed)
}

/// Installs the anemo socket-injection factory: every `Endpoint::new` in this process gets a
/// fabric socket at the port of the UDP socket it was given (which is then unused).
pub fn install(fabric: &Arc<Fabric>) {
    let f = fabric.clone();
    // Ports are handed out by the fabric itself: the bound std socket is dropped by `Endpoint::new`
    // once the abstract socket replaces it, so the kernel may give the same ephemeral port to a
    // later endpoint of the same scenario, and two fabric sockets would share an address.
    AUTO_PORT.store(30000, std::sync::atomic::Ordering::Relaxed);
    anemo::verif::set_socket_factory(Some(Box::new(move |_sock: &std::net::UdpSocket| {
        let port = match NEXT_PORT.lock().unwrap().take() {
            Some(p) => p,
            None => auto_port(),
        };
        Some(f.socket(port) as Arc<dyn quinn::AsyncUdpSocket>)
    })));
}
