//! Driver `timeout`: try_parse_timeout / duration_to_timeout and the two Timeout layers under a
//! paused tokio clock.
use crate::util::*;
use anemo::types::response::StatusCode;
use anemo::{verif, Request, Response};
use bytes::Bytes;
use std::convert::Infallible;
use std::sync::atomic::{AtomicBool, Ordering};
use std::sync::Arc;
use std::time::Duration;
use tower::{Service, ServiceExt};

struct DropFlag(Arc<AtomicBool>);
impl Drop for DropFlag {
    fn drop(&mut self) {
        self.0.store(true, Ordering::SeqCst);
    }
}

fn opt_ns(s: &str) -> Option<Duration> {
    if s == "none" {
        None
    } else {
        Some(Duration::from_nanos(s.parse().unwrap()))
    }
}

fn request_with(hdr: &str) -> Request<Bytes> {
    let mut req = Request::new(Bytes::new());
    if hdr != "none" {
        let v = String::from_utf8(unhex(hdr)).expect("header value must be utf8");
        req.headers_mut().insert("timeout".to_string(), v);
    }
    req
}

pub fn run() {
    for_each_case(|t| {
        catch(|| match t[0] {
            // tparse <hex|none>
            "tparse" => {
                let req = request_with(t[1]);
                let a = verif::try_parse_timeout(req.headers());
                let b = req.timeout();
                let a2 = a.clone().ok().flatten();
                if a2 != b {
                    return format!("MISMATCH try_parse={a:?} Request::timeout={b:?}");
                }
                match a {
                    Ok(Some(d)) => format!("SOME {}", d.as_nanos()),
                    Ok(None) => "NONE absent".into(),
                    Err(_) => "NONE unparsable".into(),
                }
            }
            // tfmt <secs> <nanos>
            "tfmt" => {
                let d = Duration::new(t[1].parse().unwrap(), t[2].parse().unwrap());
                let s = verif::duration_to_timeout(d);
                // the same through the public API
                let r = Request::new(()).with_timeout(d);
                let via = r.headers().get("timeout").cloned().unwrap_or_default();
                if via != s {
                    return format!("MISMATCH {s} {via}");
                }
                format!("OK {}", tohex(s.as_bytes()))
            }
            // tlayer <in|out> <dflt_ns|none> <hdrhex|none> <h_ns>
            "tlayer" => {
                let dflt = opt_ns(t[2]);
                let h = Duration::from_nanos(t[4].parse().unwrap());
                let rt = tokio::runtime::Builder::new_current_thread()
                    .enable_all()
                    .start_paused(true)
                    .build()
                    .unwrap();
                let dropped = Arc::new(AtomicBool::new(false));
                let completed = Arc::new(AtomicBool::new(false));
                let (d2, c2) = (dropped.clone(), completed.clone());
                let inner = tower::service_fn(move |_req: Request<Bytes>| {
                    let (d, c) = (d2.clone(), c2.clone());
                    async move {
                        let _g = DropFlag(d);
                        tokio::time::sleep(h).await;
                        c.store(true, Ordering::SeqCst);
                        Ok::<_, Infallible>(Response::new(Bytes::new()).with_header("done", "1"))
                    }
                });
                let req = request_with(t[3]);
                let inbound = t[1] == "in";
                let (kind, elapsed) = rt.block_on(async move {
                    let start = tokio::time::Instant::now();
                    let kind = if inbound {
                        let mut svc = verif::inbound_timeout(inner, dflt);
                        let resp = svc.ready().await.unwrap().call(req).await.unwrap();
                        if resp.status() == StatusCode::RequestTimeout {
                            "cutoff"
                        } else if resp.headers().get("done").is_some() {
                            "normal"
                        } else {
                            "other"
                        }
                    } else {
                        let mut svc = verif::outbound_timeout(inner, dflt);
                        match svc.ready().await.unwrap().call(req).await {
                            Ok(resp) => {
                                if resp.headers().get("done").is_some() {
                                    "normal"
                                } else {
                                    "other"
                                }
                            }
                            Err(e) => {
                                if verif::is_timeout_expired(&e) {
                                    "cutoff"
                                } else {
                                    "othererr"
                                }
                            }
                        }
                    };
                    (kind, start.elapsed())
                });
                let handler = match (
                    completed.load(Ordering::SeqCst),
                    dropped.load(Ordering::SeqCst),
                ) {
                    (true, true) => "completed",
                    (false, true) => "dropped",
                    (_, false) => "leaked",
                };
                format!("{kind} {} handler={handler}", elapsed.as_nanos())
            }
            other => panic!("unknown timeout case {other}"),
        })
    });
}
