//! Driver `activepeers` (C04, C05): the real `ActivePeers` set driven directly with real quinn
//! connections (established over the in-memory fabric), sequentially or from several threads.
//!
//!   ap <npeers> <conns> | <op>*          conns = <peer><o|i>,...   (o: we dialed, i: they dialed)
//!       op = A<k> | R<p>:<reason> | S<k>:<reason> | U | P
//!   apstress <npeers> <conns> <threads> <ops-per-thread> <seed>
use crate::fabric::{self, Fabric};
use crate::simnet::key_from_seed;
use crate::util::*;
use anemo::types::{DisconnectReason, PeerEvent};
use anemo::verif::{VerifActivePeers, VerifConnection, VerifEndpoint};
use anemo::PeerId;
use std::sync::Arc;
use tokio::sync::broadcast;

pub const REASONS: [DisconnectReason; 8] = [
    DisconnectReason::Requested,
    DisconnectReason::VersionMismatch,
    DisconnectReason::TransportError,
    DisconnectReason::ConnectionClosed,
    DisconnectReason::ApplicationClosed,
    DisconnectReason::Reset,
    DisconnectReason::TimedOut,
    DisconnectReason::LocallyClosed,
];

pub fn reason_code(r: &DisconnectReason) -> usize {
    REASONS.iter().position(|x| x == r).unwrap()
}

pub struct Setup {
    pub own: VerifEndpoint,
    pub peers: Vec<VerifEndpoint>,
    /// our side of every connection, the peer index it belongs to
    pub conns: Vec<(VerifConnection, usize)>,
    /// the remote side of every connection (kept alive)
    pub remote: Vec<VerifConnection>,
    /// rank of own id and of each peer id in the PeerId order
    pub ranks: Vec<usize>,
}

fn endpoint(seed: u64) -> VerifEndpoint {
    let sock = std::net::UdpSocket::bind("127.0.0.1:0").unwrap();
    VerifEndpoint::new("test", None, key_from_seed(seed), sock).unwrap()
}

pub async fn setup(npeers: usize, spec: &str, key_base: u64) -> Setup {
    let own = endpoint(key_base);
    let peers: Vec<VerifEndpoint> = (0..npeers).map(|i| endpoint(key_base + 1 + i as u64)).collect();
    let mut conns = Vec::new();
    let mut remote = Vec::new();
    for c in spec.split(',').filter(|c| !c.is_empty()) {
        let (p, dir) = c.split_at(c.len() - 1);
        let p: usize = p.parse().unwrap();
        let (dialer, listener) = if dir == "o" { (&own, &peers[p]) } else { (&peers[p], &own) };
        let addr = fabric::addr(listener.local_addr().port());
        let (a, b) = tokio::join!(dialer.connect(addr), listener.accept());
        let (a, b) = (a.unwrap(), b.unwrap().unwrap());
        if dir == "o" {
            conns.push((a, p));
            remote.push(b);
        } else {
            conns.push((b, p));
            remote.push(a);
        }
    }
    let mut all: Vec<PeerId> = vec![own.peer_id()];
    all.extend(peers.iter().map(|p| p.peer_id()));
    let mut sorted = all.clone();
    sorted.sort();
    let ranks = all.iter().map(|p| sorted.iter().position(|q| q == p).unwrap()).collect();
    Setup { own, peers, conns, remote, ranks }
}

fn drain(rx: &mut broadcast::Receiver<PeerEvent>, s: &Setup) -> String {
    let idx = |p: &PeerId| s.peers.iter().position(|e| e.peer_id() == *p).map(|i| i.to_string()).unwrap_or("?".into());
    let mut ev = Vec::new();
    loop {
        match rx.try_recv() {
            Ok(PeerEvent::NewPeer(p)) => ev.push(format!("+{}", idx(&p))),
            Ok(PeerEvent::LostPeer(p, r)) => ev.push(format!("-{}:{}", idx(&p), reason_code(&r))),
            Err(broadcast::error::TryRecvError::Lagged(n)) => ev.push(format!("LAG{n}")),
            Err(_) => break,
        }
    }
    ev.join(",")
}

fn listing(ap: &VerifActivePeers, s: &Setup) -> String {
    // entries "peer:conn" sorted by peer; DUP if peers() contains a duplicate
    let l = ap.peers();
    let mut v: Vec<(usize, String)> = l
        .iter()
        .map(|p| {
            let pi = s.peers.iter().position(|e| e.peer_id() == *p).unwrap_or(999);
            let c = ap
                .get(p)
                .and_then(|c| s.conns.iter().position(|(x, _)| x.stable_id() == c.stable_id()))
                .map(|i| i.to_string())
                .unwrap_or("?".into());
            (pi, c)
        })
        .collect();
    let n = v.len();
    v.sort();
    v.dedup_by_key(|x| x.0);
    let dup = if v.len() != n { "DUP" } else { "" };
    format!("[{}]{dup}", v.iter().map(|(p, c)| format!("{p}:{c}")).collect::<Vec<_>>().join(","))
}

fn closed_set(s: &Setup) -> String {
    let v: Vec<String> = s
        .conns
        .iter()
        .enumerate()
        .filter(|(_, (c, _))| c.close_reason() == Some(DisconnectReason::LocallyClosed))
        .map(|(i, _)| i.to_string())
        .collect();
    v.join(",")
}

fn header(s: &Setup) -> String {
    let conns: Vec<String> = s
        .conns
        .iter()
        .enumerate()
        .map(|(i, (c, p))| format!("{i}:{p}:{}", if c.origin() == anemo::ConnectionOrigin::Outbound { "o" } else { "i" }))
        .collect();
    format!(
        "ranks={} conns={}",
        s.ranks.iter().map(|r| r.to_string()).collect::<Vec<_>>().join(","),
        conns.join(",")
    )
}

async fn ap_case(t: &[&str]) -> String {
    let fab = Fabric::new(7);
    fabric::install(&fab);
    let npeers: usize = t[1].parse().unwrap();
    let s = setup(npeers, t[2], 1000).await;
    let ap = VerifActivePeers::new(1024);
    let (mut rx, _) = ap.subscribe();
    let own = s.own.peer_id();
    let mut out = vec![header(&s)];
    for op in &t[4..] {
        let (k, rest) = op.split_at(1);
        let res = match k {
            "A" => {
                let i: usize = rest.parse().unwrap();
                match ap.add(&own, s.conns[i].0.clone()) {
                    Some(_) => "K".to_string(),
                    None => "D".to_string(),
                }
            }
            "R" => {
                let (p, r) = rest.split_once(':').unwrap();
                ap.remove(&s.peers[p.parse::<usize>().unwrap()].peer_id(), REASONS[r.parse::<usize>().unwrap()].clone());
                "ok".into()
            }
            "S" => {
                let (i, r) = rest.split_once(':').unwrap();
                let (c, p) = &s.conns[i.parse::<usize>().unwrap()];
                ap.remove_with_stable_id(s.peers[*p].peer_id(), c.stable_id(), REASONS[r.parse::<usize>().unwrap()].clone());
                "ok".into()
            }
            "U" => {
                let (_rx2, snap) = ap.subscribe();
                let mut v: Vec<usize> = snap.iter().map(|p| s.peers.iter().position(|e| e.peer_id() == *p).unwrap()).collect();
                v.sort();
                format!("snap[{}]", v.iter().map(|x| x.to_string()).collect::<Vec<_>>().join(","))
            }
            "P" => listing(&ap, &s),
            _ => panic!("bad op"),
        };
        out.push(format!("{op}={res};ev={};cl={};L={}", drain(&mut rx, &s), closed_set(&s), listing(&ap, &s)));
    }
    anemo::verif::set_socket_factory(None);
    out.join(" ")
}

async fn stress_case(t: &[&str]) -> String {
    // apstress <npeers> <conns> <threads> <ops> <seed>: concurrent ops; the H4 trace is the linearisation
    let fab = Fabric::new(9);
    fabric::install(&fab);
    let npeers: usize = t[1].parse().unwrap();
    let s = Arc::new(setup(npeers, t[2], 2000).await);
    let threads: usize = t[3].parse().unwrap();
    let nops: usize = t[4].parse().unwrap();
    let seed: u64 = t[5].parse().unwrap();
    let ap = VerifActivePeers::new(1 << 16);
    let (mut rx, _) = ap.subscribe();
    anemo::verif::trace_enable(true);
    let mut hs = Vec::new();
    for th in 0..threads {
        let (ap, s) = (ap.clone(), s.clone());
        hs.push(std::thread::spawn(move || {
            let mut x = seed.wrapping_mul(0x9E3779B97F4A7C15).wrapping_add(th as u64 * 7919 + 1) | 1;
            let mut next = move || {
                x ^= x >> 12;
                x ^= x << 25;
                x ^= x >> 27;
                x.wrapping_mul(0x2545F4914F6CDD1D) >> 33
            };
            let own = s.own.peer_id();
            let mut dups = 0;
            for _ in 0..nops {
                match next() % 10 {
                    0..=3 => {
                        let i = (next() as usize) % s.conns.len();
                        let _ = ap.add(&own, s.conns[i].0.clone());
                    }
                    4..=5 => {
                        let p = (next() as usize) % s.peers.len();
                        ap.remove(&s.peers[p].peer_id(), REASONS[(next() % 8) as usize].clone());
                    }
                    6..=7 => {
                        let i = (next() as usize) % s.conns.len();
                        let (c, p) = &s.conns[i];
                        ap.remove_with_stable_id(s.peers[*p].peer_id(), c.stable_id(), REASONS[(next() % 8) as usize].clone());
                    }
                    8 => {
                        let mut l = ap.peers();
                        let n = l.len();
                        l.sort();
                        l.dedup();
                        if l.len() != n {
                            dups += 1;
                        }
                    }
                    _ => {
                        let _ = ap.subscribe();
                    }
                }
            }
            dups
        }));
    }
    let dups: usize = hs.into_iter().map(|h| h.join().unwrap()).sum();
    let trace = anemo::verif::trace_enable(false);
    // rewrite the trace in terms of peer / connection indices
    let pidx = |hex: &str| s.peers.iter().position(|e| format!("{}", e.peer_id()) == hex);
    let cidx = |id: usize| s.conns.iter().position(|(c, _)| c.stable_id() == id);
    let mut ops = Vec::new();
    for line in trace {
        let f: Vec<&str> = line.split_whitespace().collect();
        if f.len() < 4 || f[1] != "active" {
            continue;
        }
        let get = |k: &str| f.iter().find_map(|x| x.strip_prefix(k)).unwrap_or("");
        match f[3] {
            "add" => {
                let id: usize = get("id=").parse().unwrap();
                ops.push(format!("A{}", cidx(id).unwrap()));
            }
            "remove" => {
                let r = REASONS.iter().position(|x| format!("{x:?}") == get("reason=")).unwrap();
                ops.push(format!("R{}:{r}", pidx(get("peer=")).unwrap()));
            }
            "remove_stable" => {
                let r = REASONS.iter().position(|x| format!("{x:?}") == get("reason=")).unwrap();
                let id: usize = get("id=").parse().unwrap();
                ops.push(format!("S{}:{r}", cidx(id).unwrap()));
            }
            "subscribe" => ops.push("U".into()),
            _ => {}
        }
    }
    let ev = drain(&mut rx, &s);
    let out = format!(
        "{} dups={dups} final=L={};cl={};ev={} | {}",
        header(&s),
        listing(&ap, &s),
        closed_set(&s),
        ev,
        ops.join(" ")
    );
    anemo::verif::set_socket_factory(None);
    out
}

/// subrace <millis> <seed>: two threads keep changing the set (add / remove real connections) while four
/// threads subscribe in a tight loop; every subscription is followed for a while and must be an exact
/// change log relative to its own snapshot (NewPeer only for a peer not in it, LostPeer only for one in it).
async fn subrace_case(t: &[&str]) -> String {
    let fab = Fabric::new(13);
    fabric::install(&fab);
    let millis: u64 = t[1].parse().unwrap();
    let seed: u64 = t[2].parse().unwrap();
    let s = Arc::new(setup(2, "0o,0i,1o,1i", 3000).await);
    let ap = VerifActivePeers::new(1 << 16);
    let stop = Arc::new(std::sync::atomic::AtomicBool::new(false));
    let mut muts = Vec::new();
    for th in 0..2u64 {
        let (ap, s, stop) = (ap.clone(), s.clone(), stop.clone());
        muts.push(std::thread::spawn(move || {
            let mut x = seed.wrapping_mul(0x9E3779B97F4A7C15).wrapping_add(th * 7919 + 1) | 1;
            let own = s.own.peer_id();
            let mut n = 0u64;
            while !stop.load(std::sync::atomic::Ordering::Relaxed) {
                x ^= x >> 12;
                x ^= x << 25;
                x ^= x >> 27;
                let r = x.wrapping_mul(0x2545F4914F6CDD1D) >> 33;
                let i = (r as usize / 4) % s.conns.len();
                match r % 4 {
                    0 | 1 => {
                        let _ = ap.add(&own, s.conns[i].0.clone());
                    }
                    2 => ap.remove(&s.peers[s.conns[i].1].peer_id(), REASONS[0].clone()),
                    _ => ap.remove_with_stable_id(s.peers[s.conns[i].1].peer_id(), s.conns[i].0.stable_id(), REASONS[3].clone()),
                }
                n += 1;
            }
            n
        }));
    }
    let mut subs = Vec::new();
    for _ in 0..4 {
        let (ap, stop) = (ap.clone(), stop.clone());
        subs.push(std::thread::spawn(move || {
            let mut window: std::collections::VecDeque<(std::collections::HashSet<PeerId>, broadcast::Receiver<PeerEvent>)> = Default::default();
            let (mut count, mut bad) = (0u64, 0u64);
            let mut first = String::new();
            // returns false when the subscription lagged behind (events were dropped by the channel): it is then forgotten
            let check = |set: &mut std::collections::HashSet<PeerId>, rx: &mut broadcast::Receiver<PeerEvent>, bad: &mut u64, first: &mut String| -> bool {
              loop {
                match rx.try_recv() {
                    Ok(PeerEvent::NewPeer(p)) => {
                        if !set.insert(p) {
                            *bad += 1;
                            if first.is_empty() {
                                *first = "NewPeer_for_a_peer_already_in_the_subscribers_view".into();
                            }
                        }
                    }
                    Ok(PeerEvent::LostPeer(p, _)) => {
                        if !set.remove(&p) {
                            *bad += 1;
                            if first.is_empty() {
                                *first = "LostPeer_for_a_peer_not_in_the_subscribers_view".into();
                            }
                        }
                    }
                    Err(broadcast::error::TryRecvError::Lagged(_)) => return false,
                    Err(_) => return true,
                }
              }
            };
            while !stop.load(std::sync::atomic::Ordering::Relaxed) {
                let (rx, snap) = ap.subscribe();
                count += 1;
                window.push_back((snap.into_iter().collect(), rx));
                if window.len() > 48 {
                    window.pop_front();
                }
                if count % 4 == 0 {
                    window.retain_mut(|(set, rx)| check(set, rx, &mut bad, &mut first));
                }
            }
            (count, bad, first)
        }));
    }
    std::thread::sleep(std::time::Duration::from_millis(millis));
    stop.store(true, std::sync::atomic::Ordering::Relaxed);
    let changes: u64 = muts.into_iter().map(|h| h.join().unwrap()).sum();
    let (mut count, mut bad, mut first) = (0u64, 0u64, String::new());
    for h in subs {
        let (c, b, f) = h.join().unwrap();
        count += c;
        bad += b;
        if first.is_empty() {
            first = f;
        }
    }
    anemo::verif::set_socket_factory(None);
    format!("subscriptions={count} changes={changes} bad={bad} first={}", if first.is_empty() { "-".into() } else { first })
}

/// md <lt> <label,label,...>: replays one schedule of the mutual-dial transition system on two
/// real ActivePeers sets with two real connections X (dialed by A) and Y (dialed by B).
async fn md_case(t: &[&str]) -> String {
    let fab = Fabric::new(11);
    fabric::install(&fab);
    let lt = t[1] == "1";
    // pick keys so that (id of A < id of B) == lt
    let (mut ka, mut kb) = (5000u64, 6000u64);
    loop {
        let (a, b) = (endpoint(ka), endpoint(kb));
        if (a.peer_id() < b.peer_id()) == lt {
            break;
        }
        ka += 1;
        kb += 1;
    }
    let a = endpoint(ka);
    let b = endpoint(kb);
    let (xa, xb) = tokio::join!(a.connect(fabric::addr(b.local_addr().port())), b.accept());
    let (ya, yb) = tokio::join!(a.accept(), b.connect(fabric::addr(a.local_addr().port())));
    let (xa, xb, ya, yb) = (xa.unwrap(), xb.unwrap().unwrap(), ya.unwrap().unwrap(), yb.unwrap());
    let apa = VerifActivePeers::new(64);
    let apb = VerifActivePeers::new(64);
    let (mut rxa, _) = apa.subscribe();
    let (mut rxb, _) = apb.subscribe();
    let conn = |n: char, c: char| match (n, c) {
        ('A', 'X') => &xa,
        ('A', _) => &ya,
        ('B', 'X') => &xb,
        _ => &yb,
    };
    let mut pre = Vec::new();
    for l in t[2].split(',').filter(|l| !l.is_empty()) {
        let ch: Vec<char> = l.chars().collect();
        let (k, n, c) = (ch[0], ch[1], ch[2]);
        // let every close notification in flight arrive
        tokio::time::sleep(std::time::Duration::from_millis(50)).await;
        let me = conn(n, c);
        let (ap, own, peer) = if n == 'A' { (&apa, a.peer_id(), b.peer_id()) } else { (&apb, b.peer_id(), a.peer_id()) };
        match k {
            'R' => {
                pre.push(format!("{l}:{}", (me.close_reason() != Some(DisconnectReason::LocallyClosed)) as u8));
                let _ = ap.add(&own, me.clone());
            }
            'F' => {
                // enabled only if the remote end closed the connection
                pre.push(format!("{l}:{}", me.close_reason().is_some() as u8));
                me.close();
            }
            'N' => {
                pre.push(format!("{l}:{}", me.close_reason().is_some() as u8));
                let reason = me.close_reason().unwrap_or(DisconnectReason::ConnectionClosed);
                ap.remove_with_stable_id(peer, me.stable_id(), reason);
            }
            _ => panic!("bad label"),
        }
    }
    tokio::time::sleep(std::time::Duration::from_millis(50)).await;
    let entry = |ap: &VerifActivePeers, peer: &PeerId, x: &VerifConnection, y: &VerifConnection| match ap.get(peer) {
        Some(c) if c.stable_id() == x.stable_id() => "X",
        Some(c) if c.stable_id() == y.stable_id() => "Y",
        Some(_) => "?",
        None => "-",
    };
    let count = |rx: &mut broadcast::Receiver<PeerEvent>| {
        let mut n = 0;
        while rx.try_recv().is_ok() {
            n += 1;
        }
        n
    };
    let ea = entry(&apa, &b.peer_id(), &xa, &ya);
    let eb = entry(&apb, &a.peer_id(), &xb, &yb);
    let open = |c: &VerifConnection| c.close_reason().is_none() as u8;
    let out = format!(
        "A={ea} B={eb} nA={} nB={} evA={} evB={} openX={}{} openY={}{} pre={}",
        apa.len(),
        apb.len(),
        count(&mut rxa),
        count(&mut rxb),
        open(&xa),
        open(&xb),
        open(&ya),
        open(&yb),
        pre.join(",")
    );
    anemo::verif::set_socket_factory(None);
    out
}

pub fn run() {
    for_each_case(|t| {
        catch(|| {
            let rt = tokio::runtime::Builder::new_current_thread()
                .enable_all()
                .start_paused(true)
                .build()
                .unwrap();
            match t[0] {
                "ap" => rt.block_on(ap_case(t)),
                "apstress" => rt.block_on(stress_case(t)),
                "md" => rt.block_on(md_case(t)),
                "subrace" => rt.block_on(subrace_case(t)),
                // tb <own rank> <remote rank> <existing i|o> <new i|o>  (ranks 0..255 as first key byte)
                "tb" => {
                    let mk = |r: &str, pos: usize| {
                        let mut b = [0u8; 32];
                        b[pos] = r.parse::<u8>().unwrap();
                        PeerId(b)
                    };
                    let pos: usize = t[5].parse().unwrap();
                    let o = |s: &str| if s == "i" { anemo::ConnectionOrigin::Inbound } else { anemo::ConnectionOrigin::Outbound };
                    let r = anemo::verif::simultaneous_dial_tie_breaking(&mk(t[1], pos), &mk(t[2], pos), o(t[3]), o(t[4]));
                    format!("{}", r as u8)
                }
                // backoff <step_ns> <max_ns> <n>: DialBackoffState::new then n-1 updates at a fixed instant
                "backoff" => {
                    let step = std::time::Duration::from_nanos(t[1].parse().unwrap());
                    let maxb = std::time::Duration::from_nanos(t[2].parse().unwrap());
                    let n: usize = t[3].parse().unwrap();
                    let now = std::time::Instant::now();
                    let mut b = anemo::verif::VerifBackoff::new(now, step, maxb);
                    let mut out = vec![format!("{}:{}", b.attempts(), (b.backoff() - now).as_nanos())];
                    for _ in 1..n {
                        b.update(now, step, maxb);
                        out.push(format!("{}:{}", b.attempts(), (b.backoff() - now).as_nanos()));
                    }
                    out.join(" ")
                }
                other => panic!("unknown activepeers case {other}"),
            }
        })
    });
}
