//! Driver `simnet`: whole anemo Networks on one current-thread tokio runtime with a paused
//! (virtual) clock over the in-memory fabric. One case line = one scenario: commands separated
//! by ';', one result per command (joined by ';').
use crate::fabric::{self, Fabric, LinkCfg};
use crate::util::*;
use anemo::types::response::StatusCode;
use anemo::types::{PeerAffinity, PeerEvent, PeerInfo};
use anemo::{Config, Network, PeerId, Request, Response};
use bytes::Bytes;
use std::collections::HashMap;
use std::convert::Infallible;
use std::sync::atomic::{AtomicU64, Ordering};
use std::sync::{Arc, Mutex};
use std::time::Duration;
use tokio::sync::broadcast;

#[derive(Default)]
pub struct NodeStats {
    pub started: AtomicU64,
    pub completed: AtomicU64,
    pub dropped: AtomicU64,
    pub clones_alive: AtomicU64,
    pub log: Mutex<Vec<String>>, // one entry per handled request
}

struct HandlerGuard(Arc<NodeStats>, bool);
impl Drop for HandlerGuard {
    fn drop(&mut self) {
        if self.1 {
            self.0.completed.fetch_add(1, Ordering::SeqCst);
        } else {
            self.0.dropped.fetch_add(1, Ordering::SeqCst);
        }
    }
}

/// The user service of every node; counts live clones (C08: every clone dropped at shutdown).
pub struct NodeService {
    idx: usize,
    stats: Arc<NodeStats>,
    peers: Arc<Mutex<HashMap<PeerId, usize>>>,
}

impl Clone for NodeService {
    fn clone(&self) -> Self {
        self.stats.clones_alive.fetch_add(1, Ordering::SeqCst);
        NodeService { idx: self.idx, stats: self.stats.clone(), peers: self.peers.clone() }
    }
}
impl Drop for NodeService {
    fn drop(&mut self) {
        self.stats.clones_alive.fetch_sub(1, Ordering::SeqCst);
    }
}

pub fn body_pattern(n: usize, seed: u8) -> Vec<u8> {
    (0..n).map(|i| (i as u8).wrapping_mul(31).wrapping_add(seed)).collect()
}

pub fn digest(b: &[u8]) -> String {
    // FNV-1a 64 + length: enough to detect swapped / truncated / merged bodies
    let mut h: u64 = 0xcbf29ce484222325;
    for x in b {
        h ^= *x as u64;
        h = h.wrapping_mul(0x100000001b3);
    }
    format!("{}:{:016x}", b.len(), h)
}

impl tower::Service<Request<Bytes>> for NodeService {
    type Response = Response<Bytes>;
    type Error = Infallible;
    type Future = futures::future::BoxFuture<'static, Result<Response<Bytes>, Infallible>>;
    fn poll_ready(&mut self, _: &mut std::task::Context<'_>) -> std::task::Poll<Result<(), Infallible>> {
        std::task::Poll::Ready(Ok(()))
    }
    fn call(&mut self, req: Request<Bytes>) -> Self::Future {
        let stats = self.stats.clone();
        let idx = self.idx;
        let peers = self.peers.clone();
        Box::pin(async move {
            stats.started.fetch_add(1, Ordering::SeqCst);
            let mut guard = HandlerGuard(stats.clone(), false);
            let from = req
                .peer_id()
                .and_then(|p| peers.lock().unwrap().get(p).copied())
                .map(|i| i.to_string())
                .unwrap_or_else(|| "?".into());
            let h = req.headers().clone();
            let id = h.get("id").cloned().unwrap_or_default();
            let origin = match req.extensions().get::<anemo::ConnectionOrigin>().copied() {
                Some(anemo::ConnectionOrigin::Inbound) => "in",
                Some(anemo::ConnectionOrigin::Outbound) => "out",
                None => "none",
            };
            stats.log.lock().unwrap().push(format!(
                "id={id} from={from} route={} body={} nh={}",
                tohex(req.route().as_bytes()),
                digest(req.body()),
                h.len()
            ));
            if h.contains_key("panic") {
                panic!("handler panic requested by the scenario");
            }
            if let Some(ms) = h.get("sleep-ms").and_then(|s| s.parse::<u64>().ok()) {
                // ticks=<n>: the handler makes progress in n steps (n awaits of ms/n each) instead of one long await
                // (whole milliseconds each: the runtime's timers have millisecond resolution)
                let n = h.get("ticks").and_then(|s| s.parse::<u64>().ok()).unwrap_or(1).max(1).min(ms.max(1));
                for k in 0..n {
                    let part = ms / n + if k < ms % n { 1 } else { 0 };
                    tokio::time::sleep(Duration::from_millis(part)).await;
                }
            }
            let mut resp = match h.get("resp-size").and_then(|s| s.parse::<usize>().ok()) {
                Some(n) => Response::new(Bytes::from(body_pattern(n, id.len() as u8))),
                None => Response::new(req.body().clone()),
            };
            if let Some(n) = h.get("resp-hdr-size").and_then(|s| s.parse::<usize>().ok()) {
                resp.headers_mut().insert("pad".into(), "p".repeat(n));
            }
            if let Some(c) = h.get("status").and_then(|s| s.parse::<u16>().ok()) {
                if let Ok(sc) = StatusCode::new(c) {
                    *resp.status_mut() = sc;
                }
            }
            if h.contains_key("echo-all") {
                for (k, v) in h.iter() {
                    resp.headers_mut().insert(k.clone(), v.clone());
                }
            }
            // headers the caller chose freely ("x-..." in any case) are echoed back name by name, value reversed
            for (k, v) in h.iter() {
                if k.len() > 2 && k[..2].eq_ignore_ascii_case("x-") {
                    resp.headers_mut().insert(k.clone(), v.chars().rev().collect());
                }
            }
            // digest of the header map the handler received (sorted "k=v\n" lines): the caller knows what it sent
            {
                let mut kv: Vec<String> = h.iter().map(|(k, v)| format!("{k}={v}\n")).collect();
                kv.sort();
                // fixed width (16 hex digits), so that response header sizes stay computable (C15)
                let d = digest(kv.concat().as_bytes());
                resp.headers_mut().insert("hdr-digest".into(), d.split(':').nth(1).unwrap_or("").to_string());
            }
            resp.headers_mut().insert("srv".into(), idx.to_string());
            resp.headers_mut().insert("id".into(), id);
            resp.headers_mut().insert("seen-from".into(), from);
            resp.headers_mut().insert("origin".into(), origin.into());
            guard.1 = true;
            Ok(resp)
        })
    }
}

/// Adapter: a service failing with an rpc Status becomes an infallible one answering with that status.
#[derive(Clone)]
struct StatusToResponse<S>(S);
impl<S> tower::Service<Request<Bytes>> for StatusToResponse<S>
where
    S: tower::Service<Request<Bytes>, Response = Response<Bytes>, Error = anemo::rpc::Status>,
    S::Future: Send + 'static,
{
    type Response = Response<Bytes>;
    type Error = Infallible;
    type Future = futures::future::BoxFuture<'static, Result<Response<Bytes>, Infallible>>;
    fn poll_ready(&mut self, cx: &mut std::task::Context<'_>) -> std::task::Poll<Result<(), Infallible>> {
        self.0.poll_ready(cx).map(|_| Ok(()))
    }
    fn call(&mut self, req: Request<Bytes>) -> Self::Future {
        let fut = self.0.call(req);
        Box::pin(async move {
            Ok(match fut.await {
                Ok(resp) => resp,
                Err(st) => anemo::types::response::IntoResponse::into_response(st),
            })
        })
    }
}

/// A user outbound layer that waits before it forwards the request.
struct HoldBack<S>(Arc<tokio::sync::Mutex<S>>, u64);
impl<S> tower::Service<Request<Bytes>> for HoldBack<S>
where
    S: tower::Service<Request<Bytes>> + Send + 'static,
    S::Future: Send + 'static,
    S::Response: Send + 'static,
    S::Error: Send + 'static,
{
    type Response = S::Response;
    type Error = S::Error;
    type Future = futures::future::BoxFuture<'static, Result<S::Response, S::Error>>;
    fn poll_ready(&mut self, _cx: &mut std::task::Context<'_>) -> std::task::Poll<Result<(), S::Error>> {
        std::task::Poll::Ready(Ok(()))
    }
    fn call(&mut self, req: Request<Bytes>) -> Self::Future {
        let inner = self.0.clone();
        let ms = self.1;
        Box::pin(async move {
            tokio::time::sleep(Duration::from_millis(ms)).await;
            let fut = {
                let mut g = inner.lock().await;
                futures::future::poll_fn(|cx| g.poll_ready(cx)).await?;
                g.call(req)
            };
            fut.await
        })
    }
}

pub struct Node {
    pub idx: usize,
    pub net: Option<Network>,
    pub weak: Option<anemo::NetworkRef>,
    pub peer_id: PeerId,
    pub port: u16,
    pub stats: Arc<NodeStats>,
    pub sub: Option<broadcast::Receiver<PeerEvent>>,
    pub snapshot: Vec<usize>,
    pub key: [u8; 32],
}

pub struct World {
    pub adv: HashMap<usize, crate::adversary::Adversary>,
    pub fabric: Arc<Fabric>,
    pub nodes: HashMap<usize, Node>,
    pub ids: Arc<Mutex<HashMap<PeerId, usize>>>,
    pub bg: HashMap<String, tokio::task::JoinHandle<String>>,
    pub start: tokio::time::Instant,
    pub held_peers: Vec<anemo::Peer>,
}

fn kv<'a>(toks: &'a [&'a str]) -> HashMap<&'a str, &'a str> {
    toks.iter().filter_map(|t| t.split_once('=')).collect()
}

pub fn key_from_seed(seed: u64) -> [u8; 32] {
    let mut k = [0u8; 32];
    let mut x = seed.wrapping_mul(0x9E3779B97F4A7C15).wrapping_add(0x1234567);
    for b in k.iter_mut() {
        x ^= x >> 12;
        x ^= x << 25;
        x ^= x >> 27;
        *b = (x.wrapping_mul(0x2545F4914F6CDD1D) >> 32) as u8;
    }
    k
}

fn ms(kv: &HashMap<&str, &str>, k: &str) -> Option<u64> {
    kv.get(k).and_then(|v| v.parse().ok())
}

impl World {
    fn node_of(&self, p: &PeerId) -> String {
        self.ids.lock().unwrap().get(p).map(|i| i.to_string()).unwrap_or_else(|| "?".into())
    }

    fn start_node(&mut self, t: &[&str]) -> String {
        let idx: usize = t[1].parse().unwrap();
        let a = kv(&t[2..]);
        let name = a.get("name").copied().unwrap_or("net");
        let key = key_from_seed(a.get("key").and_then(|k| k.parse().ok()).unwrap_or(idx as u64 + 1));
        let mut cfg = Config::default();
        cfg.max_concurrent_connections = a.get("maxconn").and_then(|v| v.parse().ok());
        cfg.inbound_request_timeout_ms = ms(&a, "in_to");
        cfg.outbound_request_timeout_ms = ms(&a, "out_to");
        cfg.max_frame_size = a.get("maxframe").and_then(|v| v.parse().ok());
        cfg.connectivity_check_interval_ms = ms(&a, "ctick");
        cfg.connection_backoff_ms = ms(&a, "backoff");
        cfg.max_connection_backoff_ms = ms(&a, "maxbackoff");
        cfg.connect_timeout_ms = ms(&a, "ctimeout");
        cfg.max_concurrent_outstanding_connecting_connections = a.get("maxout").and_then(|v| v.parse().ok());
        cfg.shutdown_idle_timeout_ms = ms(&a, "shutdown_idle");
        cfg.connection_manager_channel_capacity = a.get("mbox").and_then(|v| v.parse().ok());
        let mut q = anemo::QuicConfig::default();
        q.max_idle_timeout_ms = ms(&a, "idle");
        q.keep_alive_interval_ms = ms(&a, "keepalive");
        q.max_concurrent_bidi_streams = ms(&a, "maxbidi");
        cfg.quic = Some(q);
        let stats = Arc::new(NodeStats::default());
        stats.clones_alive.fetch_add(1, Ordering::SeqCst);
        let svc = NodeService { idx, stats: stats.clone(), peers: self.ids.clone() };
        let bind: String = match a.get("port") {
            Some(p) => format!("127.0.0.1:{p}"),
            None => "127.0.0.1:0".into(),
        };
        if let Some(n) = a.get("fport") {
            // restart at the fabric address of node <n> (usually itself)
            let old = self.nodes.get(&n.parse::<usize>().unwrap()).map(|x| x.port);
            *fabric::NEXT_PORT.lock().unwrap() = old;
        }
        let mut b = Network::bind(bind).server_name(name).private_key(key).config(cfg);
        if let Some(alt) = a.get("alt") {
            b = b.alternate_server_name(*alt);
        }
        // outlayer=1: the user supplies an outbound request layer of their own (one that changes nothing)
        if a.get("outlayer") == Some(&"1") {
            b = b.outbound_request_layer(tower::layer::util::Identity::new());
        } else if let Some(ms) = a.get("outlayer").and_then(|v| v.strip_prefix("delay")).and_then(|v| v.parse::<u64>().ok()) {
            // outlayer=delay<ms>: the user's outbound layer holds every request for that long before passing it on
            b = b.outbound_request_layer(tower::layer::layer_fn(move |inner| HoldBack(Arc::new(tokio::sync::Mutex::new(inner)), ms)));
        }
        // routes=<hex>,<hex>..: the node serves a Router with these routes (every one handled by the node service)
        // gate=<k>: the whole service sits behind tower's ConcurrencyLimit (back-pressure through poll_ready: at most k
        // requests are handed to the service at a time, the others wait for readiness)
        if let Some(k) = a.get("gate").and_then(|v| v.parse::<usize>().ok()) {
            let gated = tower::limit::ConcurrencyLimit::new(svc, k);
            return self.finish_start(idx, b.start(gated), stats, key);
        }
        // inflight=<k>[b]: the service sits behind anemo-tower's per-peer in-flight limit (ReturnError, or Block with "b")
        if let Some(v) = a.get("inflight") {
            use tower::Layer as _;
            let (k, mode) = match v.strip_suffix('b') {
                Some(k) => (k, anemo_tower::inflight_limit::WaitMode::Block),
                None => (*v, anemo_tower::inflight_limit::WaitMode::ReturnError),
            };
            let inner = tower::ServiceBuilder::new().map_err(|e: Infallible| -> anemo::rpc::Status { match e {} }).service(svc);
            let limited = anemo_tower::inflight_limit::InflightLimitLayer::new(k.parse().unwrap(), mode).layer(inner);
            // the layer's error type is anemo's Status: turn it into the response it stands for
            return self.finish_start(idx, b.start(StatusToResponse(limited)), stats, key);
        }
        let started = match a.get("routes") {
            Some(list) => {
                let mut r = anemo::Router::new();
                for h in list.split(',') {
                    r = r.route(&String::from_utf8(unhex(h)).unwrap(), svc.clone());
                }
                drop(svc);
                b.start(r)
            }
            None => b.start(svc),
        };
        self.finish_start(idx, started, stats, key)
    }

    fn finish_start(&mut self, idx: usize, started: anyhow::Result<Network>, stats: Arc<NodeStats>, key: [u8; 32]) -> String {
        match started {
            Ok(net) => {
                let peer_id = net.peer_id();
                let port = net.local_addr().port();
                self.ids.lock().unwrap().insert(peer_id, idx);
                let (sub, snap) = net.subscribe().unwrap();
                let weak = net.downgrade();
                self.nodes.insert(
                    idx,
                    Node { idx, net: Some(net), weak: Some(weak), peer_id, port, stats, sub: Some(sub), snapshot: vec![], key },
                );
                let _ = snap;
                format!("ok {} {port}", &format!("{peer_id}")[..8])
            }
            Err(e) => format!("err {e}"),
        }
    }

    fn net(&self, i: usize) -> Option<Network> {
        self.nodes.get(&i).and_then(|n| n.net.clone())
    }

    fn known(&mut self, t: &[&str]) -> String {
        let i: usize = t[1].parse().unwrap();
        let j: usize = t[2].parse().unwrap();
        let aff = match t[3] {
            "high" => PeerAffinity::High,
            "allowed" => PeerAffinity::Allowed,
            _ => PeerAffinity::Never,
        };
        let a = kv(&t[4..]);
        let mut address = Vec::new();
        if let Some(list) = a.get("addr") {
            for x in list.split(',') {
                match x {
                    "none" | "" => {}
                    "self" => address.push(fabric::addr(self.nodes[&j].port).into()),
                    p if p.starts_with('p') => address.push(fabric::addr(p[1..].parse().unwrap()).into()),
                    n => address.push(fabric::addr(self.nodes[&n.parse::<usize>().unwrap()].port).into()),
                }
            }
        } else {
            address.push(fabric::addr(self.nodes[&j].port).into());
        }
        let peer_id = self.nodes[&j].peer_id;
        match self.net(i) {
            Some(n) => {
                n.known_peers().insert(PeerInfo { peer_id, affinity: aff, address });
                "ok".into()
            }
            None => "err gone".into(),
        }
    }
}

fn reason(r: &anemo::types::DisconnectReason) -> &'static str {
    use anemo::types::DisconnectReason::*;
    match r {
        Requested => "Requested",
        VersionMismatch => "VersionMismatch",
        TransportError => "TransportError",
        ConnectionClosed => "ConnectionClosed",
        ApplicationClosed => "ApplicationClosed",
        Reset => "Reset",
        TimedOut => "TimedOut",
        LocallyClosed => "LocallyClosed",
    }
}

/// Commands that only need a Network handle and can therefore run in a background task.
async fn net_cmd(
    t: Vec<String>,
    net: Option<Network>,
    ports: HashMap<usize, u16>,
    pids: HashMap<usize, PeerId>,
    ids: Arc<Mutex<HashMap<PeerId, usize>>>,
) -> String {
    let t: Vec<&str> = t.iter().map(|s| s.as_str()).collect();
    let started = tokio::time::Instant::now();
    let el = move || started.elapsed().as_micros();
    let Some(net) = net else { return "err gone".into() };
    let name = |p: &PeerId| ids.lock().unwrap().get(p).map(|i| i.to_string()).unwrap_or_else(|| "?".into());
    match t[0] {
        "connect" => {
            let j: usize = t[2].parse().unwrap();
            let a = kv(&t[3..]);
            let port = a.get("port").and_then(|p| p.parse().ok()).unwrap_or_else(|| ports[&j]);
            // ip=<x>: the node is dialed under its other address 127.0.0.<x> (every fabric node answers under all of them)
            let target = match a.get("ip") {
                // ip=m: the IPv4-mapped IPv6 spelling of the node's address, [::ffff:127.0.0.1]:port
                Some(&"m") => std::net::SocketAddr::new(std::net::IpAddr::V6(std::net::Ipv4Addr::LOCALHOST.to_ipv6_mapped()), port),
                Some(x) => std::net::SocketAddr::new(std::net::IpAddr::V4(std::net::Ipv4Addr::new(127, 0, 0, x.parse().unwrap())), port),
                None => fabric::addr(port),
            };
            let r = match a.get("pin") {
                Some(k) => net.connect_with_peer_id(target, pids[&k.parse::<usize>().unwrap()]).await,
                None => net.connect(target).await,
            };
            match r {
                Ok(p) => {
                    // C03: the returned identity must be (or have been) listed
                    let listed = net.peers().contains(&p);
                    format!("ok {} listed={} t={}", name(&p), listed as u8, el())
                }
                Err(_) => format!("err t={}", el()),
            }
        }
        "rpc" => {
            let j: usize = t[2].parse().unwrap();
            let a = kv(&t[3..]);
            let size: usize = a.get("size").and_then(|v| v.parse().ok()).unwrap_or(0);
            let id = a.get("id").copied().unwrap_or("0");
            let mut req = Request::new(Bytes::from(body_pattern(size, id.len() as u8 + j as u8)))
                .with_route(a.get("route").map(|r| String::from_utf8(unhex(r)).unwrap()).unwrap_or("/echo".into()))
                .with_header("id", id);
            if a.get("noid") == Some(&"1") {
                req.headers_mut().remove("id");
            }
            for k in ["sleep-ms", "resp-size", "resp-hdr-size", "status", "panic", "ticks"] {
                if let Some(v) = a.get(k) {
                    req.headers_mut().insert(k.to_string(), v.to_string());
                }
            }
            if let Some(n) = a.get("hdr-size").and_then(|v| v.parse::<usize>().ok()) {
                req.headers_mut().insert("pad".into(), "q".repeat(n));
            }
            if let Some(v) = a.get("timeout-hdr") {
                req.headers_mut().insert("timeout".into(), String::from_utf8(unhex(v)).unwrap());
            }
            // xh=<hex name>:<hex value>[,<hex name>:<hex value>..]: arbitrary extra request headers
            if let Some(list) = a.get("xh") {
                for kv in list.split(',') {
                    if let Some((k, v)) = kv.split_once(':') {
                        req.headers_mut().insert(String::from_utf8(unhex(k)).unwrap(), String::from_utf8(unhex(v)).unwrap());
                    }
                }
            }
            // idh=<hex name>,<hex name>..@<node>[:u]: headers that name node <node>'s identity (its PeerId in hex, lower or
            // upper case) under each of the given names; the handler is asked to copy every header into its answer
            if let Some(spec) = a.get("idh") {
                if let Some((names, who)) = spec.split_once('@') {
                    let (who, enc) = who.split_once(':').unwrap_or((who, "l"));
                    let pid = pids[&who.parse::<usize>().unwrap()];
                    let v = if enc == "u" { hex::encode_upper(pid.0) } else { hex::encode(pid.0) };
                    for n in names.split(',') {
                        req.headers_mut().insert(String::from_utf8(unhex(n)).unwrap(), v.clone());
                    }
                    req.headers_mut().insert("echo-all".into(), "1".into());
                }
            }
            if a.get("typed") == Some(&"1") {
                // the typed client layer (rpc::client::Rpc::unary over the Peer handle, bincode codec): an error status the
                // remote answers with comes back as rpc::Status, whose peer_id is what the caller sees as its origin
                let Some(peer) = net.peer(pids[&j]) else { return format!("err notconnected t={}", el()) };
                let mut client = anemo::rpc::client::Rpc::new(peer);
                let codec = anemo::rpc::codec::BincodeCodec::<Vec<u8>, Vec<u8>>::default();
                let r: Result<Response<Vec<u8>>, anemo::rpc::Status> = client.unary(req.map(|b| b.to_vec()), codec).await;
                return match r {
                    Ok(resp) => format!(
                        "typedok st={} from={} t={}",
                        resp.status().to_u16(),
                        resp.peer_id().map(|p| name(p)).unwrap_or("?".into()),
                        el()
                    ),
                    Err(st) => format!(
                        "typederr st={} from={} t={}",
                        st.status().to_u16(),
                        st.peer_id().map(|p| name(p)).unwrap_or("?".into()),
                        el()
                    ),
                };
            }
            let sent = digest(req.body());
            let fut = net.rpc(pids[&j], req);
            let r = match a.get("abandon-us").and_then(|v| v.parse::<u64>().ok()) {
                Some(us) => match tokio::time::timeout(Duration::from_micros(us), fut).await {
                    Ok(r) => r,
                    Err(_) => return format!("abandoned t={}", el()),
                },
                // guard (virtual time): a call that no transport timer ever ends is reported, not waited for
                None => match tokio::time::timeout(Duration::from_secs(900), fut).await {
                    Ok(r) => r,
                    Err(_) => return format!("err stuck-for-900s t={}", el()),
                },
            };
            match r {
                Ok(resp) => {
                    let from = resp.peer_id().map(|p| name(p)).unwrap_or("?".into());
                    let h = resp.headers();
                    format!(
                        "ok st={} body={} sent={} id={} srv={} from={} seen={} pad={} origin={} hd={} t={}",
                        resp.status().to_u16(),
                        digest(resp.body()),
                        sent,
                        h.get("id").cloned().unwrap_or_default(),
                        h.get("srv").cloned().unwrap_or_default(),
                        from,
                        h.get("seen-from").cloned().unwrap_or_default(),
                        h.get("pad").map(|p| p.len()).unwrap_or(0),
                        h.get("origin").cloned().unwrap_or_default(),
                        h.get("hdr-digest").cloned().unwrap_or_default(),
                        el()
                    )
                }
                Err(e) => {
                    let class = if anemo::verif::is_timeout_expired(&e) {
                        "timeout"
                    } else if format!("{e:#}").contains("not connected") {
                        "notconnected"
                    } else if format!("{e:#}").contains("frame size too big") {
                        "toobig"
                    } else {
                        "other"
                    };
                    format!("err {class} t={}", el())
                }
            }
        }
        "shutdown" => match net.shutdown().await {
            // what the network reports at the very moment a shutdown call returns successfully
            Ok(()) => format!("ok closed={} peers={} t={}", net.is_closed() as u8, net.peers().len(), el()),
            Err(_) => format!("err closed={} peers={} t={}", net.is_closed() as u8, net.peers().len(), el()),
        },
        other => format!("bad-cmd {other}"),
    }
}

async fn run_scenario(line: &[&str]) -> String {
    // simnet seed=<n> [delay=us jitter=us loss=pm dup=pm] ; cmd ; cmd ...
    let joined = line[1..].join(" ");
    let mut cmds = joined.split(';').map(|c| c.trim()).filter(|c| !c.is_empty());
    let head: Vec<&str> = cmds.next().unwrap_or("").split_whitespace().collect();
    let a = kv(&head);
    let seed: u64 = a.get("seed").and_then(|v| v.parse().ok()).unwrap_or(1);
    let fab = Fabric::new(seed);
    let link = |a: &HashMap<&str, &str>, base: LinkCfg| LinkCfg {
        delay_us: a.get("delay").and_then(|v| v.parse().ok()).unwrap_or(base.delay_us),
        jitter_us: a.get("jitter").and_then(|v| v.parse().ok()).unwrap_or(base.jitter_us),
        loss_permille: a.get("loss").and_then(|v| v.parse().ok()).unwrap_or(base.loss_permille),
        dup_permille: a.get("dup").and_then(|v| v.parse().ok()).unwrap_or(base.dup_permille),
    };
    fab.set_cfg(link(&a, LinkCfg::default()));
    let real = a.get("real").is_some();
    if !real {
        fabric::install(&fab);
    }
    anemo::verif::set_jitter_override(Some(Duration::from_millis(
        a.get("tickjitter").and_then(|v| v.parse().ok()).unwrap_or(0),
    )));
    anemo::verif::trace_enable(true);
    let mut w = World {
        adv: HashMap::new(),
        fabric: fab.clone(),
        nodes: HashMap::new(),
        ids: Arc::new(Mutex::new(HashMap::new())),
        bg: HashMap::new(),
        start: tokio::time::Instant::now(),
        held_peers: Vec::new(),
    };
    let mut out: Vec<String> = Vec::new();
    for cmd in cmds {
        let t: Vec<&str> = cmd.split_whitespace().collect();
        let r: String = match t[0] {
            "node" => w.start_node(&t),
            "known" => w.known(&t),
            "unknown" => {
                let (i, j): (usize, usize) = (t[1].parse().unwrap(), t[2].parse().unwrap());
                let pid = w.nodes[&j].peer_id;
                w.net(i).map(|n| { n.known_peers().remove(&pid); "ok".to_string() }).unwrap_or("err gone".into())
            }
            "connect" | "rpc" | "shutdown" | "bg" => {
                let (bgid, t2): (Option<String>, Vec<String>) = if t[0] == "bg" {
                    (Some(t[1].to_string()), t[2..].iter().map(|s| s.to_string()).collect())
                } else {
                    (None, t.iter().map(|s| s.to_string()).collect())
                };
                let i: usize = t2[1].parse().unwrap();
                let mut ports: HashMap<usize, u16> = w.nodes.iter().map(|(k, n)| (*k, n.port)).collect();
                for (k, a) in w.adv.iter() {
                    ports.insert(*k, a.port);
                }
                let mut pids: HashMap<usize, PeerId> = w.nodes.iter().map(|(k, n)| (*k, n.peer_id)).collect();
                for (k, a) in w.adv.iter() {
                    if let Some(p) = a.peer_id {
                        pids.insert(*k, p);
                    }
                }
                let fut = net_cmd(t2, w.net(i), ports, pids, w.ids.clone());
                match bgid {
                    Some(id) => {
                        w.bg.insert(id, tokio::spawn(fut));
                        "started".into()
                    }
                    None => fut.await,
                }
            }
            "join" => match w.bg.remove(t[1]) {
                Some(h) => {
                    let lim = t.get(2).and_then(|v| v.parse::<u64>().ok()).unwrap_or(600_000);
                    let mut h = h;
                    match tokio::time::timeout(Duration::from_millis(lim), &mut h).await {
                        Ok(Ok(s)) => s,
                        Ok(Err(e)) => format!("task-failed panic={}", e.is_panic() as u8),
                        Err(_) => { h.abort(); "HANG".into() }
                    }
                }
                None => "nojob".into(),
            },
            "cancel" => match w.bg.remove(t[1]) {
                Some(h) => { h.abort(); let _ = h.await; "cancelled".into() }
                None => "nojob".into(),
            },
            "disconnect" => {
                let (i, j): (usize, usize) = (t[1].parse().unwrap(), t[2].parse().unwrap());
                let pid = match w.nodes.get(&j) {
                    Some(n) => Some(n.peer_id),
                    None => w.adv.get(&j).and_then(|a| a.peer_id),
                };
                let Some(pid) = pid else { out.push("err nobody".into()); continue };
                match w.net(i) {
                    Some(n) => match n.disconnect(pid) { Ok(()) => "ok".into(), Err(_) => "err".into() },
                    None => "err gone".into(),
                }
            }
            "peers" => {
                let i: usize = t[1].parse().unwrap();
                match w.net(i) {
                    Some(n) => {
                        let mut v: Vec<String> = n.peers().iter().map(|p| w.node_of(p)).collect();
                        v.sort();
                        format!("[{}]", v.join(","))
                    }
                    None => "gone".into(),
                }
            }
            "events" => {
                let i: usize = t[1].parse().unwrap();
                let mut ev = Vec::new();
                let ids = w.ids.clone();
                let name = |p: &PeerId| ids.lock().unwrap().get(p).map(|i| i.to_string()).unwrap_or_else(|| "?".into());
                if let Some(n) = w.nodes.get_mut(&i) {
                    if let Some(sub) = n.sub.as_mut() {
                        loop {
                            match sub.try_recv() {
                                Ok(PeerEvent::NewPeer(p)) => ev.push(format!("+{}", name(&p))),
                                Ok(PeerEvent::LostPeer(p, r)) => ev.push(format!("-{}:{}", name(&p), reason(&r))),
                                Err(broadcast::error::TryRecvError::Empty) => break,
                                Err(broadcast::error::TryRecvError::Closed) => { ev.push("END".into()); break }
                                Err(broadcast::error::TryRecvError::Lagged(k)) => ev.push(format!("LAG{k}")),
                            }
                        }
                    }
                }
                format!("[{}]", ev.join(","))
            }
            "sub" => {
                let i: usize = t[1].parse().unwrap();
                match w.net(i).map(|n| n.subscribe()) {
                    Some(Ok((rx, snap))) => {
                        let mut v: Vec<String> = snap.iter().map(|p| w.node_of(p)).collect();
                        v.sort();
                        w.nodes.get_mut(&i).unwrap().sub = Some(rx);
                        format!("snap[{}]", v.join(","))
                    }
                    _ => "err".into(),
                }
            }
            "sleep" => {
                tokio::time::sleep(Duration::from_millis(t[1].parse().unwrap())).await;
                "ok".into()
            }
            "part" => { w.fabric.partition(w.nodes[&t[1].parse().unwrap()].port, w.nodes[&t[2].parse().unwrap()].port); "ok".into() }
            "heal" => { w.fabric.heal(w.nodes[&t[1].parse().unwrap()].port, w.nodes[&t[2].parse().unwrap()].port); "ok".into() }
            "isolate" => { w.fabric.isolate(w.nodes[&t[1].parse().unwrap()].port, true); "ok".into() }
            "healall" => { w.fabric.heal_all(); "ok".into() }
            "link" => { let a = kv(&t[1..]); let c = link(&a, w.fabric.cfg()); w.fabric.set_cfg(c); "ok".into() }
            "drop" => {
                let i: usize = t[1].parse().unwrap();
                if let Some(n) = w.nodes.get_mut(&i) { n.net = None; }
                "ok".into()
            }
            "stat" => {
                let i: usize = t[1].parse().unwrap();
                let s = &w.nodes[&i].stats;
                format!(
                    "started={} completed={} dropped={} clones={}",
                    s.started.load(Ordering::SeqCst),
                    s.completed.load(Ordering::SeqCst),
                    s.dropped.load(Ordering::SeqCst),
                    s.clones_alive.load(Ordering::SeqCst)
                )
            }
            "log" => {
                let i: usize = t[1].parse().unwrap();
                let l = w.nodes[&i].stats.log.lock().unwrap();
                format!("[{}]", l.iter().map(|s| s.replace(' ', ",")).collect::<Vec<_>>().join("|"))
            }
            "closed" => {
                let i: usize = t[1].parse().unwrap();
                let n = &w.nodes[&i];
                let closed = n.net.as_ref().map(|x| x.is_closed() as u8);
                let up = n.weak.as_ref().map(|x| x.upgrade().is_some() as u8).unwrap_or(9);
                format!("closed={} upgrade={up}", closed.map(|c| c.to_string()).unwrap_or("dropped".into()))
            }
            // adv <i> <cert spec> [signkey=k] [nocert=1]: attach an adversary endpoint
            "adv" => {
                let i: usize = t[1].parse().unwrap();
                let a = kv(&t[2..]);
                let adv = crate::adversary::Adversary::new(&w.fabric, &a);
                let port = adv.port;
                w.adv.insert(i, adv);
                format!("ok {port}")
            }
            // advdial <i> <j> sni=<name>: the adversary dials honest node j
            "advdial" => {
                let (i, j): (usize, usize) = (t[1].parse().unwrap(), t[2].parse().unwrap());
                let a = kv(&t[3..]);
                let port = w.nodes[&j].port;
                let sni = a.get("sni").copied().unwrap_or("net").to_string();
                let adv = w.adv.get_mut(&i).unwrap();
                adv.dial(j, port, &sni).await
            }
            // advserve <i> <hex>:<finish|reset|hold>: the answer adversary i gives to the next request stream opened towards it
            "advserve" => {
                let i: usize = t[1].parse().unwrap();
                let (h, act) = t[2].split_once(':').unwrap_or((t[2], "finish"));
                let bytes = if h == "-" { Vec::new() } else { hex::decode(h).unwrap() };
                w.adv.get(&i).unwrap().responses.lock().unwrap().push_back((bytes, act.to_string()));
                "ok".into()
            }
            // advop <i> <j> <op>: hostile stream-level behaviour of adversary i towards node j
            "advop" => {
                let (i, j): (usize, usize) = (t[1].parse().unwrap(), t[2].parse().unwrap());
                let adv = w.adv.get_mut(&i).unwrap();
                let mut held = std::mem::take(&mut adv.held);
                let r = adv.hostile(j, t[3], &mut held).await;
                adv.held = held;
                r
            }
            "advopen" => {
                let (i, j): (usize, usize) = (t[1].parse().unwrap(), t[2].parse().unwrap());
                format!("{}", w.adv[&i].conn_open(j) as u8)
            }
            // encreq <route hex> <size> [hdr-size]: bytes of a well-formed request (for hostile mutations)
            // holdpeer <i> <j>: the application keeps a Peer handle of node j obtained from node i (until the scenario ends)
            "holdpeer" => {
                let (i, j): (usize, usize) = (t[1].parse().unwrap(), t[2].parse().unwrap());
                let pid = w.nodes[&j].peer_id;
                match w.net(i).and_then(|n| n.peer(pid)) {
                    Some(p) => { w.held_peers.push(p); "ok".into() }
                    None => "err".into(),
                }
            }
            "now" => format!("{}", w.start.elapsed().as_micros()),
            "trace" => {
                // trace lines since the last call, peer ids rewritten to node indices, ports kept
                let ids = w.ids.lock().unwrap().clone();
                let mut names: Vec<(String, String)> = ids.iter().map(|(p, i)| (format!("{p}"), format!("n{i}"))).collect();
                names.sort();
                let want = t.get(1).copied().unwrap_or("");
                let lines: Vec<String> = anemo::verif::trace_take()
                    .into_iter()
                    .filter(|l| want.is_empty() || l.split_whitespace().nth(1) == Some(want))
                    .map(|mut l| {
                        for (hex, n) in &names {
                            l = l.replace(hex, n);
                        }
                        l.replace(' ', ",")
                    })
                    .collect();
                format!("[{}]", lines.join("|"))
            }
            "ranks" => {
                // rank of every node's PeerId in the PeerId order
                let mut v: Vec<(PeerId, usize)> = w.nodes.iter().map(|(i, n)| (n.peer_id, *i)).collect();
                v.sort();
                v.iter().enumerate().map(|(r, (_, i))| format!("{i}:{r}")).collect::<Vec<_>>().join(",")
            }
            "idlt" => {
                let (i, j): (usize, usize) = (t[1].parse().unwrap(), t[2].parse().unwrap());
                format!("{}", (w.nodes[&i].peer_id < w.nodes[&j].peer_id) as u8)
            }
            "fabstat" => { let (s, d) = w.fabric.stats(); format!("sent={s} dropped={d}") }
            other => format!("bad-cmd {other}"),
        };
        out.push(r);
    }
    // tear everything down inside the runtime so that nothing outlives the scenario
    for (_, a) in w.adv.drain() {
        a.endpoint.close(0u32.into(), b"done");
    }
    for (_, n) in w.nodes.iter_mut() {
        n.sub = None;
        if let Some(net) = n.net.take() {
            let _ = tokio::time::timeout(Duration::from_secs(120), net.shutdown()).await;
        }
    }
    anemo::verif::set_socket_factory(None);
    anemo::verif::trace_enable(false);
    anemo::verif::set_jitter_override(None);
    out.join(" ; ")
}

pub fn run() {
    for_each_case(|t| {
        catch(|| {
            let before = PANICS.load(Ordering::SeqCst);
            // `real=1` in the scenario head: real UDP sockets and the real clock
            let real = t.iter().take_while(|x| **x != ";").any(|x| *x == "real=1");
            let rt = tokio::runtime::Builder::new_current_thread()
                .enable_all()
                .start_paused(!real)
                .build()
                .unwrap();
            let wall = std::time::Instant::now();
            let out = rt.block_on(run_scenario(t));
            drop(rt);
            let panics = PANICS.load(Ordering::SeqCst) - before;
            format!("{out} ;; panics={panics} wall_ms={}", wall.elapsed().as_millis())
        })
    });
}
