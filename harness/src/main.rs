//! implrun: implementation-side drivers for the correspondence checks.
//!
//! usage: implrun <driver> [args] < cases > results     (one result line per case line)
mod activepeers;
mod adversary;
mod certs;
mod codec;
mod codegen;
mod fabric;
mod simnet;
mod teardown;
mod layers;
mod router;
mod timeout;
mod util;

fn main() {
    let args: Vec<String> = std::env::args().collect();
    if args.len() < 2 {
        eprintln!("usage: implrun <driver> [args]");
        std::process::exit(2);
    }
    // panics are reported per case as `PANIC`; keep stderr quiet but counted
    util::install_panic_hook();
    match args[1].as_str() {
        "activepeers" => activepeers::run(),
        "certs" => certs::run(),
        "codec" => codec::run(),
        "codegen" => codegen::run(),
        "simnet" => simnet::run(),
        "teardown" => teardown::run(),
        "layers" => layers::run(),
        "router" => router::run(),
        "timeout" => timeout::run(),
        other => {
            eprintln!("unknown driver {other}");
            std::process::exit(2);
        }
    }
}
