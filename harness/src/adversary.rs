//! A raw quinn/rustls endpoint with arbitrary certificates and no anemo logic, attached to the
//! same fabric as the honest networks (C01, C03, C06, C14).
use crate::certs;
use crate::fabric::{self, Fabric};
use std::collections::HashMap;
use std::sync::Arc;

#[derive(Debug)]
struct AcceptAnything(Vec<rustls::SignatureScheme>);

impl rustls::client::danger::ServerCertVerifier for AcceptAnything {
    fn verify_server_cert(
        &self,
        _: &rustls::pki_types::CertificateDer<'_>,
        _: &[rustls::pki_types::CertificateDer<'_>],
        _: &rustls::pki_types::ServerName<'_>,
        _: &[u8],
        _: rustls::pki_types::UnixTime,
    ) -> Result<rustls::client::danger::ServerCertVerified, rustls::Error> {
        Ok(rustls::client::danger::ServerCertVerified::assertion())
    }
    fn verify_tls12_signature(
        &self,
        _: &[u8],
        _: &rustls::pki_types::CertificateDer<'_>,
        _: &rustls::DigitallySignedStruct,
    ) -> Result<rustls::client::danger::HandshakeSignatureValid, rustls::Error> {
        Ok(rustls::client::danger::HandshakeSignatureValid::assertion())
    }
    fn verify_tls13_signature(
        &self,
        _: &[u8],
        _: &rustls::pki_types::CertificateDer<'_>,
        _: &rustls::DigitallySignedStruct,
    ) -> Result<rustls::client::danger::HandshakeSignatureValid, rustls::Error> {
        Ok(rustls::client::danger::HandshakeSignatureValid::assertion())
    }
    fn supported_verify_schemes(&self) -> Vec<rustls::SignatureScheme> {
        self.0.clone()
    }
}

impl rustls::server::danger::ClientCertVerifier for AcceptAnything {
    fn root_hint_subjects(&self) -> &[rustls::DistinguishedName] {
        &[]
    }
    fn client_auth_mandatory(&self) -> bool {
        false
    }
    fn verify_client_cert(
        &self,
        _: &rustls::pki_types::CertificateDer<'_>,
        _: &[rustls::pki_types::CertificateDer<'_>],
        _: rustls::pki_types::UnixTime,
    ) -> Result<rustls::server::danger::ClientCertVerified, rustls::Error> {
        Ok(rustls::server::danger::ClientCertVerified::assertion())
    }
    fn verify_tls12_signature(
        &self,
        _: &[u8],
        _: &rustls::pki_types::CertificateDer<'_>,
        _: &rustls::DigitallySignedStruct,
    ) -> Result<rustls::client::danger::HandshakeSignatureValid, rustls::Error> {
        Ok(rustls::client::danger::HandshakeSignatureValid::assertion())
    }
    fn verify_tls13_signature(
        &self,
        _: &[u8],
        _: &rustls::pki_types::CertificateDer<'_>,
        _: &rustls::DigitallySignedStruct,
    ) -> Result<rustls::client::danger::HandshakeSignatureValid, rustls::Error> {
        Ok(rustls::client::danger::HandshakeSignatureValid::assertion())
    }
    fn supported_verify_schemes(&self) -> Vec<rustls::SignatureScheme> {
        self.0.clone()
    }
}

#[derive(Debug)]
struct Always(Arc<rustls::sign::CertifiedKey>);
impl rustls::server::ResolvesServerCert for Always {
    fn resolve(&self, _: rustls::server::ClientHello<'_>) -> Option<Arc<rustls::sign::CertifiedKey>> {
        Some(self.0.clone())
    }
}
impl rustls::client::ResolvesClientCert for Always {
    fn resolve(&self, _: &[&[u8]], _: &[rustls::SignatureScheme]) -> Option<Arc<rustls::sign::CertifiedKey>> {
        Some(self.0.clone())
    }
    fn has_certs(&self) -> bool {
        true
    }
}

pub struct Adversary {
    pub held: Vec<(quinn::SendStream, quinn::RecvStream)>,
    pub endpoint: quinn::Endpoint,
    pub port: u16,
    pub conns: HashMap<usize, quinn::Connection>,
    pub accepted: Arc<std::sync::Mutex<Vec<quinn::Connection>>>,
    pub present_cert: bool,
    pub held_uni: Vec<quinn::SendStream>,
    /// identity of the adversary's own key (None for a non-Ed25519 key)
    pub peer_id: Option<anemo::PeerId>,
    /// scripted answers to the request streams honest nodes open towards the adversary: (bytes, finish|reset|hold)
    pub responses: Responses,
}

pub type Responses = Arc<std::sync::Mutex<std::collections::VecDeque<(Vec<u8>, String)>>>;

/// Serves the request streams of one connection with the scripted answers (nothing scripted: the stream is just finished).
fn serve(conn: quinn::Connection, responses: Responses) {
    tokio::spawn(async move {
        let held: Arc<std::sync::Mutex<Vec<(quinn::SendStream, quinn::RecvStream)>>> = Default::default();
        while let Ok((mut tx, mut rx)) = conn.accept_bi().await {
            let item = responses.lock().unwrap().pop_front();
            let held = held.clone();
            tokio::spawn(async move {
                let _ = tokio::time::timeout(std::time::Duration::from_secs(5), rx.read_to_end(1 << 23)).await;
                match item {
                    Some((bytes, act)) => {
                        let _ = tx.write_all(&bytes).await;
                        match act.as_str() {
                            "reset" => { let _ = tx.reset(11u32.into()); }
                            "hold" => held.lock().unwrap().push((tx, rx)),
                            _ => { let _ = tx.finish(); let _ = tx.stopped().await; }
                        }
                    }
                    None => { let _ = tx.finish(); }
                }
            });
        }
    });
}

fn signing_key(spec: &str) -> Arc<dyn rustls::sign::SigningKey> {
    let der: Vec<u8> = if spec == "e" {
        certs::ecdsa_pkcs8()
    } else {
        certs::pkcs8_ed25519(&crate::simnet::key_from_seed(spec.parse().unwrap()))
    };
    rustls::crypto::ring::sign::any_supported_type(&rustls::pki_types::PrivateKeyDer::Pkcs8(der.into())).unwrap()
}

impl Adversary {
    /// `a` = certificate spec (k, by, names, valid, eku, wf) plus signkey=<k|e> (key used for the
    /// handshake signature; default: the certificate's own key) and nocert=1 (present none as client).
    pub fn new(fab: &Arc<Fabric>, a: &HashMap<&str, &str>) -> Adversary {
        // k=g<relation>:<V>: the adversary ground its own key until its public key stands in a weak relation to the public
        // key of victim V (same xor / sum of all bytes, same first / last byte): about 256 tries
        let ground: Option<String> = a.get("k").and_then(|k| k.strip_prefix('g')).map(|spec| {
            let (rel, v) = spec.split_once(':').unwrap();
            let pk = |seed: u64| -> Vec<u8> {
                use ring::signature::KeyPair as _;
                ring::signature::Ed25519KeyPair::from_seed_unchecked(&crate::simnet::key_from_seed(seed)).unwrap().public_key().as_ref().to_vec()
            };
            let f = |b: &[u8]| -> u32 {
                match rel {
                    "xor" => b.iter().fold(0u8, |x, y| x ^ y) as u32,
                    "sum" => b.iter().fold(0u8, |x, y| x.wrapping_add(*y)) as u32,
                    "first" => b[0] as u32,
                    "last" => b[31] as u32,
                    _ => ((b[0] as u32) << 8) | b[1] as u32,
                }
            };
            let want = f(&pk(v.parse().unwrap()));
            let mut s: u64 = 5_000_000;
            while f(&pk(s)) != want {
                s += 1;
            }
            s.to_string()
        });
        let mut a2: HashMap<&str, &str> = a.clone();
        if let Some(g) = ground.as_deref() {
            a2.insert("k", g);
        }
        let a = &a2;
        let der = certs::build_cert(a);
        let k = *a.get("k").unwrap_or(&"1");
        let key = signing_key(a.get("signkey").copied().unwrap_or(k));
        // chain=<k1,k2,..>: further (honest, self-signed, same names) certificates of those keys presented
        // after the end-entity certificate; chainfirst=1 puts them in front of it instead
        let mut chain: Vec<rustls::pki_types::CertificateDer<'static>> = vec![der.into()];
        if let Some(extra) = a.get("chain") {
            let mut more = Vec::new();
            for ek in extra.split(',').filter(|x| !x.is_empty()) {
                let mut b: HashMap<&str, &str> = HashMap::new();
                b.insert("k", ek);
                // chainnames=<names>: the further certificates are issued for these names instead of the end entity's
                if let Some(n) = a.get("chainnames").or(a.get("names")) {
                    b.insert("names", n);
                }
                more.push(rustls::pki_types::CertificateDer::from(certs::build_cert(&b)));
            }
            if a.get("chainfirst") == Some(&"1") {
                more.extend(chain);
                chain = more;
            } else {
                chain.extend(more);
            }
        }
        let ck = Arc::new(rustls::sign::CertifiedKey::new(chain, key));
        let provider = Arc::new(rustls::crypto::ring::default_provider());
        let schemes = provider.signature_verification_algorithms.supported_schemes();
        let anything = Arc::new(AcceptAnything(schemes));
        let server_crypto = rustls::ServerConfig::builder_with_provider(provider.clone())
            .with_protocol_versions(&[&rustls::version::TLS13])
            .unwrap()
            .with_client_cert_verifier(anything.clone())
            .with_cert_resolver(Arc::new(Always(ck.clone())));
        let present_cert = a.get("nocert") != Some(&"1");
        let cb = rustls::ClientConfig::builder_with_provider(provider)
            .with_protocol_versions(&[&rustls::version::TLS13])
            .unwrap()
            .dangerous()
            .with_custom_certificate_verifier(anything);
        let client_crypto = if present_cert {
            cb.with_client_cert_resolver(Arc::new(Always(ck)))
        } else {
            cb.with_no_client_auth()
        };
        let server = quinn::ServerConfig::with_crypto(Arc::new(
            quinn::crypto::rustls::QuicServerConfig::try_from(server_crypto).unwrap(),
        ));
        let port = fabric::auto_port();
        let mut endpoint = quinn::Endpoint::new_with_abstract_socket(
            quinn::EndpointConfig::default(),
            Some(server),
            fab.socket(port),
            Arc::new(quinn::TokioRuntime),
        )
        .unwrap();
        let mut client_cfg = quinn::ClientConfig::new(Arc::new(
            quinn::crypto::rustls::QuicClientConfig::try_from(client_crypto).unwrap(),
        ));
        // nouni=1: the adversary grants no unidirectional streams, so the listener can never send its half of anemo's
        // handshake: TLS completes (the connection is admitted) but the connection is never established
        if a.get("nouni") == Some(&"1") {
            let mut t = quinn::TransportConfig::default();
            t.max_concurrent_uni_streams(0u32.into());
            client_cfg.transport_config(Arc::new(t));
        }
        endpoint.set_default_client_config(client_cfg);
        let responses: Responses = Default::default();
        let peer_id = if k == "e" { None } else {
            let raw = rcgen::PublicKeyData::der_bytes(&certs::ed_keypair(k.parse().unwrap())).to_vec();
            <[u8; 32]>::try_from(raw.as_slice()).ok().map(anemo::PeerId)
        };
        // accept loop: complete the TLS handshake and play the server half of anemo's handshake
        let accepted = Arc::new(std::sync::Mutex::new(Vec::new()));
        let (ep, acc) = (endpoint.clone(), accepted.clone());
        let resp2 = responses.clone();
        tokio::spawn(async move {
            while let Some(incoming) = ep.accept().await {
                let acc = acc.clone();
                let resp3 = resp2.clone();
                tokio::spawn(async move {
                    if let Ok(conn) = incoming.await {
                        serve(conn.clone(), resp3);
                        if let Ok(mut s) = conn.open_uni().await {
                            let _ = anemo::verif::write_version_frame(&mut s, anemo::types::Version::V1).await;
                            let _ = s.finish();
                            let _ = s.stopped().await;
                        }
                        acc.lock().unwrap().push(conn);
                    }
                });
            }
        });
        Adversary { peer_id, responses, held_uni: Vec::new(), held: Vec::new(), endpoint, port, conns: HashMap::new(), accepted, present_cert }
    }

    /// Hostile behaviour on an established connection to `target` (C06). `op`:
    ///   bi:<hex>:<finish|reset|hold|abandon|stop>   open a request stream, write bytes, then act
    ///   uni:<hex>  datagram:<hex>  close
    pub async fn hostile(&mut self, target: usize, op: &str, held: &mut Vec<(quinn::SendStream, quinn::RecvStream)>) -> String {
        let Some(conn) = self.conns.get(&target).cloned() else { return "err noconn".into() };
        let f: Vec<&str> = op.split(':').collect();
        let bytes = |h: &str| if h == "-" { Vec::new() } else { hex::decode(h).unwrap() };
        match f[0] {
            "bi" => {
                let Ok((mut tx, mut rx)) = conn.open_bi().await else { return "err open".into() };
                let data = bytes(f[1]);
                if !data.is_empty() && tx.write_all(&data).await.is_err() {
                    return "err write".into();
                }
                match f[2] {
                    "finish" => {
                        let _ = tx.finish();
                        let t0 = tokio::time::Instant::now();
                        // read whatever the server answers (bounded), report its length, status and the time it took
                        let r = tokio::time::timeout(std::time::Duration::from_secs(5), rx.read_to_end(1 << 20)).await;
                        match r {
                            Ok(Ok(v)) => format!(
                                "answered {} st={} t={}",
                                v.len(),
                                if v.len() >= 14 { u16::from_le_bytes([v[12], v[13]]) as i64 } else { -1 },
                                t0.elapsed().as_micros()
                            ),
                            Ok(Err(_)) => "stream-error".into(),
                            Err(_) => { held.push((tx, rx)); "no-answer".into() }
                        }
                    }
                    "reset" => { let _ = tx.reset(7u32.into()); "reset".into() }
                    "stop" => { let _ = rx.stop(9u32.into()); let _ = tx.finish(); "stopped".into() }
                    "abandon" => { drop(tx); drop(rx); "abandoned".into() }
                    _ => { held.push((tx, rx)); "held".into() }
                }
            }
            "uni" => {
                let Ok(mut tx) = conn.open_uni().await else { return "err open".into() };
                let _ = tx.write_all(&bytes(f[1])).await;
                match f.get(2).copied() {
                    // left open, neither finished nor reset, for as long as the adversary lives
                    Some("hold") => { self.held_uni.push(tx); "uni-held".into() }
                    Some("reset") => { let _ = tx.reset(5u32.into()); "uni-reset".into() }
                    _ => { let _ = tx.finish(); "uni".into() }
                }
            }
            "datagram" => match conn.send_datagram(bytes(f[1]).into()) {
                Ok(()) => "datagram".into(),
                Err(_) => "datagram-refused".into(),
            },
            "close" => {
                conn.close(3u32.into(), b"bye");
                self.conns.remove(&target);
                "closed".into()
            }
            _ => "bad-op".into(),
        }
    }

    pub fn conn_open(&self, target: usize) -> bool {
        self.conns.get(&target).map(|c| c.close_reason().is_none()).unwrap_or(false)
    }

    /// Dials an honest node claiming `sni`; plays the client half of anemo's handshake.
    pub async fn dial(&mut self, target: usize, port: u16, sni: &str) -> String {
        let connecting = match self.endpoint.connect(fabric::addr(port), sni) {
            Ok(c) => c,
            Err(e) => return format!("err connect:{e}").replace(' ', "_"),
        };
        let conn = match tokio::time::timeout(std::time::Duration::from_secs(20), connecting).await {
            Ok(Ok(c)) => c,
            Ok(Err(_)) => return "err tls".into(),
            Err(_) => return "err timeout".into(),
        };
        // the server acknowledges only once it has admitted the connection
        let r = tokio::time::timeout(std::time::Duration::from_secs(20), async {
            let mut recv = conn.accept_uni().await.map_err(|_| ())?;
            anemo::verif::read_version_frame(&mut recv).await.map_err(|_| ())
        })
        .await;
        match r {
            Ok(Ok(_)) => {
                serve(conn.clone(), self.responses.clone());
                self.conns.insert(target, conn);
                "ok".into()
            }
            Ok(Err(())) => "err rejected".into(),
            Err(_) => "err noack".into(),
        }
    }
}
