//! Driver `layers`: the anemo-tower middlewares (auth, inflight limit, rate limit) around
//! controllable inner services.
use crate::util::*;
use anemo::types::response::StatusCode;
use anemo::{PeerId, Request, Response};
use anemo_tower::auth::{AllowedPeers, RequireAuthorizationLayer};
use anemo_tower::inflight_limit::{self, InflightLimitLayer};
use anemo_tower::rate_limit::{self, RateLimitLayer};
use bytes::Bytes;
use std::collections::HashMap;
use std::convert::Infallible;
use std::sync::{Arc, Mutex};
use std::time::Duration;
use tokio::sync::oneshot;
use tower::{Layer, Service, ServiceExt};

/// Distinct identities for distinct n; deliberately similar to one another: the same leading and
/// trailing bytes for all, n spread over one byte chosen by n itself (so that pairs differing only in
/// their last byte, only in their first byte or only somewhere in the middle all occur).
fn peer(n: u64) -> PeerId {
    let mut b = [7u8; 32];
    if n / 6 < 200 {
        let pos = [31usize, 0, 8, 16, 30, 9][(n % 6) as usize];
        b[pos] = b[pos].wrapping_add(1 + (n / 6) as u8);
    } else {
        // large populations: the number itself in bytes 20..28, everything else shared
        b[20..28].copy_from_slice(&n.to_le_bytes());
    }
    PeerId(b)
}

fn rt() -> tokio::runtime::Runtime {
    tokio::runtime::Builder::new_current_thread()
        .enable_all()
        .build()
        .unwrap()
}

// ---------------------------------------------------------------- auth

fn auth_case(t: &[&str]) -> String {
    // authallow <csv|-> <threads> <req>*      req = s<id> | n
    // authfn <threads> <req>*                 req = ok | d<status>:<payload>
    // authallow2 <outer csv|-> <inner csv|-> <threads> <req>*: two allow-list layers stacked, the first one outermost
    if t[0] == "authallow2" {
        let mut t2: Vec<&str> = vec!["authallow", t[2], t[3]];
        t2.extend_from_slice(&t[4..]);
        return auth_case_stacked(&t2, Some(t[1]));
    }
    auth_case_stacked(t, None)
}

fn auth_case_stacked(t: &[&str], outer: Option<&str>) -> String {
    let allow_mode = t[0] == "authallow";
    let (threads, reqs): (usize, &[&str]) = if allow_mode {
        (t[2].parse().unwrap(), &t[3..])
    } else {
        (t[1].parse().unwrap(), &t[2..])
    };
    let log: Arc<Mutex<Vec<String>>> = Arc::new(Mutex::new(Vec::new()));
    let log2 = log.clone();
    let inner = tower::service_fn(move |req: Request<Bytes>| {
        // recorded in `call` itself, not in the returned future: a layer that hands the request to the
        // wrapped service before its decision is seen even if it never polls the future
        let tag = req.headers().get("tag").cloned().unwrap_or_default();
        let seen = req.headers().contains_key("seen");
        log2.lock().unwrap().push(tag.clone());
        async move {
            Ok::<_, Infallible>(
                Response::new(Bytes::from(format!("inv:{tag}{}", if seen { ":seen" } else { "" }))),
            )
        }
    });
    let mk = |i: usize, spec: &str| -> Request<Bytes> {
        let mut r = Request::new(Bytes::new()).with_header("tag", i.to_string());
        if allow_mode {
            // a trailing 'o' / 'i' / 'c': the request also carries the extensions the library itself attaches elsewhere
            // (Direction::Outbound, Direction::Inbound, a ConnectionOrigin): none of them is the sender's identity
            let (spec, extra) = match spec.chars().last() {
                Some(c @ ('o' | 'i' | 'c' | 'h')) if spec.len() > 1 || spec == "n" => (&spec[..spec.len() - 1], Some(c)),
                _ => (spec, None),
            };
            if extra == Some('h') {
                // headers that name a listed identity (its PeerId in hex) under every candidate name (VERIF_ID_HEADERS)
                let named = t[1].split(',').next().and_then(|x| x.parse::<u64>().ok()).unwrap_or(0);
                let v = hex::encode(peer(named).0);
                for n in std::env::var("VERIF_ID_HEADERS").unwrap_or_default().split(',').filter(|x| !x.is_empty()) {
                    r.headers_mut().insert(String::from_utf8(unhex(n)).unwrap(), v.clone());
                }
            }
            let spec = if spec.is_empty() { "n" } else { spec };
            match extra {
                Some('o') => r = r.with_extension(anemo::Direction::Outbound),
                Some('i') => r = r.with_extension(anemo::Direction::Inbound),
                Some('c') => r = r.with_extension(anemo::ConnectionOrigin::Outbound),
                _ => {}
            }
            if let Some(id) = spec.strip_prefix('s') {
                r = r.with_extension(peer(id.parse().unwrap()));
            }
        } else {
            r = r.with_header("v", spec.to_string());
        }
        r
    };
    let fmt = |resp: Response<Bytes>| -> String {
        let body = String::from_utf8_lossy(resp.body()).to_string();
        if body.starts_with("inv:") && resp.status() == StatusCode::Success {
            body
        } else {
            format!("r{}:{}", resp.status().to_u16(), if body.is_empty() { "0".into() } else { body })
        }
    };
    let requests: Vec<Request<Bytes>> = reqs.iter().enumerate().map(|(i, s)| mk(i, s)).collect();
    let outs: Vec<String> = if allow_mode {
        let list: Vec<PeerId> = if t[1] == "-" {
            vec![]
        } else {
            t[1].split(',').map(|x| peer(x.parse().unwrap())).collect()
        };
        let svc = RequireAuthorizationLayer::new(AllowedPeers::new(list)).layer(inner);
        match outer {
            Some(o) => {
                let olist: Vec<PeerId> = if o == "-" { vec![] } else { o.split(',').map(|x| peer(x.parse().unwrap())).collect() };
                let svc = RequireAuthorizationLayer::new(AllowedPeers::new(olist)).layer(svc);
                run_threads(svc, threads, requests, fmt)
            }
            None => run_threads(svc, threads, requests, fmt),
        }
    } else {
        let auth = |request: &mut Request<Bytes>| -> Result<(), Response<Bytes>> {
            let v = request.headers().get("v").cloned().unwrap_or_default();
            if v == "ok" {
                request.headers_mut().insert("seen".into(), "1".into());
                Ok(())
            } else {
                let (st, payload) = v[1..].split_once(':').unwrap();
                Err(Response::new(Bytes::from(payload.to_string()))
                    .with_status(StatusCode::new(st.parse().unwrap()).unwrap()))
            }
        };
        let svc = RequireAuthorizationLayer::new(auth).layer(inner);
        run_threads(svc, threads, requests, fmt)
    };
    let mut inv = log.lock().unwrap().clone();
    inv.sort_by_key(|s| s.parse::<u64>().unwrap_or(0));
    format!("{} invoked={}", outs.join(" "), if inv.is_empty() { "-".into() } else { inv.join(",") })
}

/// Dispatches the requests round-robin over `threads` OS threads, each with its own clone of the
/// service and its own runtime; results are returned by request index.
fn run_threads<S>(
    svc: S,
    threads: usize,
    requests: Vec<Request<Bytes>>,
    fmt: impl Fn(Response<Bytes>) -> String + Send + Sync + Copy + 'static,
) -> Vec<String>
where
    S: Service<Request<Bytes>, Response = Response<Bytes>, Error = Infallible> + Clone + Send + 'static,
    S::Future: Send,
{
    let n = requests.len();
    let mut buckets: Vec<Vec<(usize, Request<Bytes>)>> = (0..threads.max(1)).map(|_| Vec::new()).collect();
    for (i, r) in requests.into_iter().enumerate() {
        let k = i % buckets.len();
        buckets[k].push((i, r));
    }
    let mut handles = Vec::new();
    for b in buckets {
        let mut svc = svc.clone();
        handles.push(std::thread::spawn(move || {
            let rt = rt();
            let mut out = Vec::new();
            for (i, r) in b {
                let resp = rt.block_on(async { svc.ready().await.unwrap().call(r).await.unwrap() });
                out.push((i, fmt(resp)));
            }
            out
        }));
    }
    let mut res = vec![String::new(); n];
    for h in handles {
        for (i, s) in h.join().unwrap() {
            res[i] = s;
        }
    }
    res
}

// ---------------------------------------------------------------- inflight

type Gate = oneshot::Sender<bool>;

#[derive(Default)]
struct Inner {
    entered: Vec<u64>,                 // requests that entered the inner service, in order
    gates: HashMap<u64, Gate>,         // entered and not yet finished
    in_service: HashMap<u64, u64>,     // request -> peer (gauge)
}

struct ExitGuard(Arc<Mutex<Inner>>, u64);
impl Drop for ExitGuard {
    fn drop(&mut self) {
        let mut g = self.0.lock().unwrap();
        g.in_service.remove(&self.1);
        g.gates.remove(&self.1);
    }
}

fn inflight_case(t: &[&str]) -> String {
    // inflight <block|err> <max> <tok>*   tok = a<p> | F<k> | X<k> | C<k>
    // <mode>[+same]: with "+same" every request goes through one and the same service value
    // (`ready().call()`), otherwise through a fresh clone of the value the layer produced
    let same = t[1].ends_with("+same");
    let mode = if t[1].starts_with("block") { inflight_limit::WaitMode::Block } else { inflight_limit::WaitMode::ReturnError };
    let max: usize = t[2].parse().unwrap();
    let state = Arc::new(Mutex::new(Inner::default()));
    let st2 = state.clone();
    let inner = tower::service_fn(move |req: Request<Bytes>| {
        let st = st2.clone();
        // entry is recorded in `call` itself (see the auth driver)
        let r: u64 = req.headers().get("r").unwrap().parse().unwrap();
        let p: u64 = req.headers().get("p").unwrap().parse().unwrap();
        let (tx, rx) = oneshot::channel();
        {
            let mut g = st.lock().unwrap();
            g.entered.push(r);
            g.gates.insert(r, tx);
            g.in_service.insert(r, p);
        }
        let _guard = ExitGuard(st.clone(), r);
        async move {
            let _guard = _guard;
            match rx.await {
                Ok(true) => Ok(Response::new(Bytes::new())),
                _ => Err(anemo::rpc::Status::new(StatusCode::BadRequest)),
            }
        }
    });
    let svc = InflightLimitLayer::new(max, mode).layer(inner);
    let rt = rt();
    let out = rt.block_on(async move {
        let mut out: Vec<String> = Vec::new();
        let mut next_r: u64 = 0;
        let mut shared = svc.clone();
        // live requests: r -> (peer, task handle)
        let mut live: Vec<(u64, u64, tokio::task::JoinHandle<Result<Response<Bytes>, anemo::rpc::Status>>)> = Vec::new();
        let mut seen_entered = 0usize;
        for tok in &t[3..] {
            let (kind, arg) = tok.split_at(1);
            let arg: u64 = arg.parse().unwrap();
            let mut concrete = String::new();
            let mut arrived: Option<u64> = None;
            let mut ev_peer: u64 = 0;
            match kind {
                "a" => {
                    let r = next_r;
                    next_r += 1;
                    let req = Request::new(Bytes::new())
                        .with_header("r", r.to_string())
                        .with_header("p", arg.to_string())
                        .with_extension(peer(arg));
                    let h = if same {
                        use tower::ServiceExt as _;
                        let fut = shared.ready().await.unwrap().call(req);
                        tokio::spawn(fut)
                    } else {
                        let s = svc.clone();
                        tokio::spawn(async move { s.oneshot(req).await })
                    };
                    live.push((r, arg, h));
                    concrete = format!("a{arg}.{r}");
                    arrived = Some(r);
                    ev_peer = arg;
                }
                "F" | "X" => {
                    // finish the k-th request currently inside the service
                    let mut ids: Vec<u64> = state.lock().unwrap().gates.keys().copied().collect();
                    ids.sort();
                    if !ids.is_empty() {
                        let r = ids[(arg as usize) % ids.len()];
                        let p = state.lock().unwrap().in_service[&r];
                        let gate = state.lock().unwrap().gates.remove(&r).unwrap();
                        let _ = gate.send(kind == "F");
                        concrete = format!("{}{p}.{r}", if kind == "F" { "f" } else { "e" });
                        ev_peer = p;
                    }
                }
                "C" => {
                    if !live.is_empty() {
                        let i = (arg as usize) % live.len();
                        let (r, p, h) = live.remove(i);
                        h.abort();
                        let _ = h.await;
                        concrete = format!("c{p}.{r}");
                        ev_peer = p;
                    }
                }
                _ => panic!("bad token"),
            }
            if concrete.is_empty() {
                continue;
            }
            // run to quiescence
            for _ in 0..50 {
                tokio::task::yield_now().await;
            }
            // observe
            let g = state.lock().unwrap();
            let newly: Vec<String> = g.entered[seen_entered..].iter().map(|x| x.to_string()).collect();
            seen_entered = g.entered.len();
            let gauge = g.in_service.values().filter(|p| **p == ev_peer).count();
            drop(g);
            let mut obs = if !newly.is_empty() {
                format!("E{}", newly.join(","))
            } else {
                String::new()
            };
            // collect finished tasks (responses / errors)
            let mut status = String::new();
            let mut i = 0;
            while i < live.len() {
                if live[i].2.is_finished() {
                    let (r, _p, h) = live.remove(i);
                    let res = h.await.unwrap();
                    let code = match res {
                        Ok(resp) => resp.status().to_u16(),
                        Err(st) => st.status().to_u16(),
                    };
                    if Some(r) == arrived && code == 429 {
                        status = "R".into();
                    } else if Some(r) == arrived {
                        status = format!("?{code}");
                    }
                } else {
                    i += 1;
                }
            }
            if obs.is_empty() {
                obs = if !status.is_empty() {
                    status
                } else if arrived.is_some() {
                    "Q".into()
                } else {
                    "N".into()
                };
            }
            out.push(format!("{concrete}:{obs};g{gauge}"));
        }
        out
    });
    out.join(" ")
}

/// inflightburst <block|err> <max> <k> <npeers>: the first k requests of each of npeers never-seen peers are handed to
/// the layer back to back - every `call()` is made before any of the returned futures is polled - then run.
/// Reports per peer how many are inside the wrapped service, how many were refused, how many wait.
fn inflightburst_case(t: &[&str]) -> String {
    use tower::Service as _;
    let mode = if t[1] == "block" { inflight_limit::WaitMode::Block } else { inflight_limit::WaitMode::ReturnError };
    let max: usize = t[2].parse().unwrap();
    let k: usize = t[3].parse().unwrap();
    let npeers: u64 = t[4].parse().unwrap();
    let inside: Arc<Mutex<HashMap<u64, usize>>> = Default::default();
    let inside2 = inside.clone();
    let inner = tower::service_fn(move |req: Request<Bytes>| {
        let p: u64 = req.headers().get("p").unwrap().parse().unwrap();
        *inside2.lock().unwrap().entry(p).or_insert(0) += 1;
        async move {
            std::future::pending::<()>().await;
            Ok::<_, anemo::rpc::Status>(Response::new(Bytes::new()))
        }
    });
    let svc = InflightLimitLayer::new(max, mode).layer(inner);
    let rt = rt();
    rt.block_on(async move {
        let mut futs = Vec::new();
        for p in 1..=npeers {
            for _ in 0..k {
                let req = Request::new(Bytes::new()).with_header("p", p.to_string()).with_extension(peer(p));
                let mut s = svc.clone();
                futs.push((p, s.call(req)));
            }
        }
        let handles: Vec<(u64, tokio::task::JoinHandle<_>)> = futs.into_iter().map(|(p, f)| (p, tokio::spawn(f))).collect();
        for _ in 0..200 {
            tokio::task::yield_now().await;
        }
        let mut out = Vec::new();
        for p in 1..=npeers {
            let entered = inside.lock().unwrap().get(&p).copied().unwrap_or(0);
            let mut refused = 0;
            let mut waiting = 0;
            for (q, h) in handles.iter() {
                if *q == p {
                    if h.is_finished() {
                        refused += 1;
                    } else {
                        waiting += 1;
                    }
                }
            }
            out.push(format!("p{p}:inside={entered},refused={refused},pending={}", waiting));
        }
        for (_, h) in handles {
            h.abort();
        }
        out.join(" ")
    })
}

// ---------------------------------------------------------------- rate limit

fn gcra_case(t: &[&str]) -> String {
    // gcra <t_ns> <burst> <k@time>*   -- governor's keyed limiter under its fake clock
    use governor::clock::{Clock, FakeRelativeClock};
    use governor::{Quota, RateLimiter};
    let t_ns: u64 = t[1].parse().unwrap();
    let burst: u32 = t[2].parse().unwrap();
    let quota = Quota::with_period(Duration::from_nanos(t_ns))
        .unwrap()
        .allow_burst(std::num::NonZeroU32::new(burst).unwrap());
    let clock = FakeRelativeClock::default();
    let lim: RateLimiter<u64, _, FakeRelativeClock, governor::middleware::NoOpMiddleware<governor::nanos::Nanos>> =
        RateLimiter::dashmap_with_clock(quota, &clock);
    let mut now: u64 = 0;
    let mut out = Vec::new();
    for ev in &t[3..] {
        let (k, at) = ev.split_once('@').unwrap();
        let k: u64 = k.parse().unwrap();
        let at: u64 = at.parse().unwrap();
        assert!(at >= now);
        clock.advance(Duration::from_nanos(at - now));
        now = at;
        match lim.check_key(&k) {
            Ok(()) => out.push("ok".to_string()),
            Err(e) => out.push(format!("no:{}", e.wait_time_from(clock.now()).as_nanos())),
        }
    }
    out.join(" ")
}

fn ratelayer_case(t: &[&str]) -> String {
    // ratelayer <block|err> <period_ms> <burst> <p@ms>*   -- the real layer, real clock
    // <mode>[+same]: with "+same" every request goes through one and the same service value (see the inflight driver)
    let same = t[1].ends_with("+same");
    let mode = if t[1].starts_with("block") { rate_limit::WaitMode::Block } else { rate_limit::WaitMode::ReturnError };
    let period = Duration::from_millis(t[2].parse().unwrap());
    let burst: u32 = t[3].parse().unwrap();
    let quota = governor::Quota::with_period(period)
        .unwrap()
        .allow_burst(std::num::NonZeroU32::new(burst).unwrap());
    let log: Arc<Mutex<Vec<(u64, u128)>>> = Arc::new(Mutex::new(Vec::new()));
    let log2 = log.clone();
    let start = std::time::Instant::now();
    let inner = tower::service_fn(move |req: Request<Bytes>| {
        // recorded in `call` itself (see the auth driver)
        let p: u64 = req.headers().get("p").unwrap().parse().unwrap();
        log2.lock().unwrap().push((p, start.elapsed().as_nanos()));
        async move { Ok::<_, anemo::rpc::Status>(Response::new(Bytes::new())) }
    });
    let svc = RateLimitLayer::new(quota, mode).layer(inner);
    let rt = tokio::runtime::Builder::new_multi_thread().worker_threads(2).enable_all().build().unwrap();
    // <p>@<ms>[@<k>]: with a third field the request carries the route "/r<k>" (the quota is per peer, whatever it asks for)
    // a fourth field t<ms>: the request carries a `timeout` header of that many milliseconds
    let evs: Vec<(u64, u64, Option<u64>, Option<u64>)> = t[4..]
        .iter()
        .map(|e| {
            let f: Vec<&str> = e.split('@').collect();
            (
                f[0].parse().unwrap(),
                f[1].parse().unwrap(),
                f.get(2).filter(|k| !k.is_empty() && **k != "-").map(|k| k.parse().unwrap()),
                f.get(3).map(|k| k.trim_start_matches('t').parse().unwrap()),
            )
        })
        .collect();
    let res = rt.block_on(async move {
        let mut handles = Vec::new();
        let mut evs = evs;
        if same {
            evs.sort_by_key(|e| e.1);
        }
        let mut shared = svc.clone();
        for (p, at, route, tmo) in evs {
            let s = svc.clone();
            // in "+same" mode the call is made here, in time order, on the one shared value; only its future is spawned
            let pre = if same {
                use tower::Service as _;
                tokio::time::sleep_until(tokio::time::Instant::from_std(start + Duration::from_millis(at))).await;
                let mut req = Request::new(Bytes::new())
                    .with_header("p", p.to_string())
                    .with_extension(peer(p));
                if let Some(k) = route {
                    req = req.with_route(format!("/r{k}"));
                }
                if let Some(ms) = tmo {
                    req = req.with_timeout(Duration::from_millis(ms));
                }
                let sent = start.elapsed().as_nanos();
                let fut = tower::ServiceExt::ready(&mut shared).await.unwrap().call(req);
                Some((sent, fut))
            } else {
                None
            };
            handles.push(tokio::spawn(async move {
                let (sent, r) = match pre {
                    Some((sent, fut)) => (sent, fut.await),
                    None => {
                        tokio::time::sleep_until(tokio::time::Instant::from_std(start + Duration::from_millis(at))).await;
                        let mut req = Request::new(Bytes::new())
                            .with_header("p", p.to_string())
                            .with_extension(peer(p));
                        if let Some(k) = route {
                            req = req.with_route(format!("/r{k}"));
                        }
                        if let Some(ms) = tmo {
                            req = req.with_timeout(Duration::from_millis(ms));
                        }
                        let sent = start.elapsed().as_nanos();
                        (sent, s.oneshot(req).await)
                    }
                };
                let done = start.elapsed().as_nanos();
                match r {
                    Ok(_) => format!("{p}:ok:{sent}:{done}"),
                    Err(st) => format!(
                        "{p}:{}:{sent}:{}",
                        st.status().to_u16(),
                        st.headers().get("wait-nanos").cloned().unwrap_or("none".into())
                    ),
                }
            }));
        }
        let mut out = Vec::new();
        for h in handles {
            out.push(h.await.unwrap());
        }
        out
    });
    let inv: Vec<String> = log.lock().unwrap().iter().map(|(p, at)| format!("{p}@{at}")).collect();
    format!("{} | {}", res.join(" "), inv.join(" "))
}

/// Hunts for a refusal whose wait-nanos hint is 0 (clock read after the decision).
fn ratezero_case(t: &[&str]) -> String {
    // ratezero <period_ns> <burst> <n>
    let period = Duration::from_nanos(t[1].parse().unwrap());
    let burst: u32 = t[2].parse().unwrap();
    let n: usize = t[3].parse().unwrap();
    let quota = governor::Quota::with_period(period)
        .unwrap()
        .allow_burst(std::num::NonZeroU32::new(burst).unwrap());
    let inner = tower::service_fn(move |_req: Request<Bytes>| async move {
        Ok::<_, anemo::rpc::Status>(Response::new(Bytes::new()))
    });
    let svc = RateLimitLayer::new(quota, rate_limit::WaitMode::ReturnError).layer(inner);
    let rt = rt();
    let (mut refused, mut zero) = (0u64, 0u64);
    rt.block_on(async {
        for _ in 0..n {
            let req = Request::new(Bytes::new()).with_extension(peer(1));
            if let Err(st) = svc.clone().oneshot(req).await {
                refused += 1;
                if st.headers().get("wait-nanos").map(|s| s.as_str()) == Some("0") {
                    zero += 1;
                }
            }
        }
    });
    format!("refused={refused} zero={zero}")
}

pub fn run() {
    for_each_case(|t| {
        catch(|| match t[0] {
            "authallow" | "authallow2" | "authfn" => auth_case(t),
            "inflight" => inflight_case(t),
            "inflightburst" => inflightburst_case(t),
            "gcra" => gcra_case(t),
            "ratelayer" => ratelayer_case(t),
            "ratezero" => ratezero_case(t),
            other => panic!("unknown layers case {other}"),
        })
    });
}
