use std::io::{BufRead, Write};
use std::sync::atomic::{AtomicU64, Ordering};

pub static PANICS: AtomicU64 = AtomicU64::new(0);
pub static LAST_PANIC: std::sync::Mutex<String> = std::sync::Mutex::new(String::new());

pub fn install_panic_hook() {
    std::panic::set_hook(Box::new(|info| {
        PANICS.fetch_add(1, Ordering::SeqCst);
        if let Ok(mut g) = LAST_PANIC.try_lock() {
            if g.is_empty() {
                *g = info.location().map(|l| format!("{}:{}", l.file(), l.line())).unwrap_or_default();
            }
        }
        if std::env::var_os("VERIF_SHOW_PANICS").is_some() {
            eprintln!("panic: {info}");
        }
    }));
}

pub fn unhex(s: &str) -> Vec<u8> {
    if s == "-" {
        Vec::new()
    } else {
        hex::decode(s).expect("bad hex in case file")
    }
}

pub fn tohex(b: &[u8]) -> String {
    if b.is_empty() {
        "-".to_string()
    } else {
        hex::encode(b)
    }
}

/// Wall-clock second at which the current case started (0 = between cases), for the watchdog.
static CASE_STARTED: AtomicU64 = AtomicU64::new(0);

fn now_s() -> u64 {
    std::time::SystemTime::now().duration_since(std::time::UNIX_EPOCH).map(|d| d.as_secs()).unwrap_or(1)
}

/// Reads case lines from stdin, writes one result line per case to stdout.  A watchdog thread
/// answers `HANG` for a case that runs longer than VERIF_CASE_WALL_S (default 150) seconds of real
/// time and ends the process (exit code 86); the caller re-runs the remaining cases.
pub fn for_each_case(mut f: impl FnMut(&[&str]) -> String) {
    let limit: u64 = std::env::var("VERIF_CASE_WALL_S").ok().and_then(|v| v.parse().ok()).unwrap_or(150);
    std::thread::spawn(move || loop {
        std::thread::sleep(std::time::Duration::from_millis(500));
        let st = CASE_STARTED.load(Ordering::SeqCst);
        if st != 0 && now_s().saturating_sub(st) > limit {
            let mut o = std::io::stdout().lock();
            let _ = writeln!(o, "HANG wall>{limit}s");
            let _ = o.flush();
            std::process::exit(86);
        }
    });
    let stdin = std::io::stdin();
    for line in stdin.lock().lines() {
        let line = line.unwrap();
        let line = line.trim();
        if line.is_empty() || line.starts_with('#') {
            continue;
        }
        let toks: Vec<&str> = line.split_ascii_whitespace().collect();
        CASE_STARTED.store(now_s().max(1), Ordering::SeqCst);
        let r = f(&toks);
        CASE_STARTED.store(0, Ordering::SeqCst);
        let mut o = std::io::stdout().lock();
        writeln!(o, "{r}").unwrap();
        o.flush().unwrap();
    }
}

pub fn catch<F: FnOnce() -> String>(f: F) -> String {
    match std::panic::catch_unwind(std::panic::AssertUnwindSafe(f)) {
        Ok(s) => s,
        Err(_) => "PANIC".to_string(),
    }
}
