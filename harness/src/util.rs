use std::io::{BufRead, Write};
use std::sync::atomic::{AtomicU64, Ordering};

pub static PANICS: AtomicU64 = AtomicU64::new(0);
pub static LAST_PANIC: std::sync::Mutex<String> = std::sync::Mutex::new(String::new());

pub fn install_panic_hook() {
    std::panic::set_hook(Box::new(|info| {
        PANICS.fetch_add(1, Ordering::SeqCst);
        if let Ok(mut g) = LAST_PANIC.try_lock() {
            if g.is_empty() {
                *g = info.location().map(|l| format!("{}:{}", l.file(), l.line())).unwrap_or_default();
            }
        }
        if std::env::var_os("VERIF_SHOW_PANICS").is_some() {
            eprintln!("panic: {info}");
        }
    }));
}

pub fn unhex(s: &str) -> Vec<u8> {
    if s == "-" {
        Vec::new()
    } else {
        hex::decode(s).expect("bad hex in case file")
    }
}

pub fn tohex(b: &[u8]) -> String {
    if b.is_empty() {
        "-".to_string()
    } else {
        hex::encode(b)
    }
}

/// Reads case lines from stdin, writes one result line per case to stdout.
pub fn for_each_case(mut f: impl FnMut(&[&str]) -> String) {
    let stdin = std::io::stdin();
    let stdout = std::io::stdout();
    let mut out = std::io::BufWriter::new(stdout.lock());
    for line in stdin.lock().lines() {
        let line = line.unwrap();
        let line = line.trim();
        if line.is_empty() || line.starts_with('#') {
            continue;
        }
        let toks: Vec<&str> = line.split_ascii_whitespace().collect();
        let r = f(&toks);
        writeln!(out, "{r}").unwrap();
    }
    out.flush().unwrap();
}

pub fn catch<F: FnOnce() -> String>(f: F) -> String {
    match std::panic::catch_unwind(std::panic::AssertUnwindSafe(f)) {
        Ok(s) => s,
        Err(_) => "PANIC".to_string(),
    }
}
