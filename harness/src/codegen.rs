//! Driver `codegen` (C17): (a) route literals of anemo-build's generated clients and servers for
//! arbitrary service definitions; (b) typed calls through clients and servers generated at build
//! time for a fixed multi-service definition, served through `Router::add_rpc_service`.
use crate::util::*;
use anemo::rpc::Status;
use anemo::types::response::StatusCode;
use anemo::{Request, Response, Router};
use bytes::Bytes;
use serde::{Deserialize, Serialize};
use std::sync::{Arc, Mutex};
use tower::ServiceExt;

pub mod alpha {
    include!(concat!(env!("OUT_DIR"), "/Alpha.rs"));
}
pub mod beta {
    include!(concat!(env!("OUT_DIR"), "/pkg.sub.Beta.rs"));
}

pub mod gamma {
    include!(concat!(env!("OUT_DIR"), "/Gamma.rs"));
}

/// A message without fields.
#[derive(Debug, Clone, Serialize, Deserialize, PartialEq)]
pub struct Empty {}

/// A message whose serialization can fail half-way (after its first field has been written).
#[derive(Debug, Clone, Deserialize, PartialEq)]
pub struct Poison {
    pub a: Vec<u8>,
    pub fail: bool,
}
impl Serialize for Poison {
    fn serialize<S: serde::Serializer>(&self, ser: S) -> Result<S::Ok, S::Error> {
        use serde::ser::SerializeStruct;
        let mut st = ser.serialize_struct("Poison", 2)?;
        st.serialize_field("a", &self.a)?;
        if self.fail {
            return Err(serde::ser::Error::custom("poisoned"));
        }
        st.serialize_field("fail", &self.fail)?;
        st.end()
    }
}

struct GammaImpl(Log);
#[anemo::async_trait]
impl gamma::gamma_server::Gamma for GammaImpl {
    async fn unit_bin(&self, _r: Request<()>) -> Result<Response<()>, Status> {
        self.0.lock().unwrap().push("Gamma.UnitBin".into());
        Ok(Response::new(()).with_header("done", "1"))
    }
    async fn unit_json(&self, _r: Request<()>) -> Result<Response<()>, Status> {
        self.0.lock().unwrap().push("Gamma.UnitJson".into());
        Ok(Response::new(()).with_header("done", "1"))
    }
    async fn empty_bin(&self, _r: Request<Empty>) -> Result<Response<Empty>, Status> {
        self.0.lock().unwrap().push("Gamma.EmptyBin".into());
        Ok(Response::new(Empty {}).with_header("done", "1"))
    }
    async fn empty_json(&self, _r: Request<Empty>) -> Result<Response<Empty>, Status> {
        self.0.lock().unwrap().push("Gamma.EmptyJson".into());
        Ok(Response::new(Empty {}).with_header("done", "1"))
    }
    async fn vec_bin(&self, r: Request<Vec<u8>>) -> Result<Response<Vec<u8>>, Status> {
        self.0.lock().unwrap().push("Gamma.VecBin".into());
        Ok(Response::new(r.into_body()).with_header("done", "1"))
    }
    async fn poison_bin(&self, r: Request<Poison>) -> Result<Response<Vec<u8>>, Status> {
        self.0.lock().unwrap().push("Gamma.PoisonBin".into());
        Ok(Response::new(r.into_body().a).with_header("done", "1"))
    }
    async fn poison_json(&self, r: Request<Poison>) -> Result<Response<Vec<u8>>, Status> {
        self.0.lock().unwrap().push("Gamma.PoisonJson".into());
        Ok(Response::new(r.into_body().a).with_header("done", "1"))
    }
    async fn vec_json(&self, r: Request<Vec<u8>>) -> Result<Response<Vec<u8>>, Status> {
        self.0.lock().unwrap().push("Gamma.VecJson".into());
        Ok(Response::new(r.into_body()).with_header("done", "1"))
    }
}

/// The one message type; the request tells the handler how to behave.
#[derive(Debug, Clone, Serialize, Deserialize, PartialEq)]
pub struct Msg {
    pub tag: u64,
    pub text: String,
    /// "ok" | "okst<code>" | "err<code>" ; optional ";m=<msg>" ; optional ";h=<k>=<v>" repeated
    pub behave: String,
}

type Log = Arc<Mutex<Vec<String>>>;

fn respond(log: &Log, who: &str, req: Request<Msg>) -> Result<Response<Msg>, Status> {
    let m = req.into_body();
    log.lock().unwrap().push(format!("{who}:{}", m.tag));
    let mut parts = m.behave.split(';');
    let head = parts.next().unwrap().to_string();
    let mut message = None;
    let mut headers = Vec::new();
    for p in parts {
        if let Some(v) = p.strip_prefix("m=") {
            message = Some(v.to_string());
        } else if let Some(kv) = p.strip_prefix("h=") {
            let (k, v) = kv.split_once('=').unwrap();
            headers.push((k.to_string(), v.to_string()));
        }
    }
    let reply = Msg { tag: m.tag, text: format!("{who}<{}>", m.text), behave: String::new() };
    if head == "ok" {
        let mut r = Response::new(reply);
        for (k, v) in headers {
            r.headers_mut().insert(k, v);
        }
        Ok(r)
    } else if let Some(c) = head.strip_prefix("okst") {
        let mut r = Response::new(reply).with_status(StatusCode::new(c.parse().unwrap()).unwrap());
        for (k, v) in headers {
            r.headers_mut().insert(k, v);
        }
        Ok(r)
    } else if let Some(c) = head.strip_prefix("err") {
        let code = StatusCode::new(c.parse().unwrap()).unwrap();
        let mut st = match message {
            Some(m) => Status::new_with_message(code, m),
            None => Status::new(code),
        };
        for (k, v) in headers {
            st = st.with_header(k, v);
        }
        Err(st)
    } else {
        panic!("bad behaviour {head}")
    }
}

struct AlphaImpl(Log);
#[anemo::async_trait]
impl alpha::alpha_server::Alpha for AlphaImpl {
    async fn echo(&self, r: Request<Msg>) -> Result<Response<Msg>, Status> {
        respond(&self.0, "Alpha.Echo", r)
    }
    async fn add(&self, r: Request<Msg>) -> Result<Response<Msg>, Status> {
        respond(&self.0, "Alpha.Add", r)
    }
    async fn raw(&self, r: Request<Msg>) -> Result<Response<Bytes>, Status> {
        respond(&self.0, "Alpha.Raw", r).map(|resp| resp.map(|m| Bytes::from(bincode::serialize(&m).unwrap())))
    }
    async fn echo_twice(&self, r: Request<Msg>) -> Result<Response<Msg>, Status> {
        respond(&self.0, "Alpha.EchoTwice", r)
    }
}
struct BetaImpl(Log);
#[anemo::async_trait]
impl beta::beta_server::Beta for BetaImpl {
    async fn echo(&self, r: Request<Msg>) -> Result<Response<Msg>, Status> {
        respond(&self.0, "Beta.Echo", r)
    }
    async fn other(&self, r: Request<Msg>) -> Result<Response<Msg>, Status> {
        respond(&self.0, "Beta.Other", r)
    }
}

fn fmt_headers(h: &anemo::types::HeaderMap) -> String {
    let mut v: Vec<_> = h.iter().map(|(k, v)| format!("{k}={}", tohex(v.as_bytes()))).collect();
    v.sort();
    if v.is_empty() { "-".into() } else { v.join(",") }
}

fn fmt_result(r: Result<Response<Msg>, Status>) -> String {
    match r {
        Ok(resp) => format!(
            "ok:{}:{}:{}:{}",
            resp.body().tag,
            tohex(resp.body().text.as_bytes()),
            resp.status().to_u16(),
            fmt_headers(resp.headers())
        ),
        Err(st) => {
            // Status has no public accessor for its message: observe it through into_response
            use anemo::types::response::IntoResponse;
            let code = st.status().to_u16();
            let resp = st.into_response();
            format!("err:{}:{}", code, fmt_headers(resp.headers()))
        }
    }
}

fn typed_case(t: &[&str]) -> String {
    // typed <call>*   call = <Svc>.<Method>:<tag>:<texthex>:<behave>   | raw:<routehex>:<bodyhex>
    let log: Log = Arc::new(Mutex::new(Vec::new()));
    let router = Router::new()
        .add_rpc_service(alpha::alpha_server::AlphaServer::new(AlphaImpl(log.clone())))
        .add_rpc_service(beta::beta_server::BetaServer::new(BetaImpl(log.clone())))
        .add_rpc_service(gamma::gamma_server::GammaServer::new(GammaImpl(log.clone())));
    let rt = tokio::runtime::Builder::new_current_thread().build().unwrap();
    let mut outs = Vec::new();
    for call in &t[1..] {
        let f: Vec<&str> = call.splitn(4, ':').collect();
        let out = rt.block_on(async {
            if f[0] == "raw" {
                let route = String::from_utf8(unhex(f[1])).unwrap();
                let req = Request::new(Bytes::from(unhex(f[2]))).with_route(route);
                let resp = router.clone().oneshot(req).await.unwrap();
                return format!("status:{}", resp.status().to_u16());
            }
            if f[0] == "big" {
                // big:<VecBin|VecJson>:<len>[:<seed byte>]: a message of <len> deterministic bytes, echoed by the handler
                let mut g = gamma::gamma_client::GammaClient::new(router.clone());
                let n: usize = f[2].parse().unwrap();
                let sd: u64 = f.get(3).and_then(|x| x.parse().ok()).unwrap_or(7);
                let v: Vec<u8> = (0..n as u64).map(|i| i.wrapping_mul(31).wrapping_add(sd).wrapping_add(i >> 9) as u8).collect();
                let r = match f[1] {
                    "VecBin" => g.vec_bin(v.clone()).await,
                    "VecJson" => g.vec_json(v.clone()).await,
                    other => panic!("unknown big method {other}"),
                };
                return match r {
                    Ok(resp) => format!(
                        "ok:{}:{}:{}",
                        if resp.body() == &v { "same".to_string() } else { format!("diff{}", resp.body().len()) },
                        resp.status().to_u16(),
                        fmt_headers(resp.headers())
                    )
                    .replace(' ', ""),
                    Err(st) => format!("err:{}", st.status().to_u16()),
                };
            }
            if f[0] == "tiny" {
                // tiny:<method>[:<hex of a Vec<u8> message>]: messages that encode to (almost) nothing
                let mut g = gamma::gamma_client::GammaClient::new(router.clone());
                fn show<T: std::fmt::Debug>(r: Result<Response<T>, Status>) -> String {
                    match r {
                        Ok(resp) => format!("ok:{:?}:{}:{}", resp.body(), resp.status().to_u16(), fmt_headers(resp.headers())).replace(' ', ""),
                        Err(st) => format!("err:{}", st.status().to_u16()),
                    }
                }
                let v = f.get(2).map(|h| unhex(h)).unwrap_or_default();
                return match f[1] {
                    "UnitBin" => show(g.unit_bin(()).await),
                    "UnitJson" => show(g.unit_json(()).await),
                    "EmptyBin" => show(g.empty_bin(Empty {}).await),
                    "EmptyJson" => show(g.empty_json(Empty {}).await),
                    "VecBin" => show(g.vec_bin(v).await),
                    "VecJson" => show(g.vec_json(v).await),
                    "PoisonBin" => show(g.poison_bin(Poison { a: v, fail: f.get(3) == Some(&"fail") }).await),
                    "PoisonJson" => show(g.poison_json(Poison { a: v, fail: f.get(3) == Some(&"fail") }).await),
                    other => panic!("unknown tiny method {other}"),
                };
            }
            let msg = Msg {
                tag: f[1].parse().unwrap(),
                text: String::from_utf8(unhex(f[2])).unwrap(),
                behave: f[3].to_string(),
            };
            let mut a = alpha::alpha_client::AlphaClient::new(router.clone());
            let mut b = beta::beta_client::BetaClient::new(router.clone());
            let r = match f[0] {
                "Alpha.Echo" => a.echo(msg).await,
                "Alpha.Add" => a.add(msg).await,
                "Alpha.Raw" => a.raw(msg).await,
                "Alpha.EchoTwice" => a.echo_twice(msg).await,
                "Beta.Echo" => b.echo(msg).await,
                "Beta.Other" => b.other(msg).await,
                other => panic!("unknown method {other}"),
            };
            fmt_result(r)
        });
        outs.push(out);
    }
    let l = log.lock().unwrap();
    format!("{} | {}", outs.join(" "), if l.is_empty() { "-".to_string() } else { l.join(" ") })
}

/// Collects string literals of a token stream: (all literals, the literal following the ident
/// SERVICE_NAME).
fn literals(ts: proc_macro2::TokenStream, out: &mut Vec<String>, name: &mut Option<String>, after_name: &mut bool) {
    for tt in ts {
        match tt {
            proc_macro2::TokenTree::Group(g) => literals(g.stream(), out, name, after_name),
            proc_macro2::TokenTree::Ident(i) => {
                if i == "SERVICE_NAME" {
                    *after_name = true;
                }
            }
            proc_macro2::TokenTree::Literal(l) => {
                if let Ok(s) = syn::parse_str::<syn::LitStr>(&l.to_string()) {
                    if *after_name && name.is_none() {
                        *name = Some(s.value());
                        *after_name = false;
                    }
                    out.push(s.value());
                }
            }
            _ => {}
        }
    }
}

fn gen_case(t: &[&str]) -> String {
    // gen <pkghex> <svchex> <name:routehex>*
    let pkg = String::from_utf8(unhex(t[1])).unwrap();
    let svc = String::from_utf8(unhex(t[2])).unwrap();
    let mut b = anemo_build::manual::Service::builder().name(&svc).package(&pkg);
    for (i, m) in t[3..].iter().enumerate() {
        let route = String::from_utf8(unhex(m)).unwrap();
        b = b.method(
            anemo_build::manual::Method::builder()
                .name(format!("m{i}"))
                .route_name(route)
                .request_type("crate::Q")
                .response_type("crate::R")
                .codec_path("anemo::rpc::codec::JsonCodec")
                .build(),
        );
    }
    let service = b.build();
    let mut cl = Vec::new();
    let (mut n1, mut f1) = (None, false);
    literals(anemo_build::client::generate(&service), &mut cl, &mut n1, &mut f1);
    let mut sv = Vec::new();
    let (mut n2, mut f2) = (None, false);
    literals(anemo_build::server::generate(&service), &mut sv, &mut n2, &mut f2);
    let pick = |v: &Vec<String>| -> String {
        let r: Vec<String> = v.iter().filter(|s| s.starts_with('/')).map(|s| tohex(s.as_bytes())).collect();
        if r.is_empty() { "-".into() } else { r.join(",") }
    };
    format!(
        "client={} server={} name={}",
        pick(&cl),
        pick(&sv),
        n2.map(|s| tohex(s.as_bytes())).unwrap_or("none".into())
    )
}

pub fn run() {
    for_each_case(|t| {
        catch(|| match t[0] {
            "typed" => typed_case(t),
            "gen" => gen_case(t),
            other => panic!("unknown codegen case {other}"),
        })
    });
}
