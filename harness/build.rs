// Generates typed clients/servers for the fixed multi-service definition used by the `codegen`
// driver (C17), with anemo-build from /repo's working tree.
fn method(name: &str, route: &str, codec: &str, raw: bool) -> anemo_build::manual::Method {
    anemo_build::manual::Method::builder()
        .name(name)
        .route_name(route)
        .request_type("crate::codegen::Msg")
        .response_type("crate::codegen::Msg")
        .codec_path(codec)
        .server_handler_return_raw_bytes(raw)
        .build()
}

fn main() {
    println!("cargo:rerun-if-changed=build.rs");
    println!("cargo:rerun-if-changed=/repo/crates/anemo-build/src");
    let json = "anemo::rpc::codec::JsonCodec";
    let bin = "anemo::rpc::codec::BincodeCodec";
    let alpha = anemo_build::manual::Service::builder()
        .name("Alpha")
        .package("")
        .method(method("echo", "Echo", json, false))
        .method(method("add", "Add", bin, false))
        .method(method("raw", "Raw", bin, true))
        .method(method("echo_twice", "EchoTwice", json, false))
        .build();
    let beta = anemo_build::manual::Service::builder()
        .name("Beta")
        .package("pkg.sub")
        .method(method("echo", "Echo", bin, false))
        .method(method("other", "Other", json, false))
        .build();
    // messages that encode to nothing (bincode) or next to nothing (json): unit, an empty struct, an empty vector
    let tiny = |name: &str, route: &str, codec: &str, q: &str, r: &str| {
        anemo_build::manual::Method::builder()
            .name(name)
            .route_name(route)
            .request_type(q)
            .response_type(r)
            .codec_path(codec)
            .build()
    };
    let gamma = anemo_build::manual::Service::builder()
        .name("Gamma")
        .package("")
        .method(tiny("unit_bin", "UnitBin", bin, "()", "()"))
        .method(tiny("unit_json", "UnitJson", json, "()", "()"))
        .method(tiny("empty_bin", "EmptyBin", bin, "crate::codegen::Empty", "crate::codegen::Empty"))
        .method(tiny("empty_json", "EmptyJson", json, "crate::codegen::Empty", "crate::codegen::Empty"))
        .method(tiny("vec_bin", "VecBin", bin, "Vec<u8>", "Vec<u8>"))
        .method(tiny("vec_json", "VecJson", json, "Vec<u8>", "Vec<u8>"))
        .method(tiny("poison_bin", "PoisonBin", bin, "crate::codegen::Poison", "Vec<u8>"))
        .method(tiny("poison_json", "PoisonJson", json, "crate::codegen::Poison", "Vec<u8>"))
        .build();
    anemo_build::manual::Builder::new().compile(&[alpha, beta, gamma]);
}
