#!/bin/sh
# Builds the framework from files on disk only (offline): Coq development (full .vo build),
# extracted OCaml model driver, Rust harness against /repo with the verification cfg.
set -e
cd "$(dirname "$0")"
export CARGO_NET_OFFLINE=true
mkdir -p .cache evidence replay
(cd coq && coq_makefile -f _CoqProject -o Makefile && timeout 3000 make -j16)
sh ml/build.sh
[ -f harness/Cargo.lock ] || cp /repo/Cargo.lock harness/Cargo.lock
(cd harness && RUSTFLAGS="--cfg bmwill_anemo_verif" CARGO_TARGET_DIR="$PWD/../.cache/target" cargo build --offline)
echo "setup ok"
