"""C04 — at most one connection per peer; events are an exact change log."""
import itertools, json, re
from common import *


def apply_events(listed, evs):
    """Model-independent replay of an event list over a set of listed peers; returns (set, error)."""
    for e in evs:
        if e.startswith("LAG"):
            return listed, "subscriber lagged: " + e
        p = e[1:].split(":")[0]
        if e[0] == "+":
            if p in listed:
                return listed, "NewPeer(%s) while already listed" % p
            listed = listed | {p}
        else:
            if p not in listed:
                return listed, "LostPeer(%s) while not listed" % p
            listed = listed - {p}
    return listed, None


def monitor_ap(chk, case, obs):
    """obs: list of per-op observation strings 'op=res;ev=..;cl=..;L=[..]' from the implementation."""
    listed = set()
    current = {}          # peer -> connection index currently registered
    conn_peer = {}
    added = []
    m0 = re.search(r"\| (.*)$", case)
    for o in obs:
        m = re.match(r"(.+?)=(.*?);ev=(.*?);cl=(.*?);L=\[(.*?)\](DUP)?$", o)
        if not m:
            chk.monitor_fail("unparsable observation " + o, dict(case=case))
            return
        op, res, ev, cl, L, dup = m.groups()
        if dup:
            chk.monitor_fail("duplicate peer in the connected-peer listing after %s" % op, dict(case=case, obs=o))
            return
        evs = [e for e in ev.split(",") if e]
        listed, err = apply_events(listed, evs)
        if err:
            chk.monitor_fail("event stream is not an alternating change log after %s: %s" % (op, err), dict(case=case, obs=o))
            return
        entries = [e.split(":") for e in L.split(",") if e]
        # the end of an older, replaced connection must not disturb its replacement
        if op.startswith("S"):
            k = op[1:].split(":")[0]
            holder = [p for p, c in current.items() if c == k]
            if not holder and (evs or dict(entries) != current):
                chk.monitor_fail("the end of connection %s, which is not the registered one, changed the listing (%s -> %s, events %s)" % (k, current, dict(entries), evs), dict(case=case, obs=o))
                return
        current = dict(entries)
        if set(p for p, _ in entries) != listed:
            chk.monitor_fail("snapshot + events (%s) differs from the listing (%s) after %s" % (sorted(listed), L, op), dict(case=case, obs=o))
            return
        closed = set(c for c in cl.split(",") if c)
        if op.startswith("A"):
            added.append(op[1:])
        # at most one live connection per identity: every connection handed to the set is either the one its peer
        # is listed through or has been closed by this side
        for c in added:
            if c not in closed and c not in [e[1] for e in entries]:
                chk.monitor_fail("connection %s is neither the registered connection of its peer nor closed after %s: a second live connection to one identity (listing %s, closed %s)" % (c, op, L, cl or "none"), dict(case=case, obs=o))
                return
        for p, c in entries:
            if c in closed:
                chk.monitor_fail("peer %s is listed through connection %s which this side has closed (after %s)" % (p, c, op), dict(case=case, obs=o))
                return
        if op.startswith("U") and res.startswith("snap"):
            snap = set(x for x in res[5:-1].split(",") if x)
            if snap != listed:
                chk.monitor_fail("subscription snapshot %s differs from the listing %s" % (sorted(snap), sorted(listed)), dict(case=case, obs=o))
                return


def gen_conns(rng, npeers):
    conns = []
    for p in range(npeers):
        for _ in range(rng.choice([1, 2, 2, 3])):
            conns.append("%d%s" % (p, rng.choice("oi")))
    rng.shuffle(conns)
    return conns


def run(chk):
    quick = chk.tier == "quick"
    chk.rule = ("(T1) operation sequences (add each real connection once, remove by peer, remove by connection, subscribe, list) over 2-3 peers with 1-3 real quinn "
                "connections each (both origins), applied to the real ActivePeers; after every operation result, drained events, locally closed connections and the listing "
                "(peer:connection) are compared with ActivePeers.v; thorough adds every sequence of length <= 4 over the alphabet of a fixed setup; "
                "(T2) 8 threads issue random operations, the H4 trace gives the linearisation which the model replays; (T3) whole networks on the fabric (dials, disconnects, restarts, partitions): every ActivePeers instance's recorded operations with the pre-state each saw replayed on the model, event log and final listing compared; (B) a peer closes its connection while one of its requests is inside a handler's blocking section (real time): it must be unlisted at once; (S) real-time stress: subscriptions taken while two threads change the set must each be an exact change log of their own snapshot; "
                "distinct = case text; non-trivial = at least one tie-break (second connection of a listed peer) occurred")
    if not chk.prepare():
        return
    cases = []
    n = 60 if quick else 600
    for i in range(n):
        rng = chk.rng
        npeers = rng.choice([2, 3, 3])
        conns = gen_conns(rng, npeers)
        unused = list(range(len(conns)))
        rng.shuffle(unused)
        ops = []
        for _ in range(rng.randrange(3, 15)):
            r = rng.random()
            if r < 0.45 and unused:
                ops.append("A%d" % unused.pop())
            elif r < 0.6:
                ops.append("R%d:%d" % (rng.randrange(npeers), rng.randrange(8)))
            elif r < 0.85:
                ops.append("S%d:%d" % (rng.randrange(len(conns)), rng.randrange(8)))
            elif r < 0.93:
                ops.append("U")
            else:
                ops.append("P")
        cases.append("ap %d %s | %s" % (npeers, ",".join(conns), " ".join(ops)))
    if not quick:
        # exhaustive: all sequences of length <= 4 over a fixed setup (2 peers, 4 connections)
        alpha = ["A0", "A1", "A2", "A3", "R0:0", "S0:6", "S1:3", "S2:6", "U"]
        for L in range(1, 5):
            for seq in itertools.product(alpha, repeat=L):
                if len(set(x for x in seq if x[0] == "A")) == len([x for x in seq if x[0] == "A"]):
                    cases.append("ap 2 0o,0i,1o,0o | " + " ".join(seq))
        chk.extra["exhaustive_parts"] = ["all operation sequences of length <= 4 over {A0..A3,R0,S0,S1,S2,U} on a 2-peer / 4-connection setup"]
    ci = run_impl("activepeers", cases)
    mcases = []
    for c, a in zip(cases, ci):
        f = a.split()
        if a.startswith(("PANIC", "CRASH", "TIMEOUT", "HANG")) or len(f) < 2:
            mcases.append("version 1")
            continue
        ranks = f[0].split("=")[1]
        conns = f[1].split("=")[1]
        mcases.append("apm %s %s | %s" % (ranks, conns, c.split("|")[1].strip()))
    cm = run_model(mcases)
    for c, a, b in zip(cases, ci, cm):
        chk.evaluations += 1
        chk.count("ap")
        if a.startswith(("PANIC", "CRASH", "TIMEOUT", "HANG")):
            chk.monitor_fail("ActivePeers panicked / hung", dict(case=c, impl=a[:200]))
            continue
        obs = a.split()[2:]
        monitor_ap(chk, c, obs)
        if any("=D;" in o or ("=K;" in o and "-" in o.split(";")[1]) for o in obs):
            chk.nontriv(c)
        if " ".join(obs) != b:
            chk.disagree(c, " ".join(obs)[:800], b[:800], "activepeers/ap")
    chk.sample(dict(case=cases[0], impl=ci[0][:400], model=cm[0][:400]))

    # (T2) multi-thread stress, linearised by the H4 trace
    st = ["apstress 3 0o,0i,1o,1i,2o,0i,2i,1o 8 %d %d" % (150 if quick else 1500, chk.rng.randrange(1 << 30)) for _ in range(4 if quick else 20)]
    si = run_impl("activepeers", st, shards=4)
    mc2 = []
    for c, a in zip(st, si):
        if a.startswith(("PANIC", "CRASH", "TIMEOUT", "HANG")) or "|" not in a:
            mc2.append("version 1")
            continue
        head, ops = a.split(" | ")
        f = head.split()
        mc2.append("apm %s %s | %s" % (f[0].split("=")[1], f[1].split("=")[1], ops))
    sm = run_model(mc2)
    for c, a, b in zip(st, si, sm):
        chk.evaluations += 1
        chk.count("apstress")
        if a.startswith(("PANIC", "CRASH", "TIMEOUT", "HANG")) or "|" not in a:
            chk.monitor_fail("ActivePeers panicked / hung under concurrent use", dict(case=c, impl=a[:200]))
            continue
        head, ops = a.split(" | ")
        f = head.split()
        if f[2] != "dups=0":
            chk.monitor_fail("a concurrent peers() call returned a duplicate (%s)" % f[2], dict(case=c))
        m = re.match(r"final=L=\[(.*?)\](DUP)?;cl=(.*?);ev=(.*)$", f[3])
        L, dup, cl, ev = m.groups()
        evs = [e for e in ev.split(",") if e]
        listed, err = apply_events(set(), evs)
        if err:
            chk.monitor_fail("concurrent event stream is not an alternating change log: " + err, dict(case=c))
        elif listed != set(e.split(":")[0] for e in L.split(",") if e):
            chk.monitor_fail("events replayed (%s) differ from the final listing (%s)" % (sorted(listed), L), dict(case=c))
        chk.count("linearised ops", len(ops.split()))
        chk.nontriv(c)
        # the model replays the linearisation: final listing, closed set and the complete event order must agree
        mobs = b.split()
        m_ev = ",".join(x for o in mobs for x in [re.search(r";ev=(.*?);cl=", o).group(1)] if x)
        m_last = mobs[-1] if mobs else ""
        mm = re.search(r";cl=(.*?);L=\[(.*?)\]$", m_last)
        if not mm or mm.group(2) != L or m_ev != ev:
            chk.disagree(c, ("L=[%s] ev=%s" % (L, ev))[:600], ("L=[%s] ev=%s" % (mm.group(2) if mm else "?", m_ev))[:600], "activepeers/stress-trace-replay")
    if si:
        chk.sample(dict(case=st[0], impl=si[0][:300]))
    # subscriptions taken while the set is changing (two mutator threads, four subscriber threads, real time):
    # each one must be an exact change log relative to its own snapshot
    sub = ["subrace %d %d" % (1200 if quick else 10000, chk.rng.randrange(1 << 30))]
    for c, a in zip(sub, run_impl("activepeers", sub, shards=1, timeout=600)):
        chk.evaluations += 1
        chk.nontriv(c)
        f = dict(x.split("=", 1) for x in a.split() if "=" in x)
        chk.count("concurrent-subscriptions", int(f.get("subscriptions", 0)))
        chk.count("changes-during-subscriptions", int(f.get("changes", 0)))
        if "bad" not in f:
            chk.monitor_fail("subscription stress crashed: " + a[:200], dict(case=c, impl=a))
        elif f["bad"] != "0":
            chk.monitor_fail("%s of %s subscriptions taken while the set was changing are not an exact change log of their own snapshot (first: %s)" % (f["bad"], f["subscriptions"], f["first"].replace("_", " ")), dict(case=c, impl=a))
    # a connection closed by the remote while one of its requests is inside a handler's blocking section (real time, multi-thread
    # runtime): the local side has seen it closed and must not list the peer, whatever that handler is doing
    bc = ["teardown busy-close %d %d" % (6 if quick else 40, chk.rng.randrange(1 << 30))]
    for c, a in zip(bc, run_impl("teardown", bc, shards=1, timeout=600)):
        chk.evaluations += 1
        chk.nontriv(c)
        f = dict(x.split("=") for x in a.split() if "=" in x)
        chk.count("closes-with-a-request-mid-poll", int(f.get("busy_shutdowns", 0)))
        if "clones_left" not in f:
            chk.monitor_fail("busy-close driver crashed: " + a[:200], dict(case=c, impl=a))
        elif int(f["clones_left"]) > 0:
            chk.monitor_fail("in %s of %s runs a peer was still listed 300 ms after it had closed its connection, while one of its requests was inside a handler's blocking section" % (f["clones_left"], f["busy_shutdowns"]), dict(case=c, impl=a))
    # real histories: whole networks on the fabric (dials, disconnects, restarts, partitions); every ActivePeers
    # instance's recorded operations, each with the pre-state it saw, are replayed on ActivePeers.v and the
    # subscriber's events and final listing compared with the model's
    import simnet
    simnet.run_netscripts(chk, 12 if quick else 150, [3, 4], lambda r: r.randrange(4, 10), dict(fault=0.25, restart=0.1, known=0.05, pin=0.05), "fabric:histories", focus="aphist")
    chk.assumptions += ["quinn stable ids are unique among live connections (hypothesis NoDup (ids_added ops) of C04_never_lists_closed)",
                        "the single RwLock makes every method atomic (the H4 trace is taken under the lock)",
                        "the k-th ActivePeers instance to appear in a fabric trace belongs to the k-th node start of the scenario (every start subscribes at once)"]
    if not quick:
        ok, out = coqchk(chk.prop)
        chk.extra["coqchk"] = "ok" if ok else out[-500:]
        if not ok:
            chk.broken.append("coqchk failed or reported axioms")


def replay(chk, path):
    r = json.load(open(path))
    cases = [x["case"]["case"] for x in r.get("failing_inputs", [])] + [x["case"] for x in r.get("correspondence_disagreements", [])]
    if not chk.prepare():
        return
    for c, a in zip(cases, run_impl("activepeers", cases)):
        log("case: %s\nimpl: %s" % (c, a[:1000]))
