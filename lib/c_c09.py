"""C09 — connection views are eventually mutual; disconnects propagate."""
import json
from common import *
import simnet


def run(chk):
    quick = chk.tier == "quick"
    chk.rule = ("sequential scripts over 3-4 whole networks on the fabric (keep-alive 1 s, idle timeout 10 s; in 30% of the scripts the idle timeout is left unset in the supplied QuicConfig, so the transport default of 30 s is in force, keep-alive 5 s, quiet periods 36 s): dials, disconnects, restarts with the same key and address, "
                "connections ended by their dialer the moment the dial returns, long-polling calls that stay in a remote handler for the rest of the script (so later closes, restarts and losses find work in flight), partitions with operations under the cut, healing, quiet periods of 13 s (36 s); dial results at every dial, listings and pairwise RPC reachability at every quiet "
                "period and the per-node event streams are compared with NetModel.v / checked by model-independent monitors; distinct = scenario; non-trivial = all")
    if not chk.prepare():
        return
    w = dict(fault=0.25, restart=0.08, known=0.05, pin=0.05, default_idle=0.3, inflight=0.12, quickclose=0.1)
    # in every run: a connection with a long-polling call in flight (either direction) ended in each possible way
    n3 = {1: (10, None, None), 2: (10, None, None), 3: (10, None, None)}
    fixed = []
    for wdir in ((1, 2), (2, 1)):
        for closer in ([("X", 1, 2)], [("X", 2, 1)], [("R", 1)], [("R", 2)], [("P", 1, 2), ("Q",), ("H", 1, 2)], [("D", 2, 1)]):
            fixed.append((n3, [("D", 1, 2), ("W",) + wdir] + closer + [("Q",), ("D", 3, 1), ("Q",)]))
    # ... a peer dialed again while connected (same direction, or dialed back), then used and ended from either side
    for second in (("D", 1, 2), ("D", 2, 1), ("D", 1, 2, 2)):
        for closer in ([("X", 1, 2)], [("X", 2, 1)], [("R", 2)]):
            fixed.append((n3, [("D", 1, 2), second, ("Q",)] + closer + [("Q",)]))
    # ... and a connection ended by its dialer the moment the dial returns
    for closer in ([("X", 1, 2)], [("R", 1)]):
        fixed.append((n3, [("D", 1, 2, 2, "now")] + closer + [("Q",), ("D", 2, 1), ("Q",)]))
    simnet.run_netscripts(chk, 24 if quick else 300, [3, 4], lambda r: r.randrange(4, 10), w, "fabric:faults", fixed=fixed)
    simnet.c09_handler_panic(chk)
    simnet.c09_asymmetric_idle(chk)
    chk.assumptions += ["quinn's idle timeout, keep-alive and close propagation (transport hypothesis of NetModel.Quiesce / Disconnect)",
                        "operations do not overlap (each is followed by a settle time); overlapping dials are C05's subject"]
    if not quick:
        ok, out = coqchk(chk.prop)
        chk.extra["coqchk"] = "ok" if ok else out[-500:]
        if not ok:
            chk.broken.append("coqchk failed or reported axioms")


def replay(chk, path):
    r = json.load(open(path))
    cases = [x["case"].get("case") if isinstance(x["case"], dict) else x["case"] for x in r.get("failing_inputs", [])] + [x["case"] for x in r.get("correspondence_disagreements", [])]
    if not chk.prepare():
        return
    for c in cases:
        if c and c.startswith("simnet"):
            log("case: %s\nimpl: %s" % (c[:1500], run_impl("simnet", [c])[0][:3000]))
        elif c:
            log("model: %s\n -> %s" % (c[:1500], run_model([c])[0][:2000]))
