"""C06 — a connected hostile peer cannot crash or stall the network."""
import json
from common import *
import simnet


def run(chk):
    quick = chk.tier == "quick"
    chk.rule = ("an adversary endpoint with a valid identity connected to an honest network that also serves an honest peer: random / truncated-at-random-offset / "
                "single-byte-mutated / huge-length-prefix requests on bidirectional streams followed by finish, reset, stop, abandon or nothing; unidirectional streams, "
                "(finished, reset or left open), datagrams, abrupt close; well-formed requests with hostile header values incl. a systematic sweep of multi-byte characters straddling 13 byte offsets; the victim also calls the hostile peer, which answers with scripted bytes (valid with hostile header values incl. the same sweep, truncated, mutated, unknown status, absurd lengths, nothing; finished, reset or left open); honest RPCs interleaved; (T) the victim's manager / handler events are replayed on Shutdown.v (ShutdownTrace.trun), which must accept them and still be in its loop with the same peers; the decoders alone on every strict prefix and mutation are C07's runs; distinct = scenario; non-trivial = all")
    if not chk.prepare():
        return
    simnet.c06(chk)
    chk.assumptions += ["panic-freedom of the Rust decoder, matchit and the middleware is exercised (process-wide panic hook, catch_unwind), not proved: a Gallina function cannot panic",
                        "a panic inside a user handler is deliberately propagated by the code and is outside the property"]
    if not quick:
        ok, out = coqchk(chk.prop)
        chk.extra["coqchk"] = "ok" if ok else out[-500:]
        if not ok:
            chk.broken.append("coqchk failed or reported axioms")


replay = __import__("c_c09").replay
