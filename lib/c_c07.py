"""C07 — wire format: layout, round trip, total decoder."""
import os, json
from common import *
import gen

PRE = "616e656d6f000100"
STATUSES = [200, 400, 404, 408, 429, 500, 505, 520]


def canon_msg(kind, first, body, hdrs):
    """The OK line both drivers print for a decoded message."""
    items = sorted((k.encode(), v.encode()) for k, v in hdrs)
    s = "OK 1 %s %s %d" % (first, hx(body), len(items))
    for k, v in items:
        s += " %s %s" % (hx(k), hx(v))
    return s + " ext=0"


def gen_messages(chk, n):
    msgs = []
    for i in range(n):
        rng = chk.rng
        h = gen.headers(rng)
        b = gen.body(rng)
        BIG = [4095, 4096, 16383, 16384, 16385, 20000, 65535, 65536, 100000, 1 << 20]
        if i < len(BIG) or rng.random() < 0.02:
            # one large header value (a long status message, a token): everything up to the frame limit round-trips
            h = [kv for kv in h if kv[0] != "big"] + [("big", "v" * (BIG[i] if i < len(BIG) else rng.choice(BIG)))]
        if rng.random() < 0.5:
            route = gen.utf8_string(rng, 60)
            if i % 7 == 3 or rng.random() < 0.01:
                route = "/" + "r" * rng.choice([4096, 16384, 65536, 200000])
            case = "encreq none %s %s %s" % (hx(route.encode()), hx(b), gen.headers_tokens(h))
            msgs.append(("req", case, canon_msg("req", hx(route.encode()), b, h), len(h), len(b)))
        else:
            st = rng.choice(STATUSES)
            case = "encresp none %d %s %s" % (st, hx(b), gen.headers_tokens(h))
            msgs.append(("resp", case, canon_msg("resp", str(st), b, h), len(h), len(b)))
    return msgs


def frame(b):
    return gen.be32(len(b)) + b


def handmade_decode_inputs(rng):
    """Malformed and edge-case byte strings for the decoders (kind, bytes)."""
    pre = bytes.fromhex(PRE)
    out = []
    def req_hdr(route, pairs, count=None):
        h = gen.le64(len(route)) + route + gen.le64(len(pairs) if count is None else count)
        for k, v in pairs:
            h += gen.le64(len(k)) + k + gen.le64(len(v)) + v
        return h
    ok_h = req_hdr(b"/x", [(b"k", b"v")])
    for kind, mk in (("req", lambda c, h: h), ("resp", lambda c, h: c + h[10:] if False else c + h)):
        pass
    # invalid UTF-8 in route / key / value
    for bad in gen.INVALID_UTF8:
        m = "invalid UTF-8 accepted into a String"
        out.append(("req", pre + frame(req_hdr(bad, [])) + frame(b""), m))
        out.append(("req", pre + frame(req_hdr(b"/", [(bad, b"v")])) + frame(b""), m))
        out.append(("req", pre + frame(req_hdr(b"/", [(b"k", bad)])) + frame(b""), m))
        out.append(("resp", pre + frame(b"\xc8\x00" + gen.le64(1) + gen.le64(len(bad)) + bad + gen.le64(0)) + frame(b""), m))
    # map counts that lie; huge counts and lengths
    for cnt in (0, 1, 2, 3, 2**16, 2**32, 2**63, 2**64 - 1):
        out.append(("req", pre + frame(req_hdr(b"/", [(b"a", b"b"), (b"c", b"d")], count=cnt)) + frame(b"zz")))
    for ln in (2**32, 2**63, 2**64 - 1, 5, 3):
        out.append(("req", pre + frame(gen.le64(ln) + b"/abc" + gen.le64(0)) + frame(b"")))
    # duplicate keys (later wins), trailing bytes in the header frame
    out.append(("req", pre + frame(req_hdr(b"/", [(b"k", b"1"), (b"k", b"2"), (b"j", b"3"), (b"k", b"4")])) + frame(b"b")))
    out.append(("req", pre + frame(req_hdr(b"/", [(b"k", b"1")]) + b"trailing") + frame(b"b")))
    out.append(("resp", pre + frame(b"\x94\x01" + gen.le64(0) + b"\x00\x01") + frame(b"b")))
    # frame length prefixes: 0, default max, max+1, u32::MAX
    for n in (0, 8388608, 8388609, 2**32 - 1, 2**31):
        out.append(("req", pre + gen.be32(n) + ok_h))
        out.append(("req", pre + frame(ok_h) + gen.be32(n)))
        out.append(("resp", pre + gen.be32(n) + b"\xc8\x00" + gen.le64(0)))
    # preambles
    for p in (b"anemo\x00\x01\x01", b"anemo\x00\x02\x00", b"anemo\x01\x00\x00", b"anemo\x00\x00\x00", b"Anemo\x00\x01\x00",
              b"http3\x00\x01\x00", b"anemo\xff\xff\x00", b"anem", b"", b"anemo\x00\x01", b"\x00" * 8, b"anemo\x01\x01\x00",
              b"anemo\x00\x01\xff", b"anemp\x00\x01\x00", b"bnemo\x00\x01\x00", b"anemo\x00\x81\x00", b"anemo\x80\x01\x00"):
        out.append(("req", p + frame(ok_h) + frame(b""), "bad preamble or unknown version accepted"))
        out.append(("resp", p + frame(b"\xc8\x00" + gen.le64(0)) + frame(b""), "bad preamble or unknown version accepted"))
    # unknown status codes in an otherwise valid response
    for code in (0, 1, 199, 201, 299, 300, 401, 499, 501, 519, 521, 65535, 200, 520):
        out.append(("resp", pre + frame(bytes([code & 255, code >> 8]) + gen.le64(0)) + frame(b"xyz"),
                    None if code in STATUSES else "unknown status code accepted"))
    # messages followed by extra bytes
    out.append(("req", pre + frame(ok_h) + frame(b"body") + b"extra"))
    # short response header frames
    for h in (b"", b"\xc8", b"\xc8\x00", b"\xc8\x00\x00\x00\x00"):
        out.append(("resp", pre + frame(h) + frame(b"")))
    return out


def run(chk):
    quick = chk.tier == "quick"
    chk.rule = ("generated well-formed requests/responses (UTF-8 routes incl. multi-byte, 0-40 headers, bodies 0-64KiB) "
                "encoded by the implementation and decoded by implementation and model; every strict prefix and every "
                "single-byte mutation of a subset; hand-made malformed inputs; exhaustive u16 sweeps of Version::new and "
                "StatusCode::new; a case is non-trivial/distinct by its (driver line) text, trivial cases = the u16 sweep "
                "values that are rejected")
    if not chk.prepare():
        return
    # ---- A. golden corpus: frozen byte layout (detects symmetric encoder+decoder changes)
    gold = []
    gpath = os.path.join(VERIF, "corpus", "C07", "golden.txt")
    for line in open(gpath):
        line = line.rstrip("\n")
        if line and not line.startswith("#"):
            c, e = line.split("\t")
            gold.append((c, e))
    gi = run_impl("codec", [c for c, _ in gold])
    gm = run_model([c for c, _ in gold])
    for (c, e), a, b in zip(gold, gi, gm):
        chk.evaluations += 1
        chk.nontriv(c)
        if a != e:
            chk.monitor_fail("golden vector: implementation output differs from the frozen wire layout (expected %s)" % e[:120], dict(case=c, impl=a))
        if b != e:
            chk.disagree(c, a, b, "codec/golden-model")
    chk.count("golden", len(gold))

    # ---- B. encode direction
    nmsg = 500 if quick else 6000
    msgs = gen_messages(chk, nmsg)
    enc_cases = [m[1] for m in msgs]
    enc_impl = run_impl("codec", enc_cases)
    dec_cases, reenc_cases, expect, encoded = [], [], [], []
    for m, out in zip(msgs, enc_impl):
        kind, case, canon, nh, nb = m
        chk.evaluations += 1
        chk.nontriv(case)
        chk.count("encode:%s" % kind)
        chk.count("headers:%s" % ("0" if nh == 0 else "1" if nh == 1 else "2-5" if nh <= 5 else "6+"))
        chk.count("body:%s" % ("0" if nb == 0 else "<200" if nb < 200 else "<5000" if nb < 5000 else ">=5000"))
        if not out.startswith("OK "):
            chk.monitor_fail("encoder refused or panicked on a well-formed message", dict(case=case, impl=out))
            continue
        bs = out[3:]
        if not bs.startswith(PRE):
            chk.monitor_fail("encoded message does not start with the preamble 'anemo' 0x0001 0x00", dict(case=case, impl=out[:80]))
        d = "dec%s none %d %s" % (kind, chk.rng.choice([0, 0, 1, 3, 7, 64]), bs)
        dec_cases.append(d)
        reenc_cases.append("reenc%s none %s" % (kind, bs))
        expect.append(canon)
        encoded.append((kind, bs))
        if nh <= 1:
            reenc_cases.append(case)        # model encodes the same bytes directly
    chk.sample(dict(case=enc_cases[0][:200], impl=enc_impl[0][:200]))
    di = run_impl("codec", dec_cases)
    dm = run_model(dec_cases)
    for c, e, a, b in zip(dec_cases, expect, di, dm):
        chk.evaluations += 1
        if a != e:
            chk.monitor_fail("round trip: decode(encode(m)) differs from m on the implementation", dict(case=c[:400], impl=a[:400], expected=e[:400]))
        if b != e:
            chk.disagree(c[:400], a[:400], b[:400], "codec/decode-of-impl-bytes")
    rm = run_model(reenc_cases)
    k = 0
    for c, b in zip(reenc_cases, rm):
        chk.evaluations += 1
        if c.startswith("reenc"):
            want = "OK " + c.split()[2]
        else:
            want = enc_impl[enc_cases.index(c)] if False else None
        if want is None:
            # direct model encoding of a message with <= 1 header
            want = dict(zip(enc_cases, enc_impl))[c]
        if b != want:
            chk.disagree(c[:400], want[:400], b[:400], "codec/model-encoding-vs-impl-bytes")

    # ---- C. decode direction
    cases, tags = [], []
    npre = 30 if quick else 400
    small = [e for e in encoded if len(e[1]) <= 600][:npre]
    for kind, bs in small:
        raw = bytes.fromhex(bs)
        for n in range(len(raw)):
            cases.append("dec%s none %d %s" % (kind, chk.rng.choice([0, 0, 1, 5]), hx(raw[:n])))
            tags.append("prefix")
    nmut = 12 if quick else 150
    for kind, bs in small[:nmut]:
        raw = bytearray(bytes.fromhex(bs))
        for off in range(len(raw)):
            old = raw[off]
            raw[off] = chk.rng.choice([old ^ 1, old ^ 0x80, (old + 1) & 255, 0, 255, chk.rng.randrange(256)])
            cases.append("dec%s none 0 %s" % (kind, hx(bytes(raw))))
            tags.append("mutation")
            raw[off] = old
    for item in handmade_decode_inputs(chk.rng):
        kind, raw = item[0], item[1]
        for lim in ("none", "64"):
            cases.append("dec%s %s %d %s" % (kind, lim, chk.rng.choice([0, 1, 2]), hx(raw)))
            tags.append("handmade" if len(item) < 3 or item[2] is None else "must-err:" + item[2])
    nrand = 300 if quick else 5000
    for i in range(nrand):
        n = chk.rng.choice([0, 1, 7, 8, 9, 12, 20, 40, 100])
        raw = chk.rng.randbytes(n)
        if chk.rng.random() < 0.7:
            raw = bytes.fromhex(PRE) + raw
        cases.append("dec%s none 0 %s" % (chk.rng.choice(["req", "resp"]), hx(raw)))
        tags.append("random")
    # wrong-kind decoding: a request decoded as a response and vice versa
    for kind, bs in small[:40]:
        cases.append("dec%s none 0 %s" % ("resp" if kind == "req" else "req", bs))
        tags.append("cross")
    ci = run_impl("codec", cases)
    cm = run_model(cases)
    for c, t, a, b in zip(cases, tags, ci, cm):
        chk.evaluations += 1
        chk.nontriv(c)
        chk.count("decode:" + t.split(":")[0])
        chk.count("decode-outcome:" + a.split(" ext")[0][:12].split()[0] + (":" + a.split()[1] if a.startswith("ERR") and len(a.split()) > 1 else ""))
        if a.startswith(("PANIC", "CRASH", "TIMEOUT", "HANG")):
            chk.monitor_fail("decoder panicked / crashed on input bytes", dict(case=c[:400], impl=a))
        elif t == "prefix" and not a.startswith("ERR"):
            chk.monitor_fail("a strict prefix of a valid message was accepted", dict(case=c[:400], impl=a[:200]))
        elif t.startswith("must-err:") and not a.startswith("ERR"):
            chk.monitor_fail(t[9:], dict(case=c[:400], impl=a[:200]))
        if a != b:
            chk.disagree(c[:400], a[:300], b[:300], "codec/decode")
    chk.sample(dict(case=cases[len(cases) // 2][:200], impl=ci[len(cases) // 2][:120], model=cm[len(cases) // 2][:120]))

    # ---- D. exhaustive sweeps (finite domains: complete tie for these functions)
    sweep = ["version %d" % v for v in range(65536)] + ["status %d" % v for v in range(65536)]
    si = run_impl("codec", sweep)
    sm = run_model(sweep)
    acc_v = [c for c, a in zip(sweep, si) if c.startswith("version") and a.startswith("OK")]
    acc_s = [c for c, a in zip(sweep, si) if c.startswith("status") and a.startswith("OK")]
    chk.evaluations += len(sweep)
    for c in acc_v + acc_s:
        chk.nontriv(c)
    if acc_v != ["version 1"]:
        chk.monitor_fail("Version::new accepts a version other than 1 (or rejects 1)", dict(accepted=acc_v[:10]))
    if acc_s != ["status %d" % s for s in STATUSES]:
        chk.monitor_fail("StatusCode::new accepts an unknown status code (or rejects a known one)", dict(accepted=acc_s[:20]))
    for c, a, b in zip(sweep, si, sm):
        if a != b:
            chk.disagree(c, a, b, "codec/sweep")
    chk.count("sweep:u16", len(sweep))
    chk.extra["exhaustive_parts"] = ["Version::new over all u16", "StatusCode::new (+to_u16, is_success) over all u16"]
    pv = ["encver 1", "decver " + PRE]
    for c, a, b in zip(pv, run_impl("codec", pv), run_model(pv)):
        chk.evaluations += 1
        if a != b:
            chk.disagree(c, a, b, "codec/preamble")
    chk.assumptions += [
        "panic-freedom of the Rust decoder is exercised (catch_unwind on every case), not proved",
        "bincode 1.3.3 / tokio-util LengthDelimitedCodec / serde HashMap behaviour is modelled (Bincode.v, Wire.v) and tied by the executed correspondence only",
    ]
    if not quick:
        ok, out = coqchk(chk.prop)
        chk.extra["coqchk"] = "ok" if ok else out[-500:]
        if not ok:
            chk.broken.append("coqchk failed or reported axioms")


def replay(chk, path):
    """Re-runs the cases of a replay file on implementation and model and prints both outputs."""
    r = json.load(open(path))
    cases = [x["case"]["case"] if isinstance(x.get("case"), dict) else x["case"] for x in r.get("failing_inputs", []) + r.get("correspondence_disagreements", [])]
    cases = [c for c in cases if isinstance(c, str)]
    if not chk.prepare():
        return
    for c, a, b in zip(cases, run_impl("codec", cases), run_model(cases)):
        log("case:  %s\nimpl:  %s\nmodel: %s" % (c, a, b))
        chk.evaluations += 1
        if a != b:
            chk.disagree(c, a, b, "codec/replay")
