"""C20 — authorization layer gates every request; allow-list exact."""
import json
from common import *

STATUSES = [200, 400, 404, 408, 429, 500, 505, 520]


def run(chk):
    quick = chk.tier == "quick"
    chk.rule = ("random allow-lists (0-6 peers of 8; then one of every size 0-40, up to 300 in the thorough tier, in arbitrary order, every listed sender asked for) and request lists (sender listed / unlisted / absent), and closure authorizers "
                "returning arbitrary (status, body) refusals or accepting while mutating the request; a quarter of the allow-list cases stack two allow-list layers with different lists; run sequentially and from 2-8 threads "
                "through clones; distinct = case text; non-trivial = the request list contains both accepted and refused requests")
    if not chk.prepare():
        return
    cases = []
    n = 150 if quick else 3000
    for i in range(n):
        rng = chk.rng
        threads = rng.choice([1, 1, 2, 4, 8])
        k = rng.randrange(0, 25)
        if rng.random() < 0.5:
            allow = sorted(rng.sample(range(8), rng.randrange(0, 7)))
            reqs = [rng.choice(["n"] + ["s%d" % p for p in range(8)] + ["s%d" % p for p in allow]) for _ in range(k)]
            if rng.random() < 0.25:
                # two allow-list layers stacked (a broad one outside, another one inside): a request passes iff both list its sender
                outer = sorted(rng.sample(range(8), rng.randrange(0, 8)))
                cases.append("authallow2 %s %s %d %s" % (",".join(map(str, outer)) or "-", ",".join(map(str, allow)) or "-", threads, " ".join(reqs)))
            else:
                cases.append("authallow %s %d %s" % (",".join(map(str, allow)) or "-", threads, " ".join(reqs)))
        else:
            reqs = []
            for _ in range(k):
                if rng.random() < 0.5:
                    reqs.append("ok")
                else:
                    reqs.append("d%d:%s" % (rng.choice(STATUSES), rng.choice(["0", "nope", "x", "denied-%d" % rng.randrange(100)])))
            cases.append("authfn %d %s" % (threads, " ".join(reqs)))
    # allow-lists of every size (0-40 in every run, up to 300 in the thorough tier) over a universe of up to 400 identities,
    # given in arbitrary order: every listed sender is asked for at least once, plus some unlisted ones and an absent identity
    sizes = list(range(0, 41)) + ([] if quick else [63, 64, 65, 127, 128, 129, 255, 256, 257, 300] + [chk.rng.randrange(41, 300) for _ in range(40)])
    for L in sizes:
        rng = chk.rng
        universe = max(8, L + rng.randrange(3, 40))
        allow = rng.sample(range(universe), L)
        others = [p for p in range(universe) if p not in allow]
        reqs = ["s%d" % p for p in allow] + ["s%d" % p for p in rng.sample(others, min(len(others), 5))] + ["n"]
        rng.shuffle(reqs)
        cases.append("authallow %s %d %s" % (",".join(map(str, allow)) or "-", rng.choice([1, 1, 4]), " ".join(reqs)))
    # a third of the allow-list requests also carry one of the extensions the library attaches elsewhere (a Direction, a
    # ConnectionOrigin): none of them is the sender's identity, the verdict is the same (the model gets the plain request)
    # ('h': headers naming a listed peer's identity under every candidate header name: the library's own string literals
    # and the usual suspects; an identity claimed in the message is not the sender's identity)
    import os, simnet
    os.environ["VERIF_ID_HEADERS"] = ",".join(x.encode().hex() for x in simnet.identity_header_names() + ["sender", "sender-id", "sender-peer-id", "x-sender-peer-id"])
    def decorate(c):
        t = c.split()
        if not t[0].startswith("authallow"):
            return c
        k = 4 if t[0] == "authallow2" else 3
        return " ".join(t[:k] + [(r + chk.rng.choice("oichh")) if chk.rng.random() < 0.4 else r for r in t[k:]])
    sent = [decorate(c) for c in cases]
    ci = run_impl("layers", sent)
    # stacked allow-lists: the model is the single layer with the intersection of the two lists
    def single(c):
        t = c.split()
        if t[0] != "authallow2":
            return c
        both = sorted(set(t[1].split(",")) & set(t[2].split(",")) - {"-"}, key=int)
        return "authallow %s %s" % (",".join(both) or "-", " ".join(t[3:]))
    cm = run_model([single(c) for c in cases])
    for c, sc_, a, b in zip(cases, sent, ci, cm):
        chk.evaluations += 1
        t = c.split()
        chk.count(t[0])
        if t[0] == "authallow2":
            t = single(c).split()
        if a.startswith(("PANIC", "CRASH", "TIMEOUT", "HANG")):
            chk.monitor_fail("auth layer panicked", dict(case=sc_, impl=a))
            continue
        outs, inv = a.rsplit(" invoked=", 1) if " invoked=" in a else ("", a.split("invoked=")[1])
        outs = outs.split()
        inv = [] if inv == "-" else inv.split(",")
        # monitors, model-independent
        if t[0] == "authallow":
            allow = set() if t[1] == "-" else set(t[1].split(","))
            reqs = t[3:]
            want, want_inv = [], []
            for i, r in enumerate(reqs):
                if r == "n":
                    want.append("r500:0")
                elif r[1:] in allow:
                    want.append("inv:%d" % i)
                    want_inv.append(str(i))
                else:
                    want.append("r404:0")
        else:
            reqs = t[2:]
            want, want_inv = [], []
            for i, r in enumerate(reqs):
                if r == "ok":
                    want.append("inv:%d:seen" % i)
                    want_inv.append(str(i))
                else:
                    want.append("r" + r[1:])
        if outs != want:
            bad = [i for i, (x, y) in enumerate(zip(outs, want)) if x != y]
            chk.monitor_fail("request %s: outcome %s but the authorizer's verdict requires %s" % (bad[:1], [outs[i] for i in bad[:1]], [want[i] for i in bad[:1]]), dict(case=sc_, impl=a))
        if inv != want_inv:
            chk.monitor_fail("the wrapped service was invoked for %s, accepted requests are %s" % (inv, want_inv), dict(case=sc_, impl=a))
        if want_inv and len(want_inv) < len(reqs):
            chk.nontriv(c)
        if a != b:
            chk.disagree(sc_, a, b, "layers/auth")
    chk.sample(dict(case=cases[0], impl=ci[0], model=cm[0]))
    chk.sample(dict(case=cases[1], impl=ci[1], model=cm[1]))
    chk.assumptions.append("authorizer closures are deterministic functions of the request (as the AuthorizeRequest contract implies)")
    if not quick:
        ok, out = coqchk(chk.prop)
        chk.extra["coqchk"] = "ok" if ok else out[-500:]
        if not ok:
            chk.broken.append("coqchk failed or reported axioms")


def replay(chk, path):
    r = json.load(open(path))
    cases = [x["case"]["case"] for x in r.get("failing_inputs", [])] + [x["case"] for x in r.get("correspondence_disagreements", [])]
    if not chk.prepare():
        return
    import re
    plain = [re.sub(r"\b(s\d+|n)[oich]\b", r"\1", c) for c in cases]     # the model gets the requests without their decorations
    for c, a, b in zip(cases, run_impl("layers", cases), run_model(plain)):
        log("case:  %s\nimpl:  %s\nmodel: %s" % (c, a, b))
        if a != b:
            chk.disagree(c, a, b, "layers/replay")
