"""C03 — dialing with an expected identity only ever reaches that identity."""
import json
from common import *
import simnet


def run(chk):
    quick = chk.tier == "quick"
    chk.rule = ("sequential scripts over 3-4 whole networks on the fabric where half of the dials carry an expected identity (right or wrong for the address dialed), plus "
                "adversary scenarios (an endpoint replaying the expected peer's certificate) and nodes dialing their own address (monitors only); dial results, returned identities, 'listed when returned' and both sides' listings "
                "and events are compared with NetModel.v / checked by monitors; distinct = scenario; non-trivial = all")
    if not chk.prepare():
        return
    w = dict(fault=0.1, restart=0.03, known=0.03, pin=0.6, selfdial=0.08)
    recs = simnet.run_netscripts(chk, 30 if quick else 400, [3, 4], lambda r: r.randrange(6, 14), w, "fabric:pinned-dials")
    for rec in recs:
        # a failed pinned dial must leave no trace: neither side lists / announces the other because of it
        ops, res = rec["ops"], rec["res"]
        nn = len(rec["nodes"])
        prev = None
        for (oi, pos_res, ppos, rpcs) in rec["marks"]:
            listings = [res[ppos - 1 + i] for i in range(nn)]
            op = ops[oi]
            if op[0] == "D" and len(op) > 3 and op[3] != op[2] and prev is not None:
                if listings != prev:
                    chk.monitor_fail("a dial pinned to the wrong identity changed somebody's connected set: %s -> %s" % (prev, listings), dict(case=rec["scenario"][:2000], op_index=oi))
            prev = listings
    simnet.adversary_c03(chk)
    chk.assumptions += ["Ed25519 / TLS 1.3 / X.509 soundness (rustls, webpki, ring) is assumed; the model's unforgeability hypotheses are explicit premises of C03_impostor_rejected"]
    if not quick:
        ok, out = coqchk(chk.prop)
        chk.extra["coqchk"] = "ok" if ok else out[-500:]
        if not ok:
            chk.broken.append("coqchk failed or reported axioms")


replay = __import__("c_c09").replay
