"""C03 — dialing with an expected identity only ever reaches that identity."""
import json
from common import *
import simnet


def run(chk):
    quick = chk.tier == "quick"
    chk.rule = ("sequential scripts over 3-4 whole networks on the fabric where half of the dials carry an expected identity (right or wrong for the address dialed), plus "
                "adversary scenarios (an endpoint replaying the expected peer's certificate) and nodes dialing their own address (monitors only); dial results, returned identities, 'listed when returned' and both sides' listings "
                "and events are compared with NetModel.v / checked by monitors; distinct = scenario; non-trivial = all")
    if not chk.prepare():
        return
    w = dict(fault=0.1, restart=0.03, known=0.03, pin=0.6, selfdial=0.08)
    recs = simnet.run_netscripts(chk, 30 if quick else 400, [3, 4], lambda r: r.randrange(6, 14), w, "fabric:pinned-dials")
    for rec in recs:
        # a failed pinned dial must leave no trace: neither side lists / announces the other because of it
        ops, res = rec["ops"], rec["res"]
        nn = len(rec["nodes"])
        prev = None
        for (oi, pos_res, ppos, rpcs) in rec["marks"]:
            listings = [res[ppos - 1 + i] for i in range(nn)]
            op = ops[oi]
            if op[0] == "D" and len(op) > 3 and op[3] != op[2] and prev is not None:
                if listings != prev:
                    chk.monitor_fail("a dial pinned to the wrong identity changed somebody's connected set: %s -> %s" % (prev, listings), dict(case=rec["scenario"][:2000], op_index=oi))
            prev = listings
    dials_at_the_limit(chk)
    simnet.adversary_c03(chk)
    chk.assumptions += ["Ed25519 / TLS 1.3 / X.509 soundness (rustls, webpki, ring) is assumed; the model's unforgeability hypotheses are explicit premises of C03_impostor_rejected"]
    if not quick:
        ok, out = coqchk(chk.prop)
        chk.extra["coqchk"] = "ok" if ok else out[-500:]
        if not ok:
            chk.broken.append("coqchk failed or reported axioms")


def dials_at_the_limit(chk):
    """A successful dial returns the identity of the party reached, and that party is in the caller's connected set when the
    call returns - also when the caller is at (or over) its own connection limit, with or without an expected identity."""
    scen, metas = [], []
    for limit in (0, 1, 2):
        for pinned in (False, True):
            rng = chk.rng
            cmds = ["seed=%d delay=%d" % (rng.randrange(1 << 30), rng.choice([200, 2000])),
                    "node 0 key=10 name=n10 maxconn=%d ctimeout=500 idle=600000 keepalive=5000" % limit]
            for j in range(1, limit + 2):
                cmds.append("node %d key=%d name=n10 idle=600000 keepalive=5000" % (j, 10 + j))
            for j in range(1, limit + 1):
                cmds += ["connect %d 0" % j, "sleep 300"]
            x = limit + 1
            cmds += ["sub 0", "connect 0 %d%s" % (x, " pin=%d" % x if pinned else ""), "events 0", "peers 0", "sleep 300", "peers 0", "peers %d" % x,
                     "rpc 0 %d id=a size=5" % x, "rpc %d 0 id=b size=5" % x]
            scen.append("simnet " + " ; ".join(cmds))
            metas.append((limit, pinned, x))
    outs, parsed = simnet.run_scenarios(chk, scen, "fabric:dial-at-the-callers-limit")
    for sc, res, (limit, pinned, x) in zip(scen, parsed, metas):
        if res is None:
            continue
        chk.nontriv(sc)
        cl = [c.strip() for c in sc[len("simnet "):].split(" ; ")][1:]
        k = [i for i, c in enumerate(cl) if c.startswith("connect 0 ")][0]
        r, ev, now, later, other = res[k], res[k + 1], res[k + 2], res[k + 4], res[k + 5]
        if not r.startswith("ok %d " % x):
            chk.monitor_fail("an explicit dial%s from a node at its connection limit (%d) returned %s" % (" naming the identity" if pinned else "", limit, r[:40]), dict(case=sc))
        elif "listed=1" not in r or str(x) not in now.strip("[]").split(",") or "+%d" % x not in ev:
            chk.monitor_fail("a dial%s from a node at its connection limit (%d) returned identity %d, but that party is not in the caller's connected set when the call returns (%s; listing %s; events %s)"
                             % (" naming the identity" if pinned else "", limit, x, r[:40], now, ev), dict(case=sc))
        elif str(x) not in later.strip("[]").split(",") or "0" not in other.strip("[]").split(",") or not res[k + 6].startswith("ok st=200") or not res[k + 7].startswith("ok st=200"):
            chk.monitor_fail("after a successful dial from a node at its connection limit (%d): caller lists %s, callee lists %s, RPCs %s / %s" % (limit, later, other, res[k + 6][:20], res[k + 7][:20]), dict(case=sc))


replay = __import__("c_c09").replay
