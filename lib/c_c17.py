"""C17 — generated typed clients reach the matching typed handlers."""
import json
from common import *

IDENT_START = "ABCDEFGHIJKLMNOPQRSTUVWXYZabcdefghijklmnopqrstuvwxyz"
IDENT_REST = IDENT_START + "0123456789_"
METHODS = {"Alpha": ["Echo", "Add", "Raw", "EchoTwice"], "Beta": ["Echo", "Other"]}
PKG = {"Alpha": "", "Beta": "pkg.sub"}
FMT = {"Alpha.Echo": "json", "Alpha.Add": "bincode", "Alpha.Raw": "bincode", "Alpha.EchoTwice": "json", "Beta.Echo": "bincode", "Beta.Other": "json"}
NONSUCCESS = [400, 404, 408, 429, 500, 505, 520]


def ident(rng):
    n = rng.choice([1, 1, 2, 3, 5, 8, 12])
    s = rng.choice(IDENT_START) + "".join(rng.choice(IDENT_REST) for _ in range(n - 1))
    return s if s not in ("_", "self", "Self", "super", "crate", "fn", "mod", "use", "as", "in", "if", "do") else s + "x"


def run(chk):
    quick = chk.tier == "quick"
    chk.rule = ("(a) anemo_build::{client,server}::generate on random service definitions (identifiers, packages empty / dotted up to 4 segments, 0-8 methods): "
                "the '/...' string literals of both token streams and SERVICE_NAME vs the model; (b) typed calls through clients/servers generated in the harness's "
                "build.rs for a fixed 2-service, 6-method definition (json, bincode, raw-bytes; same route name in two services) served through Router::add_rpc_service: "
                "ok / ok-with-status / error statuses with message and headers / garbage payloads / unknown methods; distinct = case text; "
                "non-trivial = typed cases mixing successes and errors, gen cases with >= 2 methods")
    if not chk.prepare():
        return
    cases = []
    n = 200 if quick else 4000
    for i in range(n):
        rng = chk.rng
        pkg = ".".join(ident(rng) for _ in range(rng.choice([0, 0, 1, 2, 4])))
        svc = ident(rng)
        routes = []
        while len(routes) < rng.choice([0, 1, 2, 3, 8]):
            r = ident(rng)
            if r not in routes:
                routes.append(r)
        cases.append("gen %s %s %s" % (hx(pkg.encode()), hx(svc.encode()), " ".join(hx(r.encode()) for r in routes)))
    nt = 150 if quick else 3000
    for i in range(nt):
        rng = chk.rng
        calls = []
        for j in range(rng.randrange(1, 12)):
            r = rng.random()
            svc = rng.choice(["Alpha", "Beta"])
            m = rng.choice(METHODS[svc])
            text = rng.choice(["", "hi", "x y", "é", "a:b"]).replace(" ", "_")
            if r < 0.12:
                route = rng.choice(["/%s%s%s/%s" % (PKG[svc], "." if PKG[svc] else "", svc, m), "/%s/Nope" % svc, "/Alpha/echo", "/Gamma/Echo", "/pkg.sub.Beta/", "/Alpha/Echo/"])
                calls.append("raw:%s:%s" % (hx(route.encode()), rng.choice(["-", hx(b"garbage"), "00", "7b7d"])))
                continue
            if r < 0.5:
                beh = "ok"
            elif r < 0.6:
                beh = "okst%d" % rng.choice(NONSUCCESS + [200])
            else:
                beh = "err%d" % rng.choice(NONSUCCESS + ([200] if rng.random() < 0.1 else []))
                if rng.random() < 0.6:
                    beh += ";m=" + rng.choice(["nope", "bad_input", "é", "a=b"])
                    if rng.random() < (0.2 if i < 400 else 0.03):
                        # long messages (error chains, backtraces), with a multi-byte character straddling the offsets a
                        # careless cap would cut at
                        off = rng.choice([63, 64, 127, 128, 255, 256, 511, 512, 1023, 1024, 1025, 2048, 4096, 8192, 16384, 65535, 65536, 100000])
                        ch = rng.choice(["\u00e9", "\u20ac", "\U0001F600", "b"])
                        beh = beh.rsplit(";m=", 1)[0] + ";m=" + "a" * (off - rng.randrange(0, len(ch.encode()))) + ch * 3
            for _ in range(rng.choice([0, 0, 1, 2])):
                beh += ";h=%s=%s" % (rng.choice(["a", "x-k", "retry", "status-message", "content-type"]), rng.choice(["1", "v", "zz"]))
            calls.append("%s.%s:%d:%s:%s" % (svc, m, i * 100 + j, hx(text.encode()), beh))
        cases.append("typed " + " ".join(calls))
    ci = run_impl("codegen", cases)
    cm = run_model(cases)
    for c, a, b in zip(cases, ci, cm):
        chk.evaluations += 1
        t = c.split()
        chk.count(t[0])
        if a.startswith(("PANIC", "CRASH", "TIMEOUT", "HANG")):
            chk.monitor_fail("code generation or a typed call panicked", dict(case=c[:500], impl=a[:200]))
            continue
        if t[0] == "gen":
            pkg, svc, routes = unhx(t[1]).decode(), unhx(t[2]).decode(), [unhx(x).decode() for x in t[3:]]
            f = dict(x.split("=", 1) for x in a.split())
            cl = [] if f["client"] == "-" else [unhx(x).decode() for x in f["client"].split(",")]
            sv = [] if f["server"] == "-" else [unhx(x).decode() for x in f["server"].split(",")]
            name = unhx(f["name"]).decode() if f["name"] != "none" else None
            if cl != sv:
                chk.monitor_fail("generated client and server disagree on method routes", dict(case=c, client=cl, server=sv))
            if any(not p.startswith("/%s/" % name) for p in cl):
                chk.monitor_fail("a client route does not lie under the prefix the router registers (/%s/)" % name, dict(case=c, client=cl))
            if len(set(cl)) != len(routes) or [p.rsplit("/", 1)[1] for p in cl] != routes:
                chk.monitor_fail("client routes are not one distinct path per method", dict(case=c, client=cl))
            if len(routes) >= 2:
                chk.nontriv(c)
        else:
            outs, log = a.split(" | ")
            outs = outs.split()
            calls = t[1:]
            kinds = set()
            exp_log = []
            for call, o in zip(calls, outs):
                f = call.split(":", 3)
                if f[0] == "raw":
                    kinds.add("raw")
                    if not o.startswith("status:") or o == "status:200" and f[2] != "7b7d":
                        chk.monitor_fail("undecodable / unknown-route raw request did not surface as an error status: %s" % o, dict(case=c[:500], call=call))
                    continue
                who, tag, text, beh = f
                head = beh.split(";")[0]
                exp_log.append("%s:%s" % (who, tag))
                want_text = hx(("%s<%s>" % (who, unhx(text).decode())).encode())
                if head == "ok" or head == "okst200":
                    kinds.add("ok")
                    p = o.split(":")
                    if p[0] != "ok" or p[1] != tag or p[2] != want_text or p[3] != "200":
                        chk.monitor_fail("typed call did not return the response of the handler method of the same name: %s" % o, dict(case=c[:500], call=call))
                else:
                    kinds.add("err")
                    code = head[4:] if head.startswith("okst") else head[3:]
                    if head == "err200":
                        code = "520"   # an Err carrying a success code has no body to decode: surfaces as Unknown
                    p = o.split(":")
                    if p[0] != "err" or p[1] != code:
                        chk.monitor_fail("non-success status did not surface as an error with the same code: %s" % o, dict(case=c[:500], call=call))
                    elif head.startswith("err") and head != "err200":
                        hs = {} if p[2] == "-" else dict(x.split("=", 1) for x in p[2].split(","))
                        msg = [x[2:] for x in beh.split(";") if x.startswith("m=")]
                        if msg and hs.get("status-message") != hx(msg[0].encode()):
                            chk.monitor_fail("error status message not intact: %s" % o, dict(case=c[:500], call=call))
                        for x in beh.split(";"):
                            if x.startswith("h="):
                                k, v = x[2:].split("=", 1)
                                if k != "status-message" and k not in hs:
                                    chk.monitor_fail("error status header %s lost: %s" % (k, o), dict(case=c[:500], call=call))
            got_log = [] if log.strip() == "-" else log.split()
            raw_hits = len(got_log) - len(exp_log)
            if [x for x in got_log if x in exp_log] != exp_log and sorted(got_log)[:0] == []:
                if [x for x in got_log if ":" in x and x in set(exp_log)] != exp_log:
                    chk.monitor_fail("handler invocation log differs from the calls made (each call must reach exactly its handler once)", dict(case=c[:500], log=got_log, expected=exp_log))
            if len(kinds) >= 2:
                chk.nontriv(c)
            # canonicalise framework-generated error texts before comparing with the model
            can = []
            for call, o in zip(calls, outs):
                beh = call.split(":", 3)[3] if not call.startswith("raw:") else ""
                if o.startswith("err:520:") and beh.split(";")[0] == "err200":
                    parts = o.split(":")
                    hs = [("status-message=2a" if x.startswith("status-message=") else x) for x in parts[2].split(",")]
                    o = "err:520:" + ",".join(hs)
                can.append(o)
            a = " ".join(can) + " | " + log
        if a != b:
            chk.disagree(c[:800], a[:500], b[:500], "codegen")
    chk.sample(dict(case=cases[0][:300], impl=ci[0][:300], model=cm[0][:300]))
    chk.sample(dict(case=cases[-1][:300], impl=ci[-1][:300], model=cm[-1][:300]))
    # messages that encode to nothing (bincode: unit, field-less struct) or next to nothing (json: null, {}, []; empty vector):
    # the handler is invoked once and its response comes back, with its headers
    tiny = []
    for i in range(3 if quick else 20):
        calls = []
        for _ in range(chk.rng.randrange(3, 12)):
            m = chk.rng.choice(["UnitBin", "UnitJson", "EmptyBin", "EmptyJson", "VecBin", "VecJson"])
            v = chk.rng.choice(["-", "-", "00", "05", "0102", "ff" * 40]) if m.startswith("Vec") else None
            calls.append("tiny:%s%s" % (m, ":" + v if v else ""))
        if i == 1:
            # a message whose encoding fails half-way (the call fails cleanly), followed by ordinary calls: nothing of the
            # failed message may leak into what is sent next
            calls = ["tiny:PoisonBin:6d616c6c6f7279:fail", "tiny:VecBin:616c696365", "tiny:PoisonJson:6d616c6c6f7279:fail", "tiny:VecJson:616c696365",
                     "tiny:PoisonJson:0102:fail", "tiny:PoisonBin:0304:ok", "tiny:PoisonBin:0506:fail", "tiny:PoisonJson:0708:ok", "tiny:UnitBin", "tiny:EmptyJson"]
        if i == 0:
            calls = ["tiny:UnitBin", "tiny:UnitJson", "tiny:EmptyBin", "tiny:EmptyJson", "tiny:VecBin:-", "tiny:VecJson:-", "tiny:VecBin:0102", "tiny:VecJson:05"]
        tiny.append("typed " + " ".join(calls))
    for c, a in zip(tiny, run_impl("codegen", tiny, shards=1)):
        chk.evaluations += 1
        chk.nontriv(c)
        calls = c.split()[1:]
        if a.startswith(("PANIC", "CRASH", "TIMEOUT", "HANG")) or " | " not in a:
            chk.monitor_fail("a typed call with a tiny message panicked", dict(case=c, impl=a[:300]))
            continue
        outs, log = a.split(" | ")
        outs, log = outs.split(), ([] if log == "-" else log.split())
        for call, o in zip(calls, outs):
            f = call.split(":")
            body = "()" if f[1].startswith("Unit") else "Empty" if f[1].startswith("Empty") else "[%s]" % ",".join(str(x) for x in bytes.fromhex(f[2].replace("-", "")))
            chk.count("tiny-message:" + f[1])
            if len(f) > 3 and f[3] == "fail":
                if not o.startswith("err:"):
                    chk.monitor_fail("a typed call whose request cannot be encoded returned %s" % o[:80], dict(case=c, impl=a[:400]))
                    break
                continue
            if not o.startswith("ok:%s:200:" % body) or "done=31" not in o:
                chk.monitor_fail("typed call %s: the handler answered Ok(%s) with a header, the caller got %s" % (f[1], body, o[:120]), dict(case=c, impl=a[:400]))
                break
        if log != ["Gamma." + call.split(":")[1] for call in calls if not call.endswith(":fail")]:
            chk.monitor_fail("tiny-message calls %s reached the handlers %s" % ([x.split(":")[1] for x in calls], log), dict(case=c, impl=a[:400]))
    # large messages: nothing in the property bounds a message's size (lengths around powers of two up to a few MiB, both
    # codecs); the handler echoes the message, the caller must get back exactly what it sent
    sizes = [65535, 65536, 1 << 20, (1 << 20) + 1, 3 << 20] if quick else [255, 65535, 65536, 65537, (1 << 20) - 9, 1 << 20, (1 << 20) + 1, 2 << 20, 3 << 20, (4 << 20) + 5, 6 << 20]
    # (json spells every byte as a decimal number: a third of the sizes is enough there)
    big = ["typed " + " ".join("big:%s:%d:%d" % (m, n, chk.rng.randrange(256)) for n in (sizes if m == "VecBin" else sizes[1::3])) + " tiny:VecBin:0102" for m in ("VecBin", "VecJson")]
    for c, a in zip(big, run_impl("codegen", big, shards=2)):
        chk.evaluations += 1
        chk.nontriv(c)
        calls = c.split()[1:]
        if a.startswith(("PANIC", "CRASH", "TIMEOUT", "HANG")) or " | " not in a:
            chk.monitor_fail("a typed call with a large message panicked", dict(case=c, impl=a[:300]))
            continue
        outs, log = a.split(" | ")
        outs, log = outs.split(), ([] if log == "-" else log.split())
        for call, o in zip(calls[:-1], outs):
            f = call.split(":")
            chk.count("large-message:" + f[1])
            if not o.startswith("ok:same:200:") or "done=31" not in o:
                chk.monitor_fail("typed call %s with a message of %s bytes (frame limit 8 MiB): the handler echoes it with a header, the caller got %s" % (f[1], f[2], o[:120]), dict(case=c, impl=a[:400]))
                break
        if log != ["Gamma." + call.split(":")[1] for call in calls]:
            chk.monitor_fail("large-message calls %s reached the handlers %s" % ([x.split(":")[1] for x in calls], log), dict(case=c, impl=a[:400]))
    chk.assumptions += ["serde_json / bincode message codecs are assumed to round-trip (Section hypotheses dec_enc_q / dec_enc_r of the typed-call theorems)",
                        "texts of framework-generated errors (codec failures) are not modelled: they are canonicalised to '*' before comparison"]
    if not quick:
        ok, out = coqchk(chk.prop)
        chk.extra["coqchk"] = "ok" if ok else out[-500:]
        if not ok:
            chk.broken.append("coqchk failed or reported axioms")


def replay(chk, path):
    r = json.load(open(path))
    cases = [x["case"]["case"] for x in r.get("failing_inputs", [])] + [x["case"] for x in r.get("correspondence_disagreements", [])]
    if not chk.prepare():
        return
    for c, a, b in zip(cases, run_impl("codegen", cases), run_model(cases)):
        log("case:  %s\nimpl:  %s\nmodel: %s" % (c[:500], a[:500], b[:500]))
