"""C16 — routing delivers each request to exactly the matching service."""
import json
from common import *

SEGS = ["a", "b", "ab", "A", "x", "svc", "pkg.Svc", "a.b.C", "é", "_", "0"]
NAMES = ["A", "pkg.Svc", "a.b.C", "x"]


def gen_path(rng):
    n = rng.choice([0, 1, 1, 2, 2, 3])
    s = "/" + "/".join(rng.choice(SEGS) for _ in range(n))
    if rng.random() < 0.25 and not s.endswith("/"):
        s += "/"
    return s


def gen_ops(rng, depth=0, long_paths=False):
    ops, pats = [], []
    sid = [rng.randrange(1, 1000)]
    for _ in range(rng.randrange(1, 8)):
        r = rng.random()
        sid[0] += 1
        if r < 0.45:
            p = gen_path(rng)
            if long_paths and rng.random() < 0.4:
                # an exact path that is itself long
                p = p.rstrip("/") + "/" + rng.choice(["s" * 254, "t" * 300, "pkg.Svc" * 60, "u" * 1100])
            ops.append("r:%s:%d" % (hx(p.encode()), sid[0]))
            pats.append(p)
        elif r < 0.6:
            p = gen_path(rng)
            p = (p if p.endswith("/") else p + "/") + "*" + rng.choice(["rest", "r", "x"])
            ops.append("r:%s:%d" % (hx(p.encode()), sid[0]))
            pats.append(p)
        elif r < 0.72:
            k = rng.randrange(0, 4)
            ops.append("S%d:%d" % (k, sid[0]))
            pats.append("/%s/*rest" % NAMES[k])
        elif r < 0.87:
            ops.append("L%d" % rng.randrange(1, 50))
        elif depth < 2 and rng.random() < 0.25:
            # a clone of the router built so far, given a route layer (or further routes) and merged back: every path it
            # shares with the original is registered twice, which merge must refuse like any other conflict
            sub = ["L%d" % rng.randrange(1, 50)] if rng.random() < 0.7 else []
            if rng.random() < 0.4:
                p = gen_path(rng)
                sid[0] += 1
                sub.append("r:%s:%d" % (hx(p.encode()), sid[0]))
                pats.append(p)
            ops += ["[c"] + sub + ["]"]
        elif depth < 2:
            sub, sp = gen_ops(rng, depth + 1, long_paths)
            ops += ["["] + sub + ["]"]
            pats += sp
    return ops, pats


def gen_queries(rng, pats):
    qs = ["", "/", "a", "//", "/*", "/:", "/a/:x", "/a/*rest", "*", "/%", "/" + "x" * 10000, "/é", "é", " /a", "/a ", "/a//b", "/A/"]
    for p in pats:
        base = p.split("*")[0]
        qs += [base, base.rstrip("/"), base + "/", base + "x", base + "x/y", base + "/x", base[:-1] if len(base) > 1 else base, base + "é", base.upper()]
        # the leading slash missing or repeated, in front of the pattern itself and of something below it
        qs += [base[1:], base[1:] + "x", base[1:] + "x/y", "/" + base, "/" + base + "x", "//" + base + "x/y"]
        # long routes: nothing in the property bounds a route's length (sizes around powers of two and well beyond)
        if "*" in p:
            bl = len(base.encode())
            qs += [base + "k" * max(1, n - bl) for n in (255, 256, 257, 512, 1025)] + [base + "m" * 300 + "/n/" + "o" * 300, base + "z" * 5000]
    for _ in range(6):
        qs.append(gen_path(rng) + rng.choice(["", "", "/", "x", "/a/b/c"]))
    return qs


def run(chk):
    quick = chk.tier == "quick"
    chk.rule = ("random builder programs (route with exact and catch-all paths, add_rpc_service over 4 service names, route_layer, nested merge; "
                "conflicting and invalid routes included and compared as such) and per program ~40 route strings: registered paths, their prefixes / "
                "extensions / trailing-slash variants / variants with the leading slash missing or repeated, empty, non-ASCII, 10 kB, ':' and '*' characters; distinct = case text; non-trivial = the table was "
                "accepted and at least one query hit a route and one missed")
    if not chk.prepare():
        return
    cases = []
    n = 250 if quick else 5000
    for i in range(n):
        ops, pats = gen_ops(chk.rng)
        qs = gen_queries(chk.rng, pats)
        if i < 4:
            # route strings with a multi-byte character straddling each of the byte offsets a careless truncation would pick
            for off in (4, 8, 16, 32, 48, 64, 100, 128, 255, 256, 1024):
                for ch in ("\u00e9", "\u20ac", "\U0001F600"):
                    for back in range(1, len(ch.encode())):
                        qs.append("/" + "a" * (off - back - 1) + ch * 3)
        cases.append("router %s | %s" % (" ".join(ops), " ".join(hx(q.encode()) for q in qs)))
    # further programs in which exact paths may be long themselves (generated last: the programs above do not depend on them)
    for i in range(8 if quick else 200):
        ops, pats = gen_ops(chk.rng, long_paths=True)
        cases.append("router %s | %s" % (" ".join(ops), " ".join(hx(q.encode()) for q in gen_queries(chk.rng, pats))))
    # invalid registrations
    for p in ["", "a", "a/b", "*rest", "/a/*", "/a/*r/x", "/:id", "/a/:id/b"]:
        cases.append("router r:%s:1 | %s" % (hx(p.encode()), hx(b"/a")))
    ci = run_impl("router", cases)
    cm = run_model(cases)
    for c, a, b in zip(cases, ci, cm):
        chk.evaluations += 1
        if a.startswith(("CRASH", "TIMEOUT", "HANG")) or " PANIC" in a.split("|", 1)[-1]:
            chk.monitor_fail("routing panicked on a route string", dict(case=c[:600], impl=a[:300]))
            continue
        built_ok = "PANIC@" not in a
        chk.count("table:" + ("accepted" if built_ok else "rejected"))
        prog = c.split("|", 1)[0].split()[1:]
        if built_ok and "[c" in prog:
            # model-independent: a merge of a clone registers the original's paths again; if the original had any route
            # (registered before the clone was taken, at the same nesting level or below) the merge must be refused
            k = prog.index("[c")
            depth, had_route = 0, False
            for op in prog[:k]:
                had_route = had_route or op.startswith(("r:", "S"))
            if had_route and all(x != "[" for x in prog[:k]):
                chk.monitor_fail("a router was merged with a clone of itself (routes registered twice, the clone carrying %s) and the merge was accepted" % [x for x in prog[k + 1:prog.index("]", k)]][:3], dict(case=c[:800], impl=a[:300]))
        if built_ok:
            outs = a.split("|", 1)[1].split()
            hits = [o for o in outs if o != "404"]
            chk.count("queries", len(outs))
            chk.count("hits", len(hits))
            if hits and len(hits) < len(outs):
                chk.nontriv(c)
            # monitor: the empty route and routes without a leading '/' are never served
            qs = c.split("|", 1)[1].split()
            # the property restated on the registrations of this program: a request is delivered to service
            # N only if N's pattern matches its route (exact: equal; catch-all 'p/*x': extension of 'p/'),
            # and a route equal to an exact registered path is delivered to that path's service
            pat = {}
            for op in c.split("|", 1)[0].split()[1:]:
                f = op.split(":")
                if f[0] == "r":
                    pat.setdefault(f[2], []).append(unhx(f[1]))
                elif f[0].startswith("S"):
                    pat.setdefault(f[1], []).append(b"/" + NAMES[int(f[0][1:])].encode() + b"/*rest")
            def matches(pt, route):
                if b":" in pt:
                    return None
                if b"*" in pt:
                    pre = pt.split(b"*")[0]
                    return route.startswith(pre)     # the tail may be empty (matchit 0.5)
                return route == pt
            for q, o in zip(qs, outs):
                s = unhx(q)
                if (s == b"" or not s.startswith(b"/")) and not o.startswith("404"):
                    chk.monitor_fail("a route string not starting with '/' was served: %r -> %s" % (s[:40], o), dict(case=c[:600], impl=a[:300]))
                if o.startswith("s") and o != "404":
                    sid = o[1:].split(";")[0]
                    if sid in pat and all(matches(pt, s) is False for pt in pat[sid]):
                        chk.monitor_fail("route %r was delivered to the service registered at %r, which it does not match" % (s[:60], [pt[:60] for pt in pat[sid]]), dict(case=c, impl=a[:600]))
                if o.startswith("404;"):
                    chk.monitor_fail("route layer(s) %s ran for the unmatched route %r" % (o[4:], s[:60]), dict(case=c, impl=a[:600]))
                if o == "404":
                    exact = [k for k, pts in pat.items() for pt in pts if b"*" not in pt and b":" not in pt and pt == s]
                    if exact:
                        chk.monitor_fail("route %r equals a registered exact path but was answered NotFound" % s[:60], dict(case=c, impl=a[:600]))
                    # ... and a route below a registered catch-all / rpc-service prefix is served by somebody
                    below = [pt for pts in pat.values() for pt in pts if b"*" in pt and b":" not in pt and s.startswith(pt.split(b"*")[0]) and len(s) > len(pt.split(b"*")[0])]
                    if below and not any(b":" in pt for pts in pat.values() for pt in pts):
                        chk.monitor_fail("route %r lies below the registered catch-all %r but was answered NotFound" % (s[:60], below[0][:60]), dict(case=c, impl=a[:600]))
        if b == "unsupported":
            chk.count("outside-model")
            continue
        if a != b:
            chk.disagree(c[:1500], a[:500], b[:500], "router")
    chk.sample(dict(case=cases[0][:300], impl=ci[0][:200], model=cm[0][:200]))
    chk.assumptions += ["matchit 0.5.0 is third-party; its radix tree is not modelled: the model is the table semantics (exact / catch-all) and is tied by these differential runs; "
                        "parameter segments (':name') are outside the model and compared only for absence of panics",
                        "panic-freedom of routing on arbitrary route strings is exercised (catch_unwind), not proved"]
    if not quick:
        ok, out = coqchk(chk.prop)
        chk.extra["coqchk"] = "ok" if ok else out[-500:]
        if not ok:
            chk.broken.append("coqchk failed or reported axioms")


def replay(chk, path):
    r = json.load(open(path))
    cases = [x["case"]["case"] for x in r.get("failing_inputs", [])] + [x["case"] for x in r.get("correspondence_disagreements", [])]
    if not chk.prepare():
        return
    for c, a, b in zip(cases, run_impl("router", cases), run_model(cases)):
        log("case:  %s\nimpl:  %s\nmodel: %s" % (c[:500], a[:300], b[:300]))
        if a != b and b != "unsupported":
            chk.disagree(c, a, b, "router/replay")
