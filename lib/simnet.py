"""Scenario generators and monitors for the fabric runs (driver `simnet`)."""
import re
from common import *


def parse(out):
    """Splits a simnet result line into per-command results and the trailer dict."""
    body, _, trailer = out.partition(" ;; ")
    res = [r.strip() for r in body.split(" ; ")]
    tr = dict(x.split("=") for x in trailer.split()) if trailer else {}
    return res, tr


def fields(r):
    return dict(x.split("=", 1) for x in r.split() if "=" in x)


def run_scenarios(chk, scenarios, tag):
    outs = run_impl("simnet", scenarios, shards=NCPU)
    parsed = []
    for sc, o in zip(scenarios, outs):
        chk.evaluations += 1
        chk.count(tag)
        if o.startswith(("PANIC", "CRASH", "TIMEOUT", "HANG")):
            chk.monitor_fail("simulated network run panicked / crashed / hung", dict(case=sc, impl=o[:300]))
            parsed.append(None)
            continue
        res, tr = parse(o)
        allowed = int(re.search(r" xpanic=(\d+)", sc).group(1)) if " xpanic=" in sc else 0
        if int(tr.get("panics", "0")) > allowed:
            chk.monitor_fail("a task panicked during the simulated network run (panics=%s)" % tr.get("panics"), dict(case=sc, impl=o[:600]))
        parsed.append(res)
    return outs, parsed


LIMIT_SURVIVORS = {}


def c05(chk):
    """Whole networks dialing each other simultaneously over the fabric."""
    quick = chk.tier == "quick"
    scen = []
    n = 40 if quick else 500
    for i in range(n):
        rng = chk.rng
        delay = rng.choice([100, 1000, 5000, 20000])
        jitter = rng.choice([0, 0, delay // 2, delay * 2])
        stagger = rng.choice([0, 0, 0, 1, delay // 1000 + 1, 2 * delay // 1000 + 1])
        k0, k1 = rng.randrange(1, 10**6), rng.randrange(1, 10**6)
        # the last few runs use real sockets and the real clock with the second dial arriving 0.6-0.9 s after the
        # first (anything in the code that measures real time between the two dials only shows there)
        real = i >= n - (4 if quick else 16)
        if real:
            stagger = rng.choice([600, 900])
        first, second = ("bg a connect 0 1", "bg b connect 1 0") if rng.random() < 0.5 or not real else ("bg b connect 1 0", "bg a connect 0 1")
        if not real and rng.random() < 0.3:
            # one of the two dials (or both) reaches the other node under its second address: what each side sees as the
            # other's address differs between the two connections at one side only; the outcome must not depend on it
            w = rng.choice([0, 1, 2])
            if w in (0, 2):
                first += " ip=2"
            if w in (1, 2):
                second += " ip=%d" % rng.choice([2, 3])
        # in a quarter of the (virtual-time) runs one or both of the dials are background dials: the other node is entered
        # as a High-affinity known peer and the periodic connectivity check (every 100 ms) dials it
        bgd = set()
        if not real and (rng.random() < 0.4 or i < (16 if quick else 100)):
            bgd = rng.choice([{0}, {1}, {0, 1}, {0, 1}, {0, 1}]) if i >= (16 if quick else 100) else rng.choice([{0}, {1}])
            if 0 in bgd:
                first = "known 0 1 high"
            if 1 in bgd:
                second = "known 1 0 high"
            # both nodes were started at the same instant, so their checks tick together: with both entries made within one
            # period the two background dials start at the same tick; an explicit dial is placed around the next tick
            # (the first runs of every check sweep the explicit dial over the milliseconds before the tick, so that it
            # reaches the other node while that node's own background dial is still in flight)
            stagger = 0 if len(bgd) == 2 else rng.choice([60, 90, 99, 100, 101, 110, 130]) if i >= (16 if quick else 100) else rng.randrange(85, 104)
            if i < (16 if quick else 100):
                delay, jitter = rng.choice([100, 1000, 5000]), 0
        # in a fifth of the plain runs one of the two nodes has a connection limit of 1, which this very pair fills: one of the
        # dials may then be refused, but the pair must still end with one shared connection
        lim = rng.choice([0, 1]) if not real and not bgd and rng.random() < 0.25 else None
        mc = lambda i: " maxconn=1" if lim == i else ""
        cmds = ["seed=%d real=1" % rng.randrange(1 << 30) if real else "seed=%d delay=%d jitter=%d" % (rng.randrange(1 << 30), delay, jitter),
                "node 0 key=%d%s%s" % (k0, " ctick=100 ctimeout=2000" if bgd else "", mc(0)), "node 1 key=%d%s%s" % (k1, " ctick=100 ctimeout=2000" if bgd else "", mc(1)), "idlt 0 1"]
        if bgd:
            cmds.append("sleep 1")     # the managers start and take their first (immediate) tick; the next ones come at 100 ms, 200 ms, ...
        cmds += [first]
        if stagger:
            cmds.append("sleep %d" % stagger)
        cmds += [second] + (["join a"] if 0 not in bgd else []) + (["join b"] if 1 not in bgd else []) + ["sleep %d" % (1200 if real else 3000),
                 "peers 0", "peers 1", "events 0", "events 1",
                 "rpc 0 1 id=x size=100", "rpc 1 0 id=y size=100",
                 "sleep %d" % (800 if real else 5000), "events 0", "events 1", "peers 0", "peers 1", "ranks", "trace active"]
        scen.append("simnet " + " ; ".join(cmds))
    outs, parsed = run_scenarios(chk, scen, "fabric:mutual-dial")
    # both sides' recorded active-peer histories (with the pre-state every operation saw) replayed on ActivePeers.v
    hcases, hmeta = [], []
    for k, res in enumerate(parsed):
        if res is None:
            continue
        hists, rank = ap_histories(res[-1], res[-2], [0, 1])
        for own, live, h in (hists or []):
            hcases.append(h)
            hmeta.append((k, own, rank))
    for (k, own, rank), h, m in zip(hmeta, hcases, run_model(hcases)):
        chk.evaluations += 1
        chk.count("active-peer-history-ops", len(h.split()) - 1)
        res, sc = parsed[k], scen[k]
        cmds = [c.strip() for c in sc[len("simnet "):].split(" ; ")][1:]
        inv = dict((v, kk) for kk, v in rank.items())
        ml = re.search(r"L=\[(.*?)\] ev=(.*)$", m)
        if not m.startswith("accepted") or not ml:
            chk.disagree(sc, "node %d active-peer history: %s" % (own, h[:2000]), "ActivePeers.v: " + m[:600], "simnet/aphist")
            continue
        mlist = sorted(str(inv[int(x)]) for x in ml.group(1).split(",") if x)
        mev = ["%s%d%s" % (e[0], inv[int(e[1:].split(":")[0])], (":" + REASONS[int(e.split(":")[1])]) if ":" in e else "") for e in ml.group(2).split(",") if e]
        evs = [e for c, x in zip(cmds, res) if c == "events %d" % own for e in x.strip("[]").split(",") if e and e != "END"]
        final_listing = sorted(x for x in [x for c, x in zip(cmds, res) if c == "peers %d" % own][-1].strip("[]").split(",") if x)
        if mlist != final_listing or (not any(e.startswith("LAG") for e in evs) and mev != evs):
            chk.disagree(sc, "node %d: final listing %s events %s" % (own, final_listing, evs), "ActivePeers.v on its recorded history: listing %s events %s" % (mlist, mev), "simnet/aphist-observables")
    for sc, o, res in zip(scen, outs, parsed):
        if res is None:
            continue
        chk.nontriv(sc)
        cmds = [c.strip() for c in sc[len("simnet "):].split(" ; ")][1:]
        r = dict()
        for c, x in zip(cmds, res):
            r.setdefault(c, []).append(x)
        lt = r["idlt 0 1"][0] == "1"
        ja, jb = r.get("join a", ["ok 1"])[0], r.get("join b", ["ok 0"])[0]
        if "join a" not in r or "join b" not in r:
            chk.count("mutual-dial-with-background-dial")
        if " ip=" in sc:
            chk.count("mutual-dial-through-a-second-address")
        limited = " maxconn=1" in sc
        if limited:
            chk.count("mutual-dial-with-a-connection-limit-of-1")
        if limited and (ja.startswith("ok 1") or jb.startswith("ok 0")) and not (ja.startswith("ok") and not ja.startswith("ok 1")) and not (jb.startswith("ok") and not jb.startswith("ok 0")):
            pass          # one of the two dials may be refused by the limit
        elif not ja.startswith("ok 1") or not jb.startswith("ok 0"):
            chk.monitor_fail("a simultaneous dial failed or returned the wrong identity: %s / %s" % (ja, jb), dict(case=sc, impl=o[:800]))
            continue
        if r["peers 0"] != ["[1]", "[1]"] or r["peers 1"] != ["[0]", "[0]"]:
            chk.monitor_fail("after mutual dials the two sides do not list each other exactly once: %s %s" % (r["peers 0"], r["peers 1"]), dict(case=sc, impl=o[:800]))
            continue
        x01, x10 = r["rpc 0 1 id=x size=100"][0], r["rpc 1 0 id=y size=100"][0]
        if not x01.startswith("ok st=200") or not x10.startswith("ok st=200"):
            chk.monitor_fail("RPC over the surviving connection failed: %s / %s" % (x01, x10), dict(case=sc, impl=o[:800]))
            continue
        if r["events 0"][1] != "[]" or r["events 1"][1] != "[]":
            chk.monitor_fail("further connect/disconnect events after the network went quiet: %s %s" % (r["events 0"][1], r["events 1"][1]), dict(case=sc, impl=o[:800]))
        # "both sides keep the same single connection and drop the other": a third connection between the pair means that
        # both were dropped (a side may be unlisted for a moment when the other replaced the connection it had registered
        # first and the winning one has not arrived yet: that is one of the legal orders)
        adds_total = len(re.findall(r"active,inst=[0-9a-fx]+,add,", res[-1]))
        if adds_total > 4:
            chk.monitor_fail("%d connections were made for one mutual dial (the pair dropped both of the two dials and dialed again)" % ((adds_total + 1) // 2), dict(case=sc, impl=o[:800]))
            continue
        # events so far alternate and end listed
        for k in ("events 0", "events 1"):
            evs = [e for e in r[k][0].strip("[]").split(",") if e]
            listed = False
            for e in evs:
                if e[0] == "+" and listed or e[0] == "-" and not listed:
                    chk.monitor_fail("events do not alternate: %s" % evs, dict(case=sc, impl=o[:800]))
                listed = e[0] == "+"
            if not listed:
                chk.monitor_fail("event stream does not end with NewPeer although the peer is listed", dict(case=sc, impl=o[:800]))
        # survivor = the connection dialed by the greater identity (model: MutualDial.survivor)
        o1 = fields(x01)["origin"]   # origin of node 1's connection to 0, as seen by its handler
        o0 = fields(x10)["origin"]
        want1 = "out" if lt else "in"   # id0 < id1: node 1 dialed the survivor
        want0 = "in" if lt else "out"
        # a background dial is not made when the peer is already connected by then: with a single connection there is no tie to break
        adds = len(re.findall(r"active,inst=[0-9a-fx]+,add,", res[-1]))
        if limited:
            # which of the two survives may be decided by the limit, not by the tie-break alone: MutualDialLimit.possible_survivors
            # (node 0 = A dials X, node 1 = B dials Y; o1 = "out" means node 1 dialed the survivor)
            lim_node = "A" if " maxconn=1" in cmds[0] else "B"
            got = "Y" if o1 == "out" else "X"
            poss = LIMIT_SURVIVORS.get((lim_node, lt))
            if poss is None:
                poss = LIMIT_SURVIVORS[(lim_node, lt)] = run_model(["mdlimit %s %d" % (lim_node, lt)])[0].split(",")
            chk.evaluations += 1
            chk.count("limited-pair-survivor:%s-of-%s" % (got, "".join(poss)))
            if o0 == o1:
                chk.monitor_fail("the two ends of the surviving connection report the same origin (%s)" % o0, dict(case=sc, impl=o[:800]))
            elif got not in poss:
                chk.disagree(sc, "limit at %s, id(A)<id(B)=%s: connection %s survived" % (lim_node, lt, got), "MutualDialLimit.possible_survivors: %s" % poss, "simnet/mutual-dial-limit")
            continue
        if adds < 4:
            chk.count("second-dial-not-made (peer already connected)")
            if o0 == o1:
                chk.monitor_fail("the two ends of the only connection report the same origin (%s)" % o0, dict(case=sc, impl=o[:800]))
            continue
        if o1 != want1 or o0 != want0:
            chk.monitor_fail("the surviving connection is not the one dialed by the greater identity (origins %s/%s, expected %s/%s)" % (o0, o1, want0, want1), dict(case=sc, impl=o[:800]))
    if outs:
        chk.sample(dict(case=scen[0][:300], impl=outs[0][:500]))


def c05_inflight(chk):
    """One dial completes and the application uses the connection at once (a call that stays in flight); then the other side's
    dial completes.  Whichever connection the tie-break keeps, the pair ends with that one connection: the fate of the call
    on the replaced connection changes nothing about the survivor."""
    scen = []
    for i in range(6 if chk.tier == "quick" else 40):
        rng = chk.rng
        k0, k1 = rng.randrange(1, 10**6), rng.randrange(1, 10**6)
        a, b = (0, 1) if i % 2 == 0 else (1, 0)
        via = "" if i % 3 else " ip=2"
        cmds = ["seed=%d delay=%d" % (rng.randrange(1 << 30), rng.choice([100, 1000, 5000])), "node 0 key=%d" % k0, "node 1 key=%d" % k1, "idlt 0 1",
                "connect %d %d" % (a, b), "sleep 100", "bg f1 rpc %d %d id=f1 size=10 sleep-ms=2000" % (a, b), "bg f2 rpc %d %d id=f2 size=10 sleep-ms=2000" % (b, a), "sleep %d" % rng.choice([0, 1, 20]),
                "connect %d %d%s" % (b, a, via), "join f1 600000", "join f2 600000", "sleep 3000", "peers 0", "peers 1", "events 0", "events 1",
                "rpc 0 1 id=x size=100", "rpc 1 0 id=y size=100", "sleep 5000", "events 0", "events 1", "peers 0", "peers 1"]
        scen.append("simnet " + " ; ".join(cmds))
    outs, parsed = run_scenarios(chk, scen, "fabric:mutual-dial-with-a-call-in-flight")
    for sc, o, res in zip(scen, outs, parsed):
        if res is None:
            continue
        chk.nontriv(sc)
        cl = [c.strip() for c in sc[len("simnet "):].split(" ; ")][1:]
        r = {}
        for c, x in zip(cl, res):
            r.setdefault(c, []).append(x)
        chk.count("in-flight-call-on-the-first-connection:" + ("completed" if r["join f1 600000"][0].startswith("ok") else "failed"))
        if r["peers 0"] != ["[1]", "[1]"] or r["peers 1"] != ["[0]", "[0]"]:
            chk.monitor_fail("two dials, one after the other, with calls in flight on the first connection: afterwards the two sides do not list each other exactly once: %s %s" % (r["peers 0"], r["peers 1"]), dict(case=sc, impl=o[:900]))
        elif not r["rpc 0 1 id=x size=100"][0].startswith("ok st=200") or not r["rpc 1 0 id=y size=100"][0].startswith("ok st=200"):
            chk.monitor_fail("RPC over the surviving connection failed: %s / %s" % (r["rpc 0 1 id=x size=100"][0][:30], r["rpc 1 0 id=y size=100"][0][:30]), dict(case=sc, impl=o[:900]))
        elif r["events 0"][1] != "[]" or r["events 1"][1] != "[]":
            chk.monitor_fail("further connect/disconnect events after the network went quiet: %s %s" % (r["events 0"][1], r["events 1"][1]), dict(case=sc, impl=o[:900]))


def c13(chk):
    """Background dialing of a whole network over the fabric, tick by tick, against Dialer.v."""
    quick = chk.tier == "quick"
    P = 1000  # ms
    scen, models, metas = [], [], []
    n = 44 if quick else 400
    for i in range(n):
        rng = chk.rng
        k = rng.randrange(1, 5)
        ticks = rng.choice([8, 12, 20]) if quick else rng.choice([12, 20, 40])
        step = rng.choice([500, 1000, 1500, 2500])
        maxb = rng.choice([1000, 3000, 6000])
        cap_binds = rng.random() < 0.15
        maxout = rng.choice([1, 2]) if cap_binds else 100
        # the first few scenarios are fixed in kind: a small cap, some High peers without any address and some with one
        # (all up): the address-less ones are not due and must not stand in the way of the others
        forced = i < (10 if quick else 40)
        visiting = (10 if quick else 40) <= i < (13 if quick else 60)
        if forced:
            k = rng.randrange(3, 6)
            cap_binds, maxout = True, rng.choice([1, 1, 2])
            n_less = rng.randrange(1, k) if i % 2 else k - 1        # (the order in which the table is walked differs from run to run)
        # in a third of the scenarios the dialing node has a connection limit which unknown peers fill (or which is 0):
        # the limit governs inbound admission only, background dialing goes on as without it (Dialer.v has no limit)
        limit = rng.choice([0, 1, 2]) if rng.random() < 0.35 else None
        if (10 if quick else 40) <= i < (13 if quick else 60):
            limit = None
        cmds = ["seed=%d delay=%d" % (rng.randrange(1 << 30), rng.choice([200, 1000, 5000])),
                "node 0 ctick=%d ctimeout=400 backoff=%d maxbackoff=%d maxout=%d idle=600000%s" % (P, step, maxb, maxout, " maxconn=%d" % limit if limit is not None else "")]
        known_m = []
        up0 = {}
        for j in range(1, k + 1):
            up0[j] = rng.random() < 0.75 or forced or (visiting and j == 1)
            cmds.append("node %d key=%d idle=600000" % (j, 100 + j))
        for j in range(1, k + 1):
            if not up0[j]:
                cmds.append("drop %d" % j)
        for j in range(1, k + 1):
            aff = rng.choice(["high", "high", "high", "allowed", "never"])
            addrs = []
            for _ in range(rng.choice([0, 1, 1, 2, 3])):
                r = rng.random()
                if r < 0.55:
                    addrs.append(("%d" % j, j))
                elif r < 0.85:
                    b = 100 + rng.randrange(5)
                    addrs.append(("p%d" % (b - 91), b))
                else:
                    o = rng.randrange(1, k + 1)
                    addrs.append(("%d" % o, o if o == j else 200 + o))  # another peer's address: identity mismatch
            if forced:
                aff, addrs = "high", ([] if j <= n_less else [("%d" % j, j)])
            if visiting and j == 1:
                # scenarios of a fixed kind (the three after the forced ones): peer 1 is up, High, and known under dead addresses only
                aff, addrs = "high", [("p%d" % (b - 91), b) for b in rng.sample([100, 101, 102, 103, 104], rng.choice([1, 2]))]
            cmds.append("known 0 %d %s addr=%s" % (j, aff, ",".join(a for a, _ in addrs) or "none"))
            known_m.append("%d:%s:%s" % (j, aff, ",".join(str(m) for _, m in addrs)))
        if rng.random() < 0.3 and not forced:
            cmds.append("known 0 0 high addr=self")
            known_m.append("0:high:0")
        cmds += ["sleep 10", "trace dial", "peers 0"]
        for f in range(limit or 0):
            cmds += ["node %d key=%d idle=600000" % (50 + f, 150 + f), "connect %d 0" % (50 + f)]
        avail = ["0:%d:down" % j for j in range(1, k + 1) if not up0[j]]
        up = dict(up0)
        # a High peer that is up but known under dead addresses only: its background dials keep failing (back-off running)
        # while the peer itself dials in and leaves again between two checks - which changes nothing about the back-off
        vis = [j for j in range(1, k + 1) if up0[j] and known_m[j - 1].split(":")[1] == "high" and known_m[j - 1].split(":")[2]
               and all(int(a) >= 100 and int(a) < 200 for a in known_m[j - 1].split(":")[2].split(","))] if not forced and limit is None else []
        visitor = 1 if (visiting and 1 in vis) else rng.choice(vis) if vis and rng.random() < 0.7 else None
        for t in range(1, ticks):
            if visitor is not None and t in (1, 2, 4) and up[visitor]:
                # (490 ms in all, plus the few ms the handshake takes: the observation points may drift later, never earlier)
                cmds += ["sleep 150", "connect %d 0" % visitor, "sleep 100", "disconnect %d 0" % visitor, "sleep 240"]
            else:
                cmds.append("sleep 490")
            for j in range(1, k + 1):
                if rng.random() < 0.12 and j != visitor:
                    at = (t - 1) * P + 500
                    if up[j]:
                        cmds.append("drop %d" % j)
                        avail.append("%d:%d:down" % (at, j))
                    else:
                        cmds.append("node %d key=%d idle=600000 fport=%d" % (j, 100 + j, j))
                        avail.append("%d:%d:up" % (at, j))
                    up[j] = not up[j]
            cmds += ["sleep 510", "trace dial", "peers 0"]
        scen.append("simnet " + " ; ".join(cmds))
        models.append("dialer own=0 step=%d maxb=%d maxout=%d P=%d ticks=%d | %s | %s"
                      % (step, maxb, maxout, P, ticks, ";".join(known_m), " ".join(avail)))
        metas.append(dict(k=k, ticks=ticks, cap=cap_binds, maxout=maxout, known=known_m, limit=limit, visitor=visitor))
    # second family: the outstanding-connection cap against connections being established for OTHER reasons.
    # k identical High peers that are always down (so counts do not depend on which of them the hash order picks),
    # E_i explicit connects to a silent address issued 100 ms before tick i (pending at the tick, gone 300 ms later)
    for i in range(10 if quick else 120):
        rng = chk.rng
        k = rng.randrange(2, 5)
        M = rng.randrange(1, 4)
        ticks = rng.choice([8, 12, 20])
        step = rng.choice([500, 1500])
        maxb2 = step * rng.choice([1, 3, 6])      # growing backoff: a peer deferred by the cap must keep its failure count
        cmds = ["seed=%d delay=200" % rng.randrange(1 << 30),
                "node 0 ctick=%d ctimeout=400 backoff=%d maxbackoff=%d maxout=%d idle=600000" % (P, step, maxb2, M)]
        known_m = []
        for j in range(1, k + 1):
            cmds += ["node %d key=%d idle=600000" % (j, 100 + j), "drop %d" % j]
        for j in range(1, k + 1):
            cmds.append("known 0 %d high addr=%d" % (j, j))
            known_m.append("%d:high:%d" % (j, j))
        cmds += ["sleep 10", "trace dial", "peers 0"]
        ext = {}
        for t in range(1, ticks):
            e = rng.randrange(0, M + 2) if rng.random() < 0.6 else 0
            cmds.append("sleep 900")
            for x in range(e):
                cmds.append("bg x%d_%d connect 0 9 port=9" % (t, x))
            if e:
                ext[t] = e
            cmds += ["sleep 100", "trace dial", "peers 0"]
        scen.append("simnet " + " ; ".join(cmds))
        models.append("dialer own=0 step=%d maxb=%d maxout=%d P=%d ticks=%d ext=%s | %s | %s"
                      % (step, maxb2, M, P, ticks, ",".join("%d:%d" % kv for kv in sorted(ext.items())) or "-", ";".join(known_m),
                         " ".join("0:%d:down" % j for j in range(1, k + 1))))
        metas.append(dict(k=k, ticks=ticks, cap=True, maxout=M, known=known_m, ext=ext))
    outs, parsed = run_scenarios(chk, scen, "fabric:dialer")
    mouts = run_model(models)
    for sc, mc, o, res, mo, meta in zip(scen, models, outs, parsed, mouts, metas):
        if res is None:
            continue
        cmds = [c.strip() for c in sc[len("simnet "):].split(" ; ")][1:]
        ports = {}
        per_tick = []
        peers_tick = []
        for c, x in zip(cmds, res):
            if c.startswith("node ") and x.startswith("ok"):
                ports[x.split()[2]] = int(c.split()[1])
            if c == "trace dial":
                ds = []
                for line in x.strip("[]").split("|"):
                    m = re.search(r"peer=Some\(PeerId\(n(\d+)\)\),address=SocketAddr\(127\.0\.0\.1:(\d+)\)", line)
                    if m:
                        port = m.group(2)
                        ds.append((int(m.group(1)), port))
                per_tick.append(ds)
            if c == "peers 0":
                peers_tick.append(x)
        aff = {int(e.split(":")[0]): e.split(":")[1] for e in meta["known"]}
        naddr = {int(e.split(":")[0]): len([a for a in e.split(":")[2].split(",") if a]) for e in meta["known"]}
        mt = mo.split()
        ok_case = True
        for i, ds in enumerate(per_tick):
            # model-independent monitors
            for p, port in ds:
                if p == 0 or aff.get(p) != "high" or naddr.get(p, 0) == 0:
                    chk.monitor_fail("background dial to an ineligible peer (self / not High / no address): peer %d at tick %d" % (p, i), dict(case=sc, impl=str(per_tick)[:600]))
                    ok_case = False
            if i == 0 and "ext" not in meta:
                # at the first check nothing is connected, pending or backing off: every High-affinity peer with an address is
                # due, and as many of them as the cap allows must be dialed
                due = [e for e in meta["known"] if e.split(":")[1] == "high" and e.split(":")[2] and int(e.split(":")[0]) != 0]
                if len(ds) != min(len(due), meta["maxout"]):
                    chk.monitor_fail("first connectivity check: %d peer(s) are due (High affinity, with an address), the cap is %d, but %d dial(s) were started" % (len(due), meta["maxout"], len(ds)), dict(case=sc, impl=str(per_tick)[:400]))
                    ok_case = False
            if len(ds) + meta.get("ext", {}).get(i, 0) > meta["maxout"] and len(ds) > 0:
                chk.monitor_fail("%d background dial(s) started at tick %d while %d other connection(s) were being established: more than max outstanding (%d)" % (len(ds), i, meta.get("ext", {}).get(i, 0), meta["maxout"]), dict(case=sc))
                ok_case = False
            if len(set(p for p, _ in ds)) != len(ds):
                chk.monitor_fail("a peer was dialed twice in one check", dict(case=sc, impl=str(ds)))
                ok_case = False
            if i > 0:
                listed = peers_tick[i - 1].strip("[]").split(",")
                for p, _ in ds:
                    if str(p) in listed and str(p) in peers_tick[i].strip("[]").split(","):
                        pass  # may have been lost and re-established within the tick; not decidable here
        # rotation and backoff restated on the implementation's own observations: after k consecutive
        # failed attempts (the peer did not become listed) the next attempt uses address k mod n and comes
        # no sooner than min(max, k*step) after the tick that noticed the k-th failure
        cfg = dict(x.split("=") for x in mc.split("|")[0].split()[1:])
        stepb, maxb, P = int(cfg["step"]), int(cfg["maxb"]), int(cfg["P"])
        addrs = {int(e.split(":")[0]): [a for a in e.split(":")[2].split(",") if a] for e in meta["known"]}
        fails, last_dial, overdue = {}, {}, {}
        # scripted availability: up[j] at the instant of tick i (changes happen half a period earlier)
        upnow = {}
        changes = {}
        for e in mc.split("|")[2].split():
            at, j, st = e.split(":")
            changes.setdefault(int(at), []).append((int(j), st == "up"))
        def is_up(j, t_ms):
            st = True
            for at in sorted(changes):
                if at <= t_ms:
                    for jj, u in changes[at]:
                        if jj == j:
                            st = u
            return st
        def norm(pt):
            pt = int(pt)
            return str(91 + pt) if pt < 100 else None
        for i, ds in enumerate(per_tick):
            for p, port in ds:
                k = fails.get(p, 0)
                want = addrs[p][k % len(addrs[p])] if addrs.get(p) else None
                got = norm(port) or next((str(j if j == p else 200 + j) for prt, j in ports.items() if int(prt) == int(port)), "?")
                if want is not None and got != want and not meta["cap"]:
                    chk.monitor_fail("peer %d: attempt after %d consecutive failure(s) used address %s, rotation requires %s (addresses %s)" % (p, k, got, want, addrs[p]),
                                     dict(case=sc, tick=i, dials=str(per_tick)[:600]))
                    ok_case = False
                if p in last_dial and k > 0:
                    earliest = last_dial[p] * P + min(maxb, k * stepb)
                    if i * P < earliest:
                        chk.monitor_fail("peer %d: attempt at t=%d ms although its %d-th consecutive failure (attempt at %d ms) requires waiting at least min(%d, %d*%d) ms" % (p, i * P, k, last_dial[p] * P, maxb, k, stepb),
                                         dict(case=sc, tick=i, dials=str(per_tick)[:600]))
                        ok_case = False
                last_dial[p] = i
                overdue.pop(p, None)
                # outcome by the script: the attempt succeeds iff it went to the peer's own address while the peer is up
                if got == str(p) and is_up(p, i * P):
                    fails[p] = 0
                else:
                    fails[p] = k + 1
                    # the failure is handled within the connect timeout (400 ms); the next attempt is due at the
                    # first check after min(max, k*step) more, so certainly within one further period
                    overdue[p] = i * P + 400 + min(maxb, (k + 1) * stepb) + P
            if not meta["cap"]:
                for p, due in list(overdue.items()):
                    if i * P > due and aff.get(p) == "high":
                        chk.monitor_fail("peer %d: no attempt by t=%d ms although its %d consecutive failure(s) (last attempt at %d ms) allow one from %d ms on" % (p, i * P, fails[p], last_dial[p] * P, due - P),
                                         dict(case=sc, tick=i, dials=str(per_tick)[:600]))
                        ok_case = False
                        overdue.pop(p)
        if not ok_case:
            continue
        chk.nontriv(sc)
        if meta.get("limit") is not None:
            chk.count("dialing-node-at-connection-limit:%d" % meta["limit"])
        if meta.get("visitor") is not None:
            chk.count("backing-off-peer-dials-in-between-checks")
        # model comparison: per tick, the set of (peer, address)
        def norm_port(p, port):
            port = int(port)
            if port < 100:
                return 91 + port          # p9.. -> 100..
            j = ports.get(str(port))
            if j is None:
                return -1
            return j if j == p else 200 + j
        for i, ds in enumerate(per_tick):
            if i >= len(mt):
                break
            f = mt[i].split(":")
            mds = set(x for x in f[1].split(",") if x)
            ids = set("%d@%d" % (p, norm_port(p, port)) for p, port in ds)
            if "ext" in meta:
                # identical peers: the number of dials per tick is determined although their choice is not
                if len(ids) != len(mds):
                    chk.disagree(mc, "tick %d: %d dial(s) (all: %s)" % (i, len(ids), [len(x) for x in per_tick]), "tick %d: %d dial(s) (all: %s)" % (i, len(mds), mo), "simnet/dialer-outstanding")
                    break
                continue
            if meta["cap"]:
                elig = set(x for x in f[2][1:].split(",") if x)
                if not set(str(p) for p, _ in ds) <= elig or len(ds) != min(len(elig), meta["maxout"]):
                    chk.disagree(mc, "tick %d dials %s" % (i, sorted(ids)), "eligible %s cap %d" % (sorted(elig), meta["maxout"]), "simnet/dialer-cap")
                break   # which peers were taken is unspecified (hash order): later ticks diverge
            if ids != mds:
                chk.disagree(mc, "tick %d: %s (all: %s)" % (i, sorted(ids), per_tick), "tick %d: %s (all: %s)" % (i, sorted(mds), mo), "simnet/dialer")
                break
    if outs:
        chk.sample(dict(case=scen[0][:400], impl=outs[0][:400], model=mouts[0][:300]))


# ------------------------------------------------------------------ sequential network scripts (NetModel.v)

def gen_netscript(rng, nn, length, w):
    """Random op list over nodes 1..nn. w: weights dict for emphasis. Returns (node specs, ops)."""
    names = [10, 10, 10, 20] if w.get("names") else [10]
    nodes = {}
    for i in range(1, nn + 1):
        name = rng.choice(names)
        alt = rng.choice([None, None, 10, 20, 30]) if w.get("names") else None
        if alt == name:
            alt = None
        limit = rng.choice([None, None, 0, 1, 2, 3]) if w.get("limits") else None
        nodes[i] = (name, alt, limit)
    ops = []
    cut = set()
    def pair():
        a = rng.randrange(1, nn + 1)
        b = rng.choice([x for x in range(1, nn + 1) if x != a])
        return a, b
    i = 0
    while i < length:
        r = rng.random()
        if r < w.get("fault", 0.0):
            # fault block: partition(s), ops under the cut, heal, quiesce
            a, b = pair()
            ops.append(("P", a, b))
            for _ in range(rng.randrange(0, 3)):
                k = rng.random()
                if k < 0.35:
                    ops.append(("X", a, b) if rng.random() < 0.5 else ("X", b, a))
                elif k < 0.6:
                    ops.append(("R", rng.choice([a, b])))
                elif k < 0.8:
                    ops.append(("D", a, b) if rng.random() < 0.5 else ("D", b, a))
                else:
                    ops.append(("Q",))
            if rng.random() < 0.8:
                ops.append(("H", a, b))
            ops.append(("Q",))
            if ("H", a, b) != ops[-2]:
                ops.append(("H", a, b))
                ops.append(("Q",))
            i += 3
            continue
        if rng.random() < w.get("selfdial", 0.0):
            # a node dials its own address (with or without naming itself): outside NetModel.v, judged by the C03 monitors only
            a = rng.randrange(1, nn + 1)
            ops.append(("DS", a, rng.random() < 0.5))
            i += 1
            continue
        if rng.random() < w.get("quickclose", 0.0):
            # a connection ended by its dialer the moment the dial returns (disconnect, or the dialer restarts): the other
            # side may still be registering it
            a, b = pair()
            ops.append(("D", a, b, b, "now"))
            ops.append(("X", a, b) if rng.random() < 0.7 else ("R", a))
            ops.append(("Q",))
            i += 2
            continue
        if rng.random() < w.get("inflight", 0.0):
            # a long-polling call: a's request stays inside b's handler far longer than the script lasts, so whatever
            # ends the connection later finds work in flight on it (no effect on the connection views: NetModel no-op)
            a, b = pair()
            if rng.random() < 0.3:
                ops.append(("W", a, b))
                i += 1
                continue
            # mostly as a block: connect, start the call (either direction), end the connection one way or another
            ops.append(("D", a, b))
            ops.append(("W", a, b) if rng.random() < 0.5 else ("W", b, a))
            k = rng.random()
            if k < 0.4:
                ops.append(("X", a, b) if rng.random() < 0.5 else ("X", b, a))
            elif k < 0.6:
                ops.append(("R", rng.choice([a, b])))
            elif k < 0.8:
                ops += [("P", a, b), ("Q",), ("H", a, b)]
            else:
                ops.append(("D", b, a))
            ops.append(("Q",))
            i += 3
            continue
        if r < w.get("fault", 0.0) + 0.5:
            a, b = pair()
            if rng.random() < w.get("pin", 0.1):
                x = rng.choice(list(range(1, nn + 1)) + [b, b])
                ops.append(("D", a, b, x))
            else:
                ops.append(("D", a, b))
        elif r < w.get("fault", 0.0) + 0.65:
            a, b = pair()
            ops.append(("X", a, b))
        elif r < w.get("fault", 0.0) + 0.65 + w.get("known", 0.1):
            a, b = pair()
            ops.append(("K", a, b, rng.choice(["high", "allowed", "never", "none"])))
        elif r < w.get("fault", 0.0) + 0.65 + w.get("known", 0.1) + w.get("restart", 0.05):
            ops.append(("R", rng.randrange(1, nn + 1)))
        else:
            ops.append(("Q",))
        i += 1
    ops.append(("Q",))
    return nodes, ops


def net_scenario(rng, nodes, ops, default_idle=False):
    """default_idle: a QuicConfig is supplied but its idle timeout is left unset on every node, so the
    transport's own default (30 s) is the idle timeout in force; quiet periods are stretched to match."""
    nn = len(nodes)
    # idle timeout 10 s against cuts of at most 2.6 s that are healed (two failing dials under the cut): with 3 s the
    # retransmission back-off after such a cut sometimes outlasted the idle timer (7 of 40 runs), which NetModel's
    # "a healed cut shorter than the idle timeout loses nothing" does not describe
    timing = "keepalive=5000" if default_idle else "idle=10000 keepalive=1000"
    quiet = 36000 if default_idle else 13000
    def nodecmd(i, restart=False):
        name, alt, limit = nodes[i]
        c = "node %d key=%d name=n%d %s ctimeout=1000" % (i, 10 + i, name, timing)
        if alt is not None:
            c += " alt=n%d" % alt
        if limit is not None:
            c += " maxconn=%d" % limit
        if restart:
            c += " fport=%d" % i
        return c
    cmds = ["seed=%d delay=%d" % (rng.randrange(1 << 30), rng.choice([500, 1000, 3000]))]
    cmds += [nodecmd(i) for i in range(1, nn + 1)]
    marks = []   # (op index, position of first 'peers' result, rpc positions)
    polling = {}  # caller -> long-polling calls it has pending
    for oi, op in enumerate(ops):
        k = op[0]
        pos_res = None
        if k == "D":
            pos_res = len(cmds)
            cmds.append("connect %d %d%s" % (op[1], op[2], " pin=%d" % op[3] if len(op) > 3 else ""))
            if len(op) <= 4:
                cmds.append("sleep 300")       # ("D", a, b, pin, "now"): the next operation follows at once
        elif k == "DS":
            pos_res = len(cmds)
            cmds.append("connect %d %d%s" % (op[1], op[1], " pin=%d" % op[1] if op[2] else ""))
            cmds.append("sleep 1500")      # both ends of a connection to oneself meet in one active-peer set and one of them closes it
        elif k == "W":
            cmds += ["bg w%d rpc %d %d id=w%d size=10 sleep-ms=3000000" % (oi, op[1], op[2], oi), "sleep 300"]
            polling.setdefault(op[1], []).append(oi)
        elif k == "X":
            cmds += ["disconnect %d %d" % (op[1], op[2]), "sleep 300"]
        elif k == "R":
            # a pending call borrows its network's handle: the caller abandons its calls before dropping the last handle
            cmds += ["cancel w%d" % j for j in polling.pop(op[1], [])]
            cmds += ["drop %d" % op[1], "sleep 200", nodecmd(op[1], True), "sleep 300"]
        elif k == "K":
            if op[3] == "none":
                cmds.append("unknown %d %d" % (op[1], op[2]))
            else:
                # no address for High entries: background dialing is C13's subject, not this model's
                cmds.append("known %d %d %s%s" % (op[1], op[2], op[3], " addr=none" if op[3] == "high" else ""))
        elif k == "P":
            cmds.append("part %d %d" % (op[1], op[2]))
        elif k == "H":
            cmds.append("heal %d %d" % (op[1], op[2]))
        elif k == "Q":
            cmds.append("sleep %d" % quiet)
        ppos = len(cmds)
        cmds += ["peers %d" % i for i in range(1, nn + 1)]
        rpcs = []
        if k == "Q":
            for a in range(1, nn + 1):
                for b in range(1, nn + 1):
                    if a != b:
                        rpcs.append((a, b, len(cmds)))
                        cmds.append("rpc %d %d id=q%d size=50" % (a, b, oi))
        marks.append((oi, pos_res, ppos, rpcs))
    cmds += ["cancel w%d" % j for js in polling.values() for j in js]
    epos = len(cmds)
    cmds += ["events %d" % i for i in range(1, nn + 1)]
    cmds += ["ranks", "trace active"]
    return "simnet " + " ; ".join(cmds), marks, epos


def model_case(nodes, ops):
    spec = ";".join("%d:%d:%s:%s" % (i, n, "-" if a is None else a, "-" if l is None else l) for i, (n, a, l) in sorted(nodes.items()))
    toks = []
    for op in ops:
        if op[0] == "DS":
            toks.append("K %d %d none" % (op[1], op[1]))     # not modelled: a no-op keeps the op lists aligned
            continue
        toks.append(" ".join(str(x) for x in op[:4]))
    return "netmodel %s | %s" % (spec, " / ".join(toks))


REASONS = ["Requested", "VersionMismatch", "TransportError", "ConnectionClosed", "ApplicationClosed", "Reset", "TimedOut", "LocallyClosed"]


def ap_histories(trace, ranks, starts):
    """Splits the 'active' trace of a whole-network run by ActivePeers instance and translates each
    into an `aphist` model case.  `starts` = the node index of every node start of the scenario, in order:
    every start creates one instance and subscribes to it at once, so the k-th instance to appear in the
    trace belongs to the k-th start.  Returns [(own node, is the node's last incarnation, model case)]."""
    rank = dict((int(a), int(b)) for a, b in (x.split(":") for x in ranks.split(",") if x))
    def rk(name):
        n = name.lstrip("n")
        return str(rank[int(n)]) if n.isdigit() and int(n) in rank else "250"
    def oid(x):
        return "-" if x == "None" else x[5:-1]
    inst, order, gen = {}, [], {}
    for l in trace.strip("[]").split("|"):
        f = l.split(",")
        if len(f) < 4 or f[1] != "active":
            continue
        kv = dict(x.split("=", 1) for x in f[4:] if "=" in x)
        # a node start subscribes exactly once, at once (nothing else subscribes in these scripts): a
        # subscribe line opens a new instance even when the allocator reuses a freed instance's address
        if f[3] == "subscribe":
            gen[f[2]] = gen.get(f[2], 0) + 1
        key = (f[2], gen.get(f[2], 0))
        if key not in inst:
            inst[key] = dict(ops=[])
            order.append(key)
        h = inst[key]
        if f[3] == "add":
            ex = re.search(r"existing=Some\(\((\d+)", l)
            h["ops"].append("A:%s:%s:%s:%s:%s" % (rk(kv["own"]), rk(kv["peer"]), kv["id"], "o" if "Outbound" in kv["origin"] else "i", ex.group(1) if ex else "-"))
        elif f[3] == "remove":
            h["ops"].append("R:%s:%d:%d" % (rk(kv["peer"]), REASONS.index(kv["reason"]), kv["present"] == "true"))
        elif f[3] == "remove_stable":
            h["ops"].append("S:%s:%s:%d:%s" % (rk(kv["peer"]), kv["id"], REASONS.index(kv["reason"]), oid(kv["current"])))
    if len(order) != len(starts):
        return None, rank
    out = []
    for k, i in enumerate(order):
        own = starts[k]
        out.append((own, own not in starts[k + 1:], "aphist " + " ".join(inst[i]["ops"])))
    return out, rank


def run_netscripts(chk, n, nn_choices, length, weights, tag, extra_monitor=None, focus="all", fixed=()):
    """Runs sequential scripts on fabric and model; compares dial results at every Dial and
    listings / reachability at every Quiesce. Returns per-script records for extra monitors."""
    scen, models, metas = [], [], []
    # fixed = scripts given by the caller (nodes, ops), run in front of the random ones
    for nodes, ops in fixed:
        sc, marks, epos = net_scenario(chk.rng, nodes, ops, False)
        scen.append(sc)
        models.append(model_case(nodes, ops))
        metas.append((nodes, ops, marks, epos))
    for _ in range(n):
        rng = chk.rng
        nn = rng.choice(nn_choices)
        nodes, ops = gen_netscript(rng, nn, length(rng), weights)
        default_idle = rng.random() < weights.get("default_idle", 0.0)
        if default_idle or (weights.get("default_idle") and rng.random() < 0.3):
            # a silent loss: an established connection is cut for a whole quiet period, then the cut is healed
            a = rng.randrange(1, nn + 1)
            b = rng.choice([x for x in range(1, nn + 1) if x != a])
            ops = ops + [("D", a, b), ("P", a, b), ("Q",), ("H", a, b), ("Q",)]
        sc, marks, epos = net_scenario(rng, nodes, ops, default_idle)
        scen.append(sc)
        models.append(model_case(nodes, ops))
        metas.append((nodes, ops, marks, epos))
    outs, parsed = run_scenarios(chk, scen, tag)
    mouts = run_model(models)
    records = []
    for sc, mc, o, res, mo, (nodes, ops, marks, epos) in zip(scen, models, outs, parsed, mouts, metas):
        if res is None:
            continue
        nn = len(nodes)
        mres = mo.split(" | ")
        if len(mres) != len(ops):
            chk.broken.append("netmodel driver output malformed: " + mo[:200])
            continue
        chk.nontriv(sc)
        ok = True
        # focus="aphist": only the active-peer histories are judged (C04); dial results, listings and
        # reachability belong to C03 / C09 / C10 / C14 and are judged by their checks
        for (oi, pos_res, ppos, rpcs), mr in (zip(marks, mres) if focus == "all" else []):
            op = ops[oi]
            mdial, mlist = mr.split(" L=")
            mlists = dict(x.split(":") for x in mlist.split(";"))
            listings = {i: res[ppos - 1 + (i - 1)] for i in range(1, nn + 1)}
            if op[0] == "DS":
                r = res[pos_res - 1]
                chk.count("self-dial:" + r.split()[0])
                if r.startswith("ok") and (r.split()[1] != str(op[1]) or "listed=1" not in r):
                    chk.monitor_fail("node %d dialed its own address: the call returned %s, but a successful dial names the party reached and that party is in the connected set when it returns" % (op[1], r[:60]), dict(case=sc, op=str(op)))
                    ok = False
            if op[0] == "D":
                r = res[pos_res - 1]
                got = "err" if r.startswith("err") else ("ok" + r.split()[1] if r.startswith("ok") else r)
                chk.count("dial:" + ("ok" if got.startswith("ok") else "err"))
                # C03 monitors, model independent
                if got.startswith("ok"):
                    if got != "ok%d" % op[2]:
                        chk.monitor_fail("a dial to the address of node %d returned identity %s" % (op[2], got), dict(case=sc, op=str(op)))
                        ok = False
                    if len(op) > 3 and op[3] != op[2]:
                        chk.monitor_fail("a dial pinned to identity %d succeeded against node %d" % (op[3], op[2]), dict(case=sc, op=str(op)))
                        ok = False
                    if "listed=1" not in r:
                        chk.monitor_fail("connect returned %s but that peer is not in the caller's connected set" % got, dict(case=sc, op=str(op), impl=r))
                        ok = False
                if got != mdial:
                    chk.disagree(mc, "op %d %s -> %s" % (oi, op, got), "-> %s" % mdial, "simnet/netmodel-dial")
                    ok = False
                    break
            if op[0] == "Q":
                for i in range(1, nn + 1):
                    if listings[i] != mlists[str(i)]:
                        chk.disagree(mc, "after op %d %s node %d lists %s" % (oi, op, i, listings[i]), "lists %s" % mlists[str(i)], "simnet/netmodel-listing")
                        ok = False
                # C09 monitors: mutual listing and reachability
                for a in range(1, nn + 1):
                    la = listings[a].strip("[]").split(",")
                    for b in range(1, nn + 1):
                        if a == b:
                            continue
                        lb = listings[b].strip("[]").split(",")
                        if (str(b) in la) != (str(a) in lb):
                            chk.monitor_fail("after a quiet period node %d lists %d but not vice versa (%s / %s)" % (a, b, listings[a], listings[b]), dict(case=sc, op_index=oi))
                            ok = False
                for a, b, pos in rpcs:
                    r = res[pos - 1]
                    listed = str(b) in listings[a].strip("[]").split(",")
                    if listed and not r.startswith("ok st=200"):
                        chk.monitor_fail("node %d lists %d after a quiet period but an RPC to it fails: %s" % (a, b, r[:80]), dict(case=sc, op_index=oi))
                        ok = False
                    if not listed and r.startswith("ok"):
                        chk.monitor_fail("RPC to an unlisted peer succeeded (%d -> %d)" % (a, b), dict(case=sc, op_index=oi))
                        ok = False
                if not ok:
                    break
            if op[0] == "X":
                # C09: explicit disconnect removes the peer locally at once
                if str(op[2]) in listings[op[1]].strip("[]").split(","):
                    chk.monitor_fail("disconnect(%d) at node %d left the peer listed" % (op[2], op[1]), dict(case=sc, op_index=oi))
                    ok = False
        # events: alternation per peer
        for i in (range(1, nn + 1) if focus in ("all", "aphist") else []):
            evs = [e for e in res[epos - 1 + (i - 1)].strip("[]").split(",") if e and e != "END"]
            listed = {}
            for e in evs:
                if e.startswith("LAG"):
                    continue
                p = e[1:].split(":")[0]
                if (e[0] == "+") == listed.get(p, False):
                    chk.monitor_fail("peer events of node %d do not alternate for peer %s: %s" % (i, p, evs), dict(case=sc))
                    ok = False
                    break
                listed[p] = e[0] == "+"
        # C04 on real histories: every ActivePeers instance's recorded operations (with the pre-state each saw)
        # replayed on ActivePeers.v; for the live incarnation of a node the model's event log and listing must be
        # the subscriber's events and the final listing
        starts = list(range(1, nn + 1)) + [op[1] for op in ops if op[0] == "R"]
        hists, rank = ap_histories(res[-1], res[-2], starts) if focus == "aphist" else ([], {})
        if hists is None:
            chk.broken.append("active-peer trace: number of instances differs from the number of node starts")
            hists = []
        hm = run_model([h for _, _, h in hists], shards=1) if hists else []
        inv = dict((v, k) for k, v in rank.items())
        for (own, live, h), m in zip(hists, hm):
            chk.evaluations += 1
            chk.count("active-peer-history-ops", len(h.split()) - 1)
            if not m.startswith("accepted"):
                chk.disagree(sc, "node %d active-peer history: %s" % (own, h[:2000]), "ActivePeers.v: " + m[:600], "simnet/aphist")
                ok = False
                continue
            if not live:
                continue
            ml = re.search(r"L=\[(.*?)\] ev=(.*)$", m)
            mlist = sorted(str(inv[int(x)]) for x in ml.group(1).split(",") if x)
            mev = ["%s%d%s" % (e[0], inv[int(e[1:].split(":")[0])], (":" + REASONS[int(e.split(":")[1])]) if ":" in e else "") for e in ml.group(2).split(",") if e]
            final_listing = sorted(x for x in res[marks[-1][2] - 1 + (own - 1)].strip("[]").split(",") if x)
            evs = [e for e in res[epos - 1 + (own - 1)].strip("[]").split(",") if e and e != "END"]
            if mlist != final_listing or (not any(e.startswith("LAG") for e in evs) and mev != evs):
                chk.disagree(sc, "node %d: final listing %s events %s" % (own, final_listing, evs), "ActivePeers.v on its recorded history: listing %s events %s" % (mlist, mev), "simnet/aphist-observables")
                ok = False
        records.append(dict(scenario=sc, ops=ops, nodes=nodes, res=res, ok=ok, marks=marks, epos=epos, out=o))
        if extra_monitor:
            extra_monitor(records[-1])
    if outs:
        chk.sample(dict(case=scen[0][:400], impl=outs[0][:400], model=mouts[0][:300]))
    return records


ADV_VARIANTS = [
    # (label, adversary spec relative to victim identity key V and network name N, can it ever be admitted as itself?)
    ("own-identity", "k=7 names=nN", "self"),
    ("replay-cert-of-V", "k=V signkey=7 names=nN", "none"),
    ("replay-cert-of-V-ecdsa-key", "k=V signkey=e names=nN", "none"),
    ("resigned-cert-with-key-of-V", "k=V by=7 signkey=7 names=nN", "none"),
    ("ecdsa-identity", "k=e names=nN", "none"),
    ("expired", "k=7 names=nN valid=expired", "none"),
    ("not-yet-valid", "k=7 names=nN valid=future", "none"),
    ("wrong-name", "k=7 names=nX", "none"),
    ("malformed", "k=7 names=nN wf=flip", "none"),
    ("no-client-cert", "k=7 names=nN nocert=1", "server-only"),
    ("client-only-eku", "k=7 names=nN eku=client", "client-only"),
    ("server-only-eku", "k=7 names=nN eku=server", "server-only"),
    # chains (Tls.accept_chain): the victim's certificate appended behind the adversary's own / put in front of it
    ("chain-own-then-V", "k=7 names=nN chain=V", "self"),
    ("chain-V-then-own", "k=7 names=nN chain=V chainfirst=1", "none"),
    ("chain-own-then-V-then-other", "k=7 names=nN chain=V,9", "self"),
    # the victim's public key, wrapped like a SubjectPublicKeyInfo, planted inside the adversary's own valid certificate
    ("decoy-key-of-V-in-serial", "k=7 names=nN decoy=V", "self"),
    ("decoy-key-of-V-in-extension", "k=7 names=nN decoyext=V", "self"),
    # the adversary ground its own key until its public key agrees with V's in a weak digest (xor / sum of all bytes, first /
    # last byte): cheap to do (about 256 tries), worthless against a comparison of whole identities
    ("ground-key-same-xor-as-V", "k=gxor:V names=nN", "self"),
    ("ground-key-same-sum-as-V", "k=gsum:V names=nN", "self"),
    ("ground-key-same-first-byte-as-V", "k=gfirst:V names=nN", "self"),
    ("ground-key-same-last-byte-as-V", "k=glast:V names=nN", "self"),
]


def identity_header_names():
    """Header names under which a message might try to name an identity: every short lower-case string literal of the
    library's own sources (whatever header the library interprets is among them) and a list of usual suspects."""
    import glob
    names = set(["peer-id", "peerid", "peer_id", "x-peer-id", "from", "forwarded", "forwarded-for", "x-forwarded-for", "via", "origin", "identity",
                 "authorization", "sender", "source", "on-behalf-of", "x-real-ip", "remote-peer", "remote", "user", "client-id", "originator", "proxy-for"])
    for f in glob.glob(REPO + "/crates/anemo*/src/**/*.rs", recursive=True):
        names |= set(re.findall(r'"([a-z][a-z0-9_-]{2,40})"', open(f, errors="replace").read()))
    return sorted(names - {"echo-all", "id", "sleep-ms", "status", "resp-size", "resp-hdr-size", "timeout"})


def adversary_scenarios(chk, n, tag):
    """Honest nodes 1 (victim of impersonation: identity key V) and 2 (observer), an adversary 8
    that dials node 2 and is dialed by node 2 (plain and pinned to node 1's identity)."""
    scen, metas = [], []
    n = len(ADV_VARIANTS) * (1 if chk.tier == "quick" else 8)
    for i in range(n):
        rng = chk.rng
        label, spec, mode = ADV_VARIANTS[i % len(ADV_VARIANTS)]
        V = rng.randrange(100, 10**6)
        name = rng.choice([10, 20])
        spec = spec.replace("k=V", "k=%d" % V).replace("chain=V", "chain=%d" % V).replace("decoy=V", "decoy=%d" % V).replace("decoyext=V", "decoyext=%d" % V).replace(":V ", ":%d " % V).replace("nN", "n%d" % name).replace("nX", "n%d" % (30 if name != 30 else 10))
        cmds = ["seed=%d delay=%d" % (rng.randrange(1 << 30), rng.choice([500, 2000])),
                "node 1 key=%d name=n%d" % (V, name), "node 2 key=%d name=n%d" % (V + 1, name),
                "adv 8 " + spec,
                "advdial 8 2 sni=n%d" % name, "sleep 500", "peers 2",
                "connect 2 8", "sleep 300", "peers 2",
                "connect 2 8 pin=1", "sleep 300", "peers 2",
                # an honest third party at whose address identity 1 is then expected: two dials to one address
                "node 3 key=%d name=n%d" % (V + 2, name), "connect 2 3 pin=3", "sleep 300", "connect 2 3 pin=1", "sleep 300", "peers 2",
                "rpc 2 1 id=probe size=10",
                "connect 2 1", "sleep 300", "peers 2", "rpc 2 1 id=real size=10", "log 1",
                "events 2"]
        if "k=e" not in spec:
            # a dial naming the key of the very certificate the adversary presents: judged like the plain dial (name, validity,
            # usage and proof of possession are checked all the same)
            cmds += ["disconnect 2 8", "sleep 300", "connect 2 8 pin=8", "sleep 300", "disconnect 2 8", "sleep 300"]
        # the IPv4-mapped IPv6 spelling of node 3's address, naming identity 1 (not there) and naming nobody / node 3
        cmds += ["disconnect 2 3", "sleep 300", "connect 2 3 pin=1 ip=m", "sleep 300", "peers 2", "connect 2 3 ip=m", "sleep 300", "disconnect 2 3", "sleep 300", "connect 2 3", "sleep 300"]
        # overlapping dials to one address, one of them naming identity 1 (which is not there): each dial is judged on its own
        cmds += ["node 4 key=%d name=n%d" % (V + 3, name), "bg ov1 connect 2 4", "connect 2 4 pin=1", "join ov1", "sleep 300",
                 "node 5 key=%d name=n%d" % (V + 4, name), "bg ov2 connect 2 5 pin=1", "connect 2 5", "join ov2", "sleep 300",
                 "node 6 key=%d name=n%d" % (V + 5, name), "bg ov3 connect 2 6 pin=6", "connect 2 6 pin=1", "join ov3", "sleep 300", "peers 2"]
        # messages that name another identity: node 3 (authenticated as itself) calls node 2, and node 2 calls node 3, with
        # headers carrying node 1's PeerId under many names (the handler copies them into its answer): the handler must
        # still see the authenticated caller and the caller the authenticated callee
        hn = identity_header_names()
        chunks = [hn[j:j + 40] for j in range(0, len(hn), 40)] if i == 0 else [rng.sample(hn, min(len(hn), 25))]
        for q, ch in enumerate(chunks):
            enc = rng.choice(["l", "l", "u"])
            cmds += ["rpc 3 2 id=spoof%d size=5 idh=%s@1:%s" % (q, ",".join(x.encode().hex() for x in ch), enc),
                     "rpc 2 3 id=spoofr%d size=5 idh=%s@1:%s" % (q, ",".join(x.encode().hex() for x in ch), enc),
                     # the same through the typed client layer, answered with an error status and with success: the origin the
                     # caller sees on the rpc::Status / Response is the authenticated callee
                     "rpc 3 2 id=spooft%d size=5 typed=1 status=%d idh=%s@1:%s" % (q, rng.choice([400, 404, 500, 520]), ",".join(x.encode().hex() for x in ch), enc),
                     "rpc 2 3 id=spoofu%d size=5 typed=1 idh=%s@1:%s" % (q, ",".join(x.encode().hex() for x in ch), enc)]
        scen.append("simnet " + " ; ".join(cmds))
        metas.append((label, mode))
    outs, parsed = run_scenarios(chk, scen, tag)
    for sc, o, res, (label, mode) in zip(scen, outs, parsed, metas):
        if res is None:
            continue
        chk.nontriv(sc)
        chk.count("adversary:" + label)
        cmds = [c.strip() for c in sc[len("simnet "):].split(" ; ")][1:]
        r = {}
        for c, x in zip(cmds, res):
            r.setdefault(c, []).append(x)
        peers = r["peers 2"]
        # never listed, announced or attributed as node 1 before the real node 1 is connected
        for k, l in enumerate(peers[:4]):
            if "1" in l.strip("[]").split(","):
                chk.monitor_fail("[%s] %s was listed as identity 1 at node 2 (step %d)" % (label, "the adversary" if k < 3 else "another party", k), dict(case=sc, impl=o[:1200]))
        if r["connect 2 3 pin=1"][0].startswith("ok") or not r["connect 2 3 pin=3"][0].startswith("ok 3"):
            chk.monitor_fail("[%s] dials to node 3's address: pinned to 3 -> %s, then pinned to 1 -> %s" % (label, r["connect 2 3 pin=3"][0][:40], r["connect 2 3 pin=1"][0][:40]), dict(case=sc, impl=o[:1200]))
        for plain, pinned in (("join ov1", "connect 2 4 pin=1"), ("connect 2 5", "join ov2"), ("join ov3", "connect 2 6 pin=1")):
            chk.count("overlapping-dials-to-one-address")
            if r[pinned][0].startswith("ok") or not r[plain][0].startswith("ok"):
                chk.monitor_fail("[%s] two overlapping dials to one address: the one naming identity 1 (not there) -> %s, the other -> %s" % (label, r[pinned][0][:40], r[plain][0][:40]), dict(case=sc, impl=o[:1500]))
        if r["connect 2 3 pin=1 ip=m"][0].startswith("ok"):
            chk.monitor_fail("[%s] a dial to the IPv4-mapped spelling of node 3's address naming identity 1 succeeded: %s" % (label, r["connect 2 3 pin=1 ip=m"][0][:40]), dict(case=sc, impl=o[:1500]))
        if r["connect 2 3 ip=m"][0].startswith("ok") and not r["connect 2 3 ip=m"][0].startswith("ok 3"):
            chk.monitor_fail("[%s] a dial to the IPv4-mapped spelling of node 3's address returned %s" % (label, r["connect 2 3 ip=m"][0][:40]), dict(case=sc, impl=o[:1500]))
        if r["connect 2 8 pin=1"][0].startswith("ok"):
            chk.monitor_fail("[%s] a dial pinned to identity 1 succeeded against the adversary" % label, dict(case=sc, impl=o[:1200]))
        if r["connect 2 8"][0].startswith("ok 1"):
            chk.monitor_fail("[%s] a dial to the adversary returned identity 1" % label, dict(case=sc, impl=o[:1200]))
        if r["rpc 2 1 id=probe size=10"][0].startswith("ok"):
            chk.monitor_fail("[%s] an RPC addressed to identity 1 was served although node 1 is not connected" % label, dict(case=sc, impl=o[:1200]))
        ev = r["events 2"][0]
        pre = ev.strip("[]").split(",")
        if "+1" in pre[:-1] and False:
            pass
        # admission of the adversary under its own identity must follow the model
        dialed_ok = r["advdial 8 2 sni=n%s" % sc.split("name=n")[1][:2]][0] == "ok" if False else [x for c, x in zip(cmds, res) if c.startswith("advdial 8 2")][0] == "ok"
        conn_ok = r["connect 2 8"][0].startswith("ok")
        want_dial = mode in ("self", "client-only")
        want_conn = mode in ("self", "server-only")
        if "connect 2 8 pin=8" in r:
            chk.count("dial-pinned-to-the-adversary's-certificate-key")
            pin_ok = r["connect 2 8 pin=8"][0].startswith("ok")
            if pin_ok and not want_conn:
                chk.monitor_fail("[%s] a dial naming the key of the certificate the adversary presents succeeded, although that certificate must be refused" % label, dict(case=sc, impl=o[:1500]))
            elif pin_ok != want_conn and "replay" not in label and "resigned" not in label:
                chk.disagree(sc, "[%s] dial pinned to the adversary's own certificate key accepted=%s" % (label, pin_ok), "Tls.v: %s" % want_conn, "simnet/adversary-pinned")
        if dialed_ok != want_dial or conn_ok != want_conn:
            chk.disagree(sc, "[%s] adversary-as-client admitted=%s, as-server accepted=%s" % (label, dialed_ok, conn_ok),
                         "Tls.v: as-client %s, as-server %s" % (want_dial, want_conn), "simnet/adversary")
        for c, x in zip(cmds, res):
            if c.startswith(("rpc 3 2 id=spooft", "rpc 2 3 id=spoofu")):
                a, b = c.split()[1], c.split()[2]
                chk.count("typed-calls-answered-with-messages-naming-another-identity")
                if not x.startswith("typed") or fields(x)["from"] != b:
                    chk.monitor_fail("[%s] a typed call of node %s to node %s, answered with headers naming node 1's identity: the caller sees the %s as coming from %s (%s)"
                                     % (label, a, b, "error status" if x.startswith("typederr") else "response", fields(x).get("from", "?") if x.startswith("typed") else "?", x[:60]), dict(case=sc, impl=o[-1200:]))
                    break
                continue
            if c.startswith("rpc 3 2 id=spoof") or c.startswith("rpc 2 3 id=spoofr"):
                a, b = c.split()[1], c.split()[2]
                chk.count("messages-naming-another-identity")
                if not x.startswith("ok") or fields(x)["seen"] != a or fields(x)["from"] != b:
                    chk.monitor_fail("[%s] a request of node %s to node %s whose headers name node 1's identity: the handler saw the request as coming from %s and the caller the answer as coming from %s (%s)"
                                     % (label, a, b, fields(x).get("seen") if x.startswith("ok") else "?", fields(x).get("from") if x.startswith("ok") else "?", x[:80]), dict(case=sc, impl=o[-1200:]))
                    break
        # the genuine node 1 still connects and is attributed correctly on both sides
        real = r["rpc 2 1 id=real size=10"][0]
        if not r["connect 2 1"][0].startswith("ok 1") or "from=1" not in real or "seen=2" not in real:
            chk.monitor_fail("[%s] genuine peer not connected / attributed correctly afterwards: %s %s" % (label, r["connect 2 1"][0], real[:120]), dict(case=sc, impl=o[:1200]))
    if outs:
        chk.sample(dict(case=scen[1][:500], impl=outs[1][:500]))


def adversary_c03(chk):
    adversary_scenarios(chk, 12 if chk.tier == "quick" else 120, "fabric:adversary")


def adversary_c14(chk):
    """An adversarial dialer chooses the claimed name (SNI) and the certificate name independently."""
    quick = chk.tier == "quick"
    scen, metas = [], []
    combos = [(p, a, sni, cn) for p in (10, 20) for a in (None, 20, 30) for sni in (10, 20, 30) for cn in (10, 20, 30) if a != p]
    if quick:
        combos = chk.rng.sample(combos, 18)
    # names in a prefix relation ("n1" / "n10" / "n100"): the dialer claims the listener's name and holds a certificate for
    # a name that is a proper prefix or extension of it; in every run
    combos += [(10, None, 10, 1), (10, None, 10, 100), (1, None, 1, 10), (100, None, 100, 10), (100, None, 100, 1), (1, None, 1, 100), (20, 10, 10, 1), (20, 100, 100, 10)]
    for (p, a, sni, cn) in combos:
        cmds = ["seed=%d" % chk.rng.randrange(1 << 30),
                "node 1 key=11 name=n%d%s" % (p, " alt=n%d" % a if a else "")]
        if chk.rng.random() < 0.5:
            # history: the same key was admitted before with a legitimate claim and certificate; admission of the
            # dial under test must not depend on it
            cmds += ["adv 7 k=7 names=n%d" % p, "advdial 7 1 sni=n%d" % p, "sleep 300", "advop 7 1 close", "sleep 300"]
        # in half of the scenarios further certificates follow the dialer's own in its chain: somebody else's valid
        # certificate for the listener's name (or another name); only the end entity counts (C01_chain_tail_irrelevant)
        extra = ""
        if chk.rng.random() < 0.5:
            extra = " chain=%s chainnames=n%d" % (chk.rng.choice(["9", "9,5"]), chk.rng.choice([p, p, a or p, 10, 20, 30]))
        cmds += ["adv 8 k=7 names=n%d%s" % (cn, extra), "advdial 8 1 sni=n%d" % sni, "sleep 300", "peers 1"]
        # the other direction: node 1 dials the adversary, which answers every hello with its one certificate (issued for
        # n<cn>) - plainly and naming the adversary's key; a dialer always asks for its primary name
        cmds += ["advop 8 1 close", "sleep 300", "connect 1 8", "sleep 300", "disconnect 1 8", "sleep 300", "connect 1 8 pin=8", "sleep 300"]
        scen.append("simnet " + " ; ".join(cmds))
        metas.append((p, a, sni, cn))
    outs, parsed = run_scenarios(chk, scen, "fabric:adversary-names")
    # two listeners built from one key, the second without the first one's alternate name (the node after a name migration,
    # or another deployment of the key): what the first admitted does not carry over - the same dialer (one TLS client
    # configuration, so whatever session state it was given) is refused by the second
    mig = []
    for rep in range(2):
        mig.append("simnet seed=%d ; node 1 key=11 name=n10 alt=n20 ; node 2 key=11 name=n10 ; adv 8 k=7 names=n20 ; advdial 8 1 sni=n10 ; sleep 800 ; advdial 8 2 sni=n10 ; sleep 300 ; peers 2 ; advdial 8 1 sni=n10" % chk.rng.randrange(1 << 30))
    mo, mp = run_scenarios(chk, mig, "fabric:adversary-names-after-migration")
    for sc, o, res in zip(mig, mo, mp):
        if res is None:
            continue
        chk.nontriv(sc)
        if res[3] != "ok":
            chk.monitor_fail("a dialer with a certificate for the listener's alternate name was refused: " + res[3], dict(case=sc, impl=o[:400]))
        elif res[5] == "ok" or res[7] != "[]":
            chk.monitor_fail("a listener accepting only n10 (same key as one that also accepts n20) admitted a dialer whose certificate is issued for n20 (%s, lists %s)" % (res[5], res[7]), dict(case=sc, impl=o[:600]))
    mcases = ["advhello %d %s %d %d" % (p, a if a else "-", sni, cn) for (p, a, sni, cn) in metas]
    mouts = run_model(mcases)
    for sc, o, res, (p, a, sni, cn), mo in zip(scen, outs, parsed, metas, mouts):
        if res is None:
            continue
        chk.nontriv(sc)
        cl = [c.strip() for c in sc[len("simnet "):].split(" ; ")][1:]
        got = "accepted" if res[cl.index("advdial 8 1 sni=n%d" % sni)] == "ok" else "rejected"
        if "adv 7 k=7 names=n%d" % p in cl:
            chk.count("primed-by-an-earlier-legitimate-dial")
            if res[cl.index("advdial 7 1 sni=n%d" % p)] != "ok":
                chk.monitor_fail("a dialer with an accepted name and certificate was rejected", dict(case=sc, impl=o[:600]))
        names = {p} | ({a} if a else set())
        if " chain=" in sc:
            chk.count("dialer-presents-a-chain")
        if got == "accepted" and (cn not in names or sni not in names):
            chk.monitor_fail("listener (names %s) admitted a dialer claiming n%d with a certificate for n%d" % (sorted(names), sni, cn), dict(case=sc, impl=o[:600]))
        if got != mo:
            chk.disagree(sc, got, mo, "simnet/adversary-names")
        for c in ("connect 1 8", "connect 1 8 pin=8"):
            ok = res[cl.index(c)].startswith("ok")
            chk.count("dial-to-a-listener-with-one-certificate:" + ("accepted" if ok else "refused"))
            if ok != (cn == p):
                chk.monitor_fail("node 1 (network n%d) dialing (%s) a listener whose certificate is issued for n%d: %s" % (p, "naming the listener's key" if "pin" in c else "plainly", cn, "connected" if ok else "refused"), dict(case=sc, impl=o[:800]))
    if outs:
        chk.sample(dict(case=scen[0], impl=outs[0][:300], model=mouts[0]))


# ------------------------------------------------------------------ RPC-level scenarios (C02, C06, C12, C11, C15)

def body_pattern(n, seed):
    return bytes(((i * 31) + seed) & 255 for i in range(n))


def digest(b):
    h = 0xcbf29ce484222325
    for x in b:
        h ^= x
        h = (h * 0x100000001b3) & 0xFFFFFFFFFFFFFFFF
    return "%d:%016x" % (len(b), h)


_dcache = {}


def pat_digest(n, seed):
    k = (n, seed & 255)
    if k not in _dcache:
        _dcache[k] = digest(body_pattern(n, seed & 255))
    return _dcache[k]


def rpc_trace_case(trace, limit, patterns):
    """Translates the H4c trace (category rpc) of one scenario into an `rpctrace` model case.
    patterns(id, kind) -> (len, seed) of the body the scenario sent ('req') / expects back ('resp') for the RPC <id>.
    Returns (model case or None, per-stream observations, note)."""
    lines = [l.split(",") for l in trace.strip("[]").split("|") if l]
    conn = {}
    for f in lines:
        if len(f) > 4 and f[1] == "active" and f[3] == "add":
            kv = dict(x.split("=", 1) for x in f[4:] if "=" in x)
            conn[kv["id"]] = (kv["own"], kv["peer"])
    streams, order, events, obs = {}, [], [], {}
    def kvs(f):
        return dict(x.split("=", 1) for x in f[5:] if "=" in x)
    for f in lines:
        if len(f) < 5 or f[1] != "rpc":
            continue
        cid, sid, ev = f[2].split("=")[1], f[3].split("=")[1], f[4]
        if cid not in conn:
            return None, {}, "rpc event on an unknown connection"
        own, peer = conn[cid]
        key = (own, peer, sid) if ev.startswith("c-") else (peer, own, sid)
        if ev == "c-open":
            if key in streams:
                return None, {}, "stream key reused (several connections between the same pair)"
            streams[key] = dict(idx=len(order))
            order.append(key)
            obs[key] = dict(decoded=0, response=None, request=None, seen=None, returned=None)
            continue
        if key not in streams:
            return None, {}, "server event without a caller"
        st, o = streams[key], obs[key]
        i = st["idx"]
        kv = kvs(f)
        if ev == "c-request":
            st["req"] = kv
            o["request"] = kv
        elif ev == "c-written":
            events.append("%d:W" % i)
        elif ev == "c-finish":
            events.append("%d:F" % i)
        elif ev == "c-response":
            events.append("%d:P" % i)
            o["response"] = kv
        elif ev == "c-end":
            if kv.get("after") != "response":
                events.append("%d:CE" % i)
        elif ev == "s-decoded":
            events.append("%d:D" % i)
            o["decoded"] += 1
            o["seen"] = kv
        elif ev == "s-returned":
            events.append("%d:R" % i)
            st["resp"] = kv
            o["returned"] = kv
        elif ev == "s-finished":
            events.append("%d:S" % i)
        elif ev == "s-end":
            events.append("%d:SE" % i)
    defs = []
    for key in order:
        st = streams[key]
        q = st.get("req")
        if q is None:
            return None, {}, "stream without a described request"
        hd = dict(x.split(":") for x in q["hdr"].split("+")) if q["hdr"] != "-" else {}
        rid = bytes.fromhex(hd.get("6964", "")).decode("latin1")
        ln, seed = patterns(rid, "req")
        if ln > 1000000:
            return None, {}, "body above 1 MB"
        if pat_digest(ln, seed) != q["body"]:
            return None, {}, "request body of %s is not the scripted pattern" % rid
        resp = "-"
        if "resp" in st:
            r = st["resp"]
            cands = [patterns(rid, "resp"), patterns(rid, "req")]
            m = [c for c in cands if pat_digest(*c) == r["body"]]
            if not m:
                return None, {}, "response body of %s is not a scripted pattern" % rid
            resp = "%s:%s:%d:%d" % (r["st"], r["hdr"].replace(":", "="), m[0][0], m[0][1] & 255)
        defs.append("%s:%s:%d:%d:%s" % (q["route"], q["hdr"].replace(":", "="), ln, seed & 255, resp))
    return "rpctrace %s | %s | %s" % (limit if limit else "none", " ".join(defs), " ".join(events)), dict((streams[k]["idx"], obs[k]) for k in order), ""


def rpc_trace_compare(chk, sc, case, obs, m):
    """Model verdict on the replayed RPC events against what both ends recorded."""
    if not m.startswith("accepted"):
        chk.disagree(sc, "rpc events: " + case[:3000], "Rpc.v: " + m[:600], "simnet/rpctrace")
        return
    for tok in m.split()[1:]:
        i, inv, ss, cs = tok.split(":", 3)
        o = obs[int(i)]
        inv = int(inv.split("=")[1])
        if inv != o["decoded"]:
            chk.disagree(sc, "stream %s: the handler was invoked %d time(s)" % (i, o["decoded"]), "Rpc.v: %d" % inv, "simnet/rpctrace-observables")
        if o["seen"] is not None and o["seen"] != o["request"]:
            chk.monitor_fail("the request the handler saw differs from the one sent on its stream: %s vs %s" % (str(o["seen"])[:200], str(o["request"])[:200]), dict(case=sc))
        cs = cs[3:]
        if o["response"] is not None:
            want = "ok,st=%s,hdr=%s,body=%s" % (o["response"]["st"], o["response"]["hdr"], o["response"]["body"])
            if cs != want:
                chk.disagree(sc, "stream %s: caller got %s" % (i, want[:300]), "Rpc.v: " + cs[:300], "simnet/rpctrace-observables")
        elif cs.startswith("ok"):
            chk.disagree(sc, "stream %s: caller got no response" % i, "Rpc.v: " + cs[:300], "simnet/rpctrace-observables")


def sent_header_digest(args):
    """Digest (as the node service computes it over what it received) of the header map an `rpc` command with these
    arguments puts on its request."""
    a = dict(x.split("=", 1) for x in args.split() if "=" in x)
    h = {"id": a.get("id", "0")}
    for k in ("sleep-ms", "resp-size", "resp-hdr-size", "status", "panic", "ticks"):
        if k in a:
            h[k] = a[k]
    if "hdr-size" in a:
        h["pad"] = "q" * int(a["hdr-size"])
    if "timeout-hdr" in a:
        h["timeout"] = bytes.fromhex(a["timeout-hdr"].replace("-", "")).decode()
    for kv in a.get("xh", "").split(","):
        if ":" in kv:
            k, v = kv.split(":")
            h[bytes.fromhex(k).decode()] = bytes.fromhex(v).decode()
    return digest("".join(sorted("%s=%s\n" % kv for kv in h.items())).encode()).split(":")[1]


def c02(chk):
    quick = chk.tier == "quick"
    scen, metas, allroutes = [], [], []
    n = 24 if quick else 300
    for i in range(n):
        rng = chk.rng
        faults = rng.choice(["none", "jitter", "dup", "loss", "all"])
        delay = rng.choice([200, 2000, 10000])
        link = "delay=%d" % delay
        if faults in ("jitter", "all"):
            link += " jitter=%d" % (delay * 2)
        if faults in ("dup", "all"):
            link += " dup=%d" % rng.choice([50, 200])
        if faults in ("loss", "all"):
            link += " loss=%d" % rng.choice([10, 30])
        # in a third of the scenarios both nodes have a frame limit and some responses exceed it: the responder
        # fails after its handler ran (the stream is reset); the caller must get an error, never a second delivery
        # (the two ends may have different limits, or only one of them a limit at all)
        limit = rng.choice([20000, 100000]) if rng.random() < 0.35 else None
        lims = {0: limit, 1: limit}
        if limit and rng.random() < 0.5:
            lims[rng.choice([0, 1])] = rng.choice([None, 20000, 100000, 2000000])
        mf = lambda i: " maxframe=%d" % lims[i] if lims[i] else ""
        # in 40% of the scenarios one or both nodes have a (far-away) outbound default timeout, and some calls carry a
        # (far-away) timeout header of their own: neither may change what the handler receives
        ot = lambda: " out_to=3600000" if rng.random() < 0.3 else ""
        cmds = ["seed=%d %s" % (rng.randrange(1 << 30), link),
                "node 0 idle=60000 keepalive=5000" + mf(0) + ot(), "node 1 idle=60000 keepalive=5000" + mf(1) + ot(), "connect 0 1", "sleep 500"]
        k = rng.choice([1, 4, 16, 64]) if quick else rng.choice([1, 8, 32, 64, 128])
        rpcs = []
        routes = {}
        hdig = {}
        big = 0
        for j in range(k):
            a = rng.choice([0, 1])
            b = 1 - a
            r = rng.random()
            size = 0 if r < 0.15 else rng.randrange(1, 3000) if r < 0.8 else rng.choice([65536, 300000]) if r < 0.97 or big >= 2 else 4 * 1024 * 1024
            big += size > 1000000
            rid = "r%dx%d" % (i, j)
            args = "id=%s size=%d" % (rid, size)
            rs = None
            if rng.random() < 0.3:
                rs = rng.choice([0, 1, 777, 70000])
                args += " resp-size=%d" % rs
            elif limit and rng.random() < 0.3:
                rs = limit + rng.choice([1, 5000])
                size = min(size, 3000)
                args = "id=%s size=%d resp-size=%d" % (rid, size, rs)
            if rng.random() < 0.5:
                args += " sleep-ms=%d" % rng.choice([1, 5, 20, 100, 400])
            if rng.random() < 0.2:
                args += " hdr-size=%d" % rng.choice([1, 100, 5000])
            route = "/echo"
            if rng.random() < 0.3:
                # routes of every shape (these nodes serve one service for all routes): the handler must see the very string sent
                route = rng.choice(["", "/", "echo", "//", "/a//b", "a//b//", "/echo/", "//echo", "/a/b/c", "/\u00e9", "\u00e9/x", "/a b", " /a", "/A/B", "/a/./b", "/a/../b", "/%2F", "/" + "r" * rng.randrange(1, 300)])
                args += " route=%s" % (route.encode().hex() or "-")
            if rng.random() < 0.15:
                args += " timeout-hdr=" + rng.choice([b"7200000000000", b"1800000000000", b"not-a-number"]).hex()
            st = 200
            if rng.random() < 0.3:
                # the handler answers with a status of its own choosing (with its usual, usually non-empty, body)
                st = rng.choice([400, 404, 408, 429, 500, 505, 520, 200])
                args += " status=%d" % st
            if rng.random() < 0.3:
                # arbitrary header names chosen by the caller, echoed by the handler: mixed case, names equal up to case,
                # non-ASCII, empty values (header maps travel verbatim)
                names = rng.sample(["X-Trace", "x-trace", "X-TRACE", "x-\u00e9", "X-a", "x-A", "x-" + "k" * rng.randrange(1, 40)], rng.randrange(1, 4))
                args += " xh=" + ",".join("%s:%s" % (n.encode().hex(), ("v%d" % q).encode().hex()) for q, n in enumerate(names))
            cmds.append("bg %s rpc %d %d %s" % (rid, a, b, args))
            rpcs.append((rid, a, b, size, rs, st))
            routes[rid] = route
            hdig[rid] = sent_header_digest(args)
        for rid, *_ in rpcs:
            cmds.append("join %s 300000" % rid)
        cmds += ["log 0", "log 1", "peers 0", "trace"]
        scen.append("simnet " + " ; ".join(cmds))
        metas.append((rpcs, faults, lims))
        allroutes.append((routes, hdig))
    outs, parsed = run_scenarios(chk, scen, "fabric:rpc")
    # trace acceptance: the per-RPC events both ends recorded are replayed on Rpc.v (RpcTrace.erun); runs under
    # datagram loss are left out (a connection may be lost there, which the stream-level model does not contain)
    tc, tmeta = [], []
    for k, (res, (rpcs, faults, lims)) in enumerate(zip(parsed, metas)):
        if res is None or faults in ("loss", "all"):
            continue
        if lims[0] != lims[1]:
            chk.count("rpc-trace-not-modelled: different frame limits at the two ends")
            continue
        limit = lims[0]
        byid = dict((rid, (a, b, size, rs)) for rid, a, b, size, rs, st in rpcs)
        def patterns(rid, kind, byid=byid):
            a, b, size, rs = byid.get(rid, (0, 0, 0, None))
            if kind == "resp" and rs is not None:
                return (rs, len(rid))
            return (size, len(rid) + b)
        case, obs, note = rpc_trace_case(res[-1], limit, patterns)
        if case is None:
            chk.count("rpc-trace-not-modelled: " + note)
            continue
        tc.append(case)
        tmeta.append((k, obs))
    for (k, obs), case, m in zip(tmeta, tc, run_model(tc, shards=NCPU)):
        chk.evaluations += 1
        chk.count("rpc-trace-events", len(case.split("|")[2].split()))
        rpc_trace_compare(chk, scen[k], case, obs, m)
    for sc, o, res, (rpcs, faults, lims), (routes, hdig) in zip(scen, outs, parsed, metas, allroutes):
        if res is None:
            continue
        chk.nontriv(sc)
        chk.count("faults:" + faults)
        chk.count("rpcs", len(rpcs))
        cmds = [c.strip() for c in sc[len("simnet "):].split(" ; ")][1:]
        r = {c: x for c, x in zip(cmds, res)}
        sent_to = {0: {}, 1: {}}
        for rid, a, b, size, rs, st in rpcs:
            out = r["join %s 300000" % rid]
            seed = len(rid) + b
            want_sent = pat_digest(size, seed)
            sent_to[b][rid] = (a, want_sent)
            if out.startswith("ok"):
                f = fields(out)
                want_body = pat_digest(rs, len(rid)) if rs is not None else want_sent
                chk.count("response-status:%d" % st)
                if f.get("hd") != hdig[rid]:
                    chk.monitor_fail("RPC %s (%d->%d): the header map the handler received (digest %s) is not the one the caller sent (%s)" % (rid, a, b, f.get("hd"), hdig[rid]), dict(case=sc))
                if f["st"] != str(st) or f["id"] != rid or f["srv"] != str(b) or f["from"] != str(b) or f["seen"] != str(a) or f["body"] != want_body or f["sent"] != want_sent:
                    chk.monitor_fail("RPC %s (%d->%d) returned a response that is not its own: %s (expected body %s)" % (rid, a, b, out[:200], want_body), dict(case=sc))
            elif out == "HANG":
                chk.monitor_fail("RPC %s neither returned nor failed" % rid, dict(case=sc))
            else:
                # an error is acceptable only under datagram loss, or when the request / response exceeds the frame limit
                lim = min([x for x in lims.values() if x] or [8 << 20])
                oversize = size > lim or (rs if rs is not None else size) > lim
                chk.count("rpc-error:" + ("frame-limit" if oversize else "loss"))
                if faults not in ("loss", "all") and not oversize:
                    chk.monitor_fail("RPC %s failed on a loss-free link: %s" % (rid, out[:100]), dict(case=sc))
        for node in (0, 1):
            seen = {}
            for e in r["log %d" % node].strip("[]").split("|"):
                if not e:
                    continue
                f = dict(x.split("=", 1) for x in e.split(","))
                rid = f["id"]
                seen[rid] = seen.get(rid, 0) + 1
                if rid not in sent_to[node]:
                    chk.monitor_fail("node %d handled a request (%s) nobody sent to it" % (node, rid), dict(case=sc))
                    continue
                a, want = sent_to[node][rid]
                if f["from"] != str(a) or f["body"] != want:
                    chk.monitor_fail("node %d handled request %s with wrong sender/body: %s" % (node, rid, e[:150]), dict(case=sc))
                seen_route = bytes.fromhex(f["route"].replace("-", "")).decode()
                if seen_route != routes[rid]:
                    chk.monitor_fail("node %d handled request %s under route %r, the caller sent %r" % (node, rid, seen_route[:80], routes[rid][:80]), dict(case=sc))
                if routes[rid] != "/echo":
                    chk.count("odd-routes")
            dup = [k for k, v in seen.items() if v > 1]
            if dup:
                chk.monitor_fail("request(s) %s delivered to a handler more than once" % dup[:3], dict(case=sc))
    if outs:
        chk.sample(dict(case=scen[0][:400], impl=outs[0][:400]))


def c02_twins(chk):
    """Header maps that differ only in where a header's name ends and its value begins (same route, same number of
    headers), sent one after the other, in both directions and interleaved: each handler receives its caller's own map."""
    maps = [{"x-trace": "id-7"}, {"x-tracei": "d-7"}, {"x-trace": "id-7"}, {"k": ""}, {"": "k"}, {"ab": "c"}, {"a": "bc"}, {"abc": ""}, {"": "abc"}]
    scen = []
    for i in range(2 if chk.tier == "quick" else 10):
        rng = chk.rng
        order = list(range(len(maps)))
        if i:
            rng.shuffle(order)
        cmds = ["seed=%d delay=%d" % (rng.randrange(1 << 30), rng.choice([200, 2000])), "node 0 idle=60000 keepalive=5000", "node 1 idle=60000 keepalive=5000", "connect 0 1", "sleep 500"]
        for k in order:
            (n, v), = maps[k].items()
            a, b = (0, 1) if (i + k) % 3 else (1, 0)
            cmds.append("rpc %d %d id=t%d noid=1 xh=%s:%s" % (a, b, k, n.encode().hex() or "-", v.encode().hex() or "-"))
        scen.append("simnet " + " ; ".join(cmds))
    outs, parsed = run_scenarios(chk, scen, "fabric:header-boundary-twins")
    for sc, res in zip(scen, parsed):
        if res is None:
            continue
        chk.nontriv(sc)
        cl = [c.strip() for c in sc[len("simnet "):].split(" ; ")][1:]
        for c, x in zip(cl, res):
            if " noid=1 " in c:
                k = int(c.split("id=t")[1].split()[0])
                want = digest("".join(sorted("%s=%s\n" % kv for kv in maps[k].items())).encode()).split(":")[1]
                chk.count("boundary-twin-calls")
                if not x.startswith("ok") or fields(x).get("hd") != want:
                    chk.monitor_fail("a call carrying the header map %r: the handler received a map with digest %s, the caller's map has %s (%s)" % (maps[k], fields(x).get("hd") if x.startswith("ok") else "?", want, x[:40]), dict(case=sc))
                    break


def c12(chk):
    quick = chk.tier == "quick"
    scen, metas = [], []
    n = 16 if quick else 200
    for i in range(n):
        rng = chk.rng
        maxbidi = rng.choice([4, 8, 16])
        delay = rng.choice([1000, 5000, 20000])
        # deadlines that are far away must not change anything: a long timeout header on the abandoned
        # calls, a long outbound default at the caller, a long inbound default at the callee
        hdr = rng.random() < 0.5
        out_to = " out_to=3600000" if rng.random() < 0.3 else ""
        in_to = " in_to=3600000" if rng.random() < 0.3 else ""
        cmds = ["seed=%d delay=%d" % (rng.randrange(1 << 30), delay),
                "node 0 idle=600000 keepalive=5000 maxbidi=%d%s" % (maxbidi, out_to),
                "node 1 idle=600000 keepalive=5000 maxbidi=%d%s" % (maxbidi, in_to), "connect 0 1", "sleep 500"]
        count = maxbidi * rng.choice([3, 5, 8])
        size = rng.choice([0, 100, 200000])
        hsleep = rng.choice([5, 1000, 60000])
        rtt_us = 2 * delay
        live = 0
        for j in range(count):
            # abandon instants sweep the whole exchange: before transmission, mid-request, while the handler runs, after completion
            u = rng.choice([0, 1, delay // 2, delay, delay + 1, rtt_us - 1, rtt_us + 10, rtt_us + hsleep * 500, rtt_us + hsleep * 1000 + 5000, 10 * rtt_us + hsleep * 2000])
            cmds.append("rpc 0 1 id=a%d size=%d sleep-ms=%d abandon-us=%d%s" % (j, size, hsleep, u, " timeout-hdr=" + b"3600000000000".hex() if hdr and rng.random() < 0.7 else ""))
            if rng.random() < 0.15 and live < 3:
                cmds.append("bg live%d rpc 0 1 id=L%d size=50 sleep-ms=%d" % (live, live, rng.choice([10, 500])))
                live += 1
        for k in range(live):
            cmds.append("join live%d 600000" % k)
        cmds += ["sleep %d" % (rtt_us // 1000 * 3 + 100), "stat 1", "rpc 0 1 id=final size=10", "rpc 1 0 id=back size=10", "peers 0", "stat 0", "trace"]
        scen.append("simnet " + " ; ".join(cmds))
        metas.append((count, live, hsleep, size))
    outs, parsed = run_scenarios(chk, scen, "fabric:abandon")
    # trace acceptance: both ends' per-RPC events replayed on Rpc.v (abandonment = Abandon, then NoticeStop / NoticeReset)
    tc, tmeta = [], []
    for k, (res, (count, live, hsleep, size)) in enumerate(zip(parsed, metas)):
        if res is None:
            continue
        def patterns(rid, kind, size=size):
            n = size if rid.startswith("a") else 50 if rid.startswith("L") else 10
            return (n, len(rid) + (0 if rid == "back" else 1))
        if size * count > (3000000 if quick else 12000000):
            chk.count("rpc-trace-not-modelled: more than %d MB of request bodies" % (3 if quick else 12))
            continue
        case, obs, note = rpc_trace_case(res[-1], None, patterns)
        if case is None:
            chk.count("rpc-trace-not-modelled: " + note)
            continue
        tc.append(case)
        tmeta.append((k, obs))
    for (k, obs), case, m in zip(tmeta, tc, run_model(tc, shards=NCPU)):
        chk.evaluations += 1
        chk.count("rpc-trace-events", len(case.split("|")[2].split()))
        rpc_trace_compare(chk, scen[k], case, obs, m)
        if m.startswith("accepted"):
            # every stream whose caller gave up must have been closed at the accepting side (no stream credit is kept)
            for tok in m.split()[1:]:
                i, inv, ss, cs = tok.split(":", 3)
                if cs[3:] == "abandoned" and ss[3:] in ("wait", "queued", "running", "writing"):
                    chk.disagree(scen[k], "stream %s abandoned; trace ends" % i, "Rpc.v: still open at the accepting side (%s)" % ss, "simnet/rpctrace-observables")
    for sc, o, res, (count, live, hsleep, _size) in zip(scen, outs, parsed, metas):
        if res is None:
            continue
        chk.nontriv(sc)
        cmds = [c.strip() for c in sc[len("simnet "):].split(" ; ")][1:]
        r = {}
        for c, x in zip(cmds, res):
            r[c] = x
        ab = [x for c, x in zip(cmds, res) if c.startswith("rpc 0 1 id=a")]
        chk.count("abandoned", len([x for x in ab if x.startswith("abandoned")]))
        chk.count("completed-before-abandon", len([x for x in ab if x.startswith("ok")]))
        st = fields(r["stat 1"])
        running = int(st["started"]) - int(st["completed"]) - int(st["dropped"])
        if running != 0:
            chk.monitor_fail("%d handler(s) of abandoned RPCs still running after the caller dropped them (started=%s completed=%s dropped=%s)" % (running, st["started"], st["completed"], st["dropped"]), dict(case=sc, impl=o[-600:]))
        for k in range(live):
            x = r["join live%d 600000" % k]
            if not x.startswith("ok st=200") or "id=L%d" % k not in x:
                chk.monitor_fail("a sibling RPC was disturbed by abandoned calls: " + x[:120], dict(case=sc))
        for c in ("rpc 0 1 id=final size=10", "rpc 1 0 id=back size=10"):
            if not r[c].startswith("ok st=200"):
                chk.monitor_fail("after %d abandoned calls a fresh RPC fails (stream capacity exhausted?): %s" % (count, r[c][:100]), dict(case=sc))
        if r["peers 0"] != "[1]":
            chk.monitor_fail("abandoned calls tore down the connection", dict(case=sc))
    if outs:
        chk.sample(dict(case=scen[0][:400], impl=outs[0][-400:]))


def c12_gated(chk):
    """Calls abandoned while they wait for the service to become ready (a service that applies back-pressure through
    poll_ready: the whole service of the callee sits behind a concurrency limit which one long call holds): they are
    cancelled like any other - their requests never reach the handler, their streams are free again, and the call holding
    the gate and a later call are served."""
    quick = chk.tier == "quick"
    scen, metas = [], []
    for i in range(6 if quick else 40):
        rng = chk.rng
        gate = rng.choice([1, 1, 2])
        maxbidi = rng.choice([8, 16])
        hold_ms = rng.choice([3000, 6000])
        k = maxbidi - gate - rng.choice([0, 1, 2])          # queued calls: they fill (almost) all remaining streams
        cmds = ["seed=%d delay=1000" % rng.randrange(1 << 30),
                "node 0 idle=600000 keepalive=5000 maxbidi=%d" % maxbidi,
                "node 1 idle=600000 keepalive=5000 maxbidi=%d gate=%d" % (maxbidi, gate), "connect 0 1", "sleep 500"]
        cmds += ["bg hold%d rpc 0 1 id=H%d size=10 sleep-ms=%d" % (g, g, hold_ms) for g in range(gate)]
        cmds += ["sleep 50"]
        cmds += ["bg q%d rpc 0 1 id=Q%d size=20 sleep-ms=5 abandon-us=%d" % (j, j, rng.choice([300000, 500000, 1000000])) for j in range(k)]
        cmds += ["join q%d 600000" % j for j in range(k)]
        # all queued calls have been abandoned (at most 1 s in); the gate is still held: a further call goes through the
        # streams the abandoned calls gave back and is served as soon as the gate opens
        cmds += ["rpc 0 1 id=fresh size=10"] + ["join hold%d 600000" % g for g in range(gate)] + ["sleep 200", "log 1", "stat 1", "peers 0"]
        scen.append("simnet " + " ; ".join(cmds))
        metas.append((gate, k, hold_ms))
    outs, parsed = run_scenarios(chk, scen, "fabric:abandon-while-waiting-for-readiness")
    for sc, o, res, (gate, k, hold_ms) in zip(scen, outs, parsed, metas):
        if res is None:
            continue
        chk.nontriv(sc)
        cl = [c.strip() for c in sc[len("simnet "):].split(" ; ")][1:]
        r = dict(zip(cl, res))
        ab = [r["join q%d 600000" % j] for j in range(k)]
        chk.count("abandoned-while-waiting-for-readiness", len([x for x in ab if x.startswith("abandoned")]))
        if not all(x.startswith("abandoned") for x in ab):
            chk.monitor_fail("a call queued behind the gate returned before it was abandoned: %s" % [x[:30] for x in ab if not x.startswith("abandoned")][:2], dict(case=sc))
            continue
        fresh = r["rpc 0 1 id=fresh size=10"]
        if not fresh.startswith("ok st=200") or int(fields(fresh)["t"]) > (hold_ms + 500) * 1000:
            chk.monitor_fail("after %d calls abandoned while waiting for the service's readiness a fresh call %s (the gate opens after %d ms)" % (k, fresh[:60], hold_ms), dict(case=sc))
        for g in range(gate):
            if not r["join hold%d 600000" % g].startswith("ok st=200"):
                chk.monitor_fail("the call holding the gate was disturbed: " + r["join hold%d 600000" % g][:80], dict(case=sc))
        seen = [e.split(",")[0][3:] for e in r["log 1"].strip("[]").split("|") if e]
        late = [x for x in seen if x.startswith("Q")]
        if late:
            chk.monitor_fail("%d request(s) abandoned while waiting for the service's readiness were handed to the handler later (%s)" % (len(late), late[:4]), dict(case=sc, impl=r["stat 1"]))
        st = fields(r["stat 1"])
        if int(st["started"]) - int(st["completed"]) - int(st["dropped"]) != 0:
            chk.monitor_fail("handlers still running after everything was joined: " + r["stat 1"], dict(case=sc))


def c12_starved(chk):
    """All streams of the connection are held by long calls; further calls are abandoned while they still wait for a stream
    (before anything of them was transmitted).  Once the holders are done the connection serves new calls as before."""
    quick = chk.tier == "quick"
    scen, metas = [], []
    for i in range(4 if quick else 24):
        rng = chk.rng
        B = rng.choice([2, 4, 8])
        k = rng.randrange(1, 6)
        cmds = ["seed=%d delay=1000" % rng.randrange(1 << 30), "node 0 idle=600000 keepalive=5000",
                "node 1 idle=600000 keepalive=5000 maxbidi=%d" % B, "connect 0 1", "sleep 500"]
        cmds += ["bg hold%d rpc 0 1 id=H%d size=10 sleep-ms=2000" % (g, g) for g in range(B)]
        cmds += ["sleep 100"]
        cmds += ["bg w%d rpc 0 1 id=W%d size=10 sleep-ms=5 abandon-us=%d" % (j, j, rng.choice([100000, 300000, 700000])) for j in range(k)]
        cmds += ["join w%d 600000" % j for j in range(k)] + ["join hold%d 600000" % g for g in range(B)]
        cmds += ["rpc 0 1 id=fresh%d size=10" % q for q in range(3)] + ["log 1", "peers 0"]
        scen.append("simnet " + " ; ".join(cmds))
        metas.append((B, k))
    outs, parsed = run_scenarios(chk, scen, "fabric:abandon-while-waiting-for-a-stream")
    for sc, res, (B, k) in zip(scen, parsed, metas):
        if res is None:
            continue
        chk.nontriv(sc)
        cl = [c.strip() for c in sc[len("simnet "):].split(" ; ")][1:]
        r = dict(zip(cl, res))
        chk.count("abandoned-while-waiting-for-a-stream", k)
        fresh = [r["rpc 0 1 id=fresh%d size=10" % q] for q in range(3)]
        if not all(x.startswith("ok st=200") and int(fields(x)["t"]) < 1000000 for x in fresh):
            chk.monitor_fail("after %d call(s) abandoned while waiting for a stream (all %d streams held) later calls on the connection: %s" % (k, B, [x[:30] for x in fresh]), dict(case=sc))
        if not all(r["join hold%d 600000" % g].startswith("ok st=200") for g in range(B)):
            chk.monitor_fail("a call holding a stream was disturbed", dict(case=sc))
        if any(e.split(",")[0][3:].startswith("W") for e in r["log 1"].strip("[]").split("|") if e):
            chk.monitor_fail("a request abandoned before it got a stream reached the handler", dict(case=sc))


def c12_limited(chk):
    """The callee's service sits behind anemo-tower's per-peer in-flight limit: calls abandoned while their handler runs
    give their slot back (any number of them, one at a time or several at once); afterwards the peer gets its full limit."""
    quick = chk.tier == "quick"
    scen, metas = [], []
    for i in range(4 if quick else 24):
        rng = chk.rng
        limit = rng.choice([1, 2, 3])
        mode = rng.choice(["", "b"])
        n_ab = limit * rng.choice([2, 3, 5])
        cmds = ["seed=%d delay=1000" % rng.randrange(1 << 30), "node 0 idle=600000 keepalive=5000",
                "node 1 idle=600000 keepalive=5000 inflight=%d%s" % (limit, mode), "connect 0 1", "sleep 500"]
        for j in range(n_ab):
            # one at a time (never more than `limit` in flight), abandoned while the handler runs
            cmds.append("rpc 0 1 id=a%d size=10 sleep-ms=60000 abandon-us=%d" % (j, rng.choice([100000, 300000])))
        cmds += ["sleep 100"]
        cmds += ["bg f%d rpc 0 1 id=f%d size=10 sleep-ms=200" % (k, k) for k in range(limit)]
        cmds += ["join f%d 600000" % k for k in range(limit)] + ["stat 1", "peers 0"]
        scen.append("simnet " + " ; ".join(cmds))
        metas.append((limit, mode, n_ab))
    outs, parsed = run_scenarios(chk, scen, "fabric:abandon-behind-an-inflight-limit")
    for sc, res, (limit, mode, n_ab) in zip(scen, parsed, metas):
        if res is None:
            continue
        chk.nontriv(sc)
        cl = [c.strip() for c in sc[len("simnet "):].split(" ; ")][1:]
        r = dict(zip(cl, res))
        chk.count("abandoned-behind-an-inflight-limit", n_ab)
        fresh = [r["join f%d 600000" % k] for k in range(limit)]
        if not all(x.startswith("ok st=200") for x in fresh):
            chk.monitor_fail("after %d abandoned calls (one at a time) behind an in-flight limit of %d (%s) the peer's next %d concurrent calls got %s" % (n_ab, limit, "Block" if mode else "ReturnError", limit, [x[:12] for x in fresh]), dict(case=sc))
        st = fields(r["stat 1"])
        if int(st["started"]) - int(st["completed"]) - int(st["dropped"]) != 0:
            chk.monitor_fail("handlers of abandoned calls still running: " + r["stat 1"], dict(case=sc))


def c09_asymmetric_idle(chk):
    """The two ends are configured with different idle timeouts (3 s and 60 s); the connection is made by either end,
    plainly or naming the other's identity, and then lost silently (a cut that is never healed): both ends report it
    lost within the shorter timeout - whoever dialed, and however."""
    scen, metas = [], []
    for short_dials in (True, False):
        for pinned in (False, True):
            rng = chk.rng
            a, b = (1, 2) if short_dials else (2, 1)
            cmds = ["seed=%d delay=%d" % (rng.randrange(1 << 30), rng.choice([500, 2000])),
                    "node 1 key=11 name=n10 idle=3000 keepalive=1000 ctimeout=1000", "node 2 key=12 name=n10 idle=60000 keepalive=1000 ctimeout=1000",
                    "connect %d %d%s" % (a, b, " pin=%d" % b if pinned else ""), "sleep 500", "peers 1", "peers 2",
                    "part 1 2", "sleep 6000", "peers 1", "peers 2", "events 1", "events 2"]
            scen.append("simnet " + " ; ".join(cmds))
            metas.append((short_dials, pinned))
    outs, parsed = run_scenarios(chk, scen, "fabric:asymmetric-idle-timeouts")
    for sc, res, (short_dials, pinned) in zip(scen, parsed, metas):
        if res is None:
            continue
        chk.nontriv(sc)
        if res[4] != "[2]" or res[5] != "[1]":
            chk.monitor_fail("the connection was not established (%s / %s)" % (res[4], res[5]), dict(case=sc))
            continue
        for node, x in ((1, res[8]), (2, res[9])):
            if x != "[]":
                chk.monitor_fail("6 s after a silent loss node %d (the end with the %s idle timeout; the %s end dialed%s) still lists the lost peer: the connection's idle timeout is the shorter of the two configured ones, 3 s"
                                 % (node, "3 s" if node == 1 else "60 s", "3 s" if short_dials else "60 s", ", naming the identity" if pinned else ""), dict(case=sc))


def c09_handler_panic(chk):
    """A request handler of the application panics.  Whatever the library makes of that (the pinned code lets the panic
    take the whole network down), the views must stay mutual and every listed peer reachable."""
    quick = chk.tier == "quick"
    scen = []
    for i in range(3 if quick else 12):
        rng = chk.rng
        cmds = ["seed=%d delay=%d xpanic=1" % (rng.randrange(1 << 30), rng.choice([500, 2000]))]
        cmds += ["node %d key=%d name=n10 idle=10000 keepalive=1000 ctimeout=1000" % (j, 10 + j) for j in (1, 2, 3)]
        cmds += ["connect 1 2", "connect 3 2", "sleep 300"]
        if i % 3 == 1:
            cmds += ["connect 2 1", "sleep 300"]
        victim, caller = (2, 1) if i % 2 == 0 else (1, 2)
        cmds += ["rpc %d %d id=boom size=5 panic=1" % (caller, victim), "sleep 13000", "peers 1", "peers 2", "peers 3"]
        cmds += ["rpc %d %d id=p%d%d size=5" % (a, b, a, b) for a in (1, 2, 3) for b in (1, 2, 3) if a != b]
        scen.append("simnet " + " ; ".join(cmds))
    outs, parsed = run_scenarios(chk, scen, "fabric:handler-panic")
    for sc, o, res in zip(scen, outs, parsed):
        if res is None:
            continue
        chk.nontriv(sc)
        cl = [c.strip() for c in sc[len("simnet "):].split(" ; ")][1:]
        r = dict(zip(cl, res))
        lists = {j: [x for x in r["peers %d" % j].strip("[]").split(",") if x and x != "gone"] for j in (1, 2, 3)}
        for a in (1, 2, 3):
            for b in (1, 2, 3):
                if a == b:
                    continue
                if (str(b) in lists[a]) != (str(a) in lists[b]):
                    chk.monitor_fail("after a handler panic and a quiet period node %d lists %d but not vice versa (%s / %s)" % (a, b, lists[a], lists[b]), dict(case=sc))
                x = r["rpc %d %d id=p%d%d size=5" % (a, b, a, b)]
                if str(b) in lists[a] and not x.startswith("ok st=200"):
                    chk.monitor_fail("after a handler panic and a quiet period node %d lists %d but an RPC to it fails: %s" % (a, b, x[:60]), dict(case=sc))


def req_bytes(route, headers, body):
    """Wire bytes of a request (layout of C07)."""
    import struct
    h = struct.pack("<Q", len(route)) + route + struct.pack("<Q", len(headers))
    for k, v in headers:
        h += struct.pack("<Q", len(k)) + k + struct.pack("<Q", len(v)) + v
    return b"anemo\x00\x01\x00" + struct.pack(">I", len(h)) + h + struct.pack(">I", len(body)) + body


def resp_bytes(status, headers, body):
    """Wire bytes of a response (layout of C07)."""
    import struct
    h = struct.pack("<H", status) + struct.pack("<Q", len(headers))
    for k, v in headers:
        h += struct.pack("<Q", len(k)) + k + struct.pack("<Q", len(v)) + v
    return b"anemo\x00\x01\x00" + struct.pack(">I", len(h)) + h + struct.pack(">I", len(body)) + body


def c06(chk):
    quick = chk.tier == "quick"
    scen = []
    n = 16 if quick else 200
    valid = req_bytes(b"/echo", [(b"id", b"adv")], b"hello")
    answers = []
    # route tables an application may give its Router (the victim serves one of them in most scenarios; "/echo" is
    # always present for the honest calls); hostile route strings are derived from the table in use
    TABLES = [None, ["/echo"], ["/echo", "/peers", "/peer/info"], ["/echo", "/ab", "/a/x"], ["/echo", "/EchoAdmin/*rest", "/Echo/ping"],
              ["/echo", "/e", "/ec/ho/", "/echo2/"], ["/", "/echo"], ["/echo", "/users/:id", "/users/:id/posts", "/files/*path"],
              ["/echo", "/:svc/info"], ["/echo", "/a/b/c/d", "/a/b/cd", "/a/bc/d"]]
    def derived(rng, table):
        r = rng.choice(table or ["/echo"])
        k = rng.randrange(0, len(r) + 1)
        c = rng.choice([r[:k], r[:k] + "/", r + "/", r.rstrip("/"), r + "//", "/" + r, r[:k] + "//" + r[k:], r.replace(":id", "7").replace("*path", "x/y").replace(":svc", "s"),
                        r.replace(":id", "").replace("*path", "").replace(":svc", ""), r[:k] + "/" + r[k:], "", "/", "//", r.upper()])
        return c.encode()
    n += len(TABLES) - 1
    for i in range(n):
        rng = chk.rng
        table = TABLES[(i - 1) % len(TABLES)] if i >= 2 else None
        rt = " routes=" + ",".join(x.encode().hex() for x in table) if table else ""
        # in half of the scenarios the victim has an inbound default timeout (long enough not to touch the honest calls):
        # the library then combines it with whatever the peer put into its `timeout` header
        rt += " in_to=60000" if (rng.random() < 0.5 or i == 0) else ""
        cmds = ["seed=%d delay=%d" % (rng.randrange(1 << 30), rng.choice([500, 5000])),
                "node 1 key=1 name=n10 idle=60000 keepalive=5000 maxbidi=32" + rt, "node 2 key=2 name=n10 idle=60000 keepalive=5000",
                "adv 8 k=7 names=n10", "advdial 8 1 sni=n10", "connect 2 1", "sleep 300",
                "bg slow rpc 2 1 id=slow size=1000 sleep-ms=2000"]
        ops = []
        hostile_answers = {}
        if i == 0:
            # systematic part: well-formed requests whose `timeout` (and one arbitrary) header holds a multi-byte
            # character straddling each of the byte offsets a careless truncation would pick
            for off in (4, 8, 16, 24, 32, 48, 64, 100, 128, 255, 256, 512, 1024):
                for ch in ("\u00e9", "\u20ac", "\U0001F600"):
                    for back in range(1, len(ch.encode())):
                        v = ("1" * (off - back) + ch * 3).encode()
                        ops.append("advop 8 1 bi:%s:finish" % req_bytes(b"/echo", [(b"id", b"adv"), (b"timeout", v), (b"x-note", v)], b"hello").hex())
        if i == 0:
            # numeric edge values of the timeout header against a victim that has an inbound default of its own
            for v in ("0", "1", "999", "999999", "1000000", "1000001", "59999999999", "60000000000", "60000000001", "18446744073709551615", "18446744073709551616"):
                ops.append("advop 8 1 bi:%s:finish" % req_bytes(b"/echo", [(b"id", b"adv"), (b"timeout", v.encode())], b"hello").hex())
        if i == 1:
            # the same sweep for answers: well-formed responses whose header values hold a multi-byte character straddling each offset
            n = 0
            for off in (4, 8, 16, 24, 32, 48, 64, 100, 128, 255, 256, 512, 1024):
                for ch in ("\u00e9", "\u20ac", "\U0001F600"):
                    for back in range(1, len(ch.encode())):
                        v = ("1" * (off - back) + ch * 3).encode()
                        ops.append("advserve 8 %s:finish" % resp_bytes(200, [(b"status-message", v), (b"content-type", v), (b"x-note", v)], b"answer").hex())
                        ops.append("rpc 1 8 id=w%d size=0" % n)
                        n += 1
        if 2 <= i < 1 + len(TABLES):
            # systematic part, once per route table: every prefix of every served route, with and without a further
            # slash, and the usual near misses of each route, as byte-wise well-formed requests
            cand = []
            for r in table:
                for k in range(len(r) + 1):
                    cand += [r[:k], r[:k] + "/"]
                cand += [r + "//", "/" + r, r.upper(), r.replace(":id", "7").replace("*path", "x/y").replace(":svc", "s"), r.replace(":id", "").replace("*path", "").replace(":svc", "")]
            for c in sorted(set(cand)):
                ops.append("advop 8 1 bi:%s:finish" % req_bytes(c.encode(), [(b"id", b"adv")], b"hello").hex())
        for j in range(rng.randrange(4, 30)):
            r = rng.random()
            if r < 0.2:
                data = rng.randbytes(rng.choice([0, 1, 7, 8, 12, 40, 200]))
            elif r < 0.45:
                data = valid[:rng.randrange(0, len(valid))]                       # truncated at a random offset
            elif r < 0.6:
                m = bytearray(valid)
                m[rng.randrange(len(m))] ^= rng.choice([1, 0x80, 0xff])
                data = bytes(m)
            elif r < 0.7:
                data = b"anemo\x00\x01\x00" + rng.choice([b"\xff\xff\xff\xff", b"\x7f\xff\xff\xff", b"\x00\x80\x00\x01"]) + rng.randbytes(20)
            elif r < 0.75:
                data = b"anemo\x00\x01\x00" + b"\x00\x00\x00\x18" + b"\xff" * 8 + rng.randbytes(16)   # absurd string length
            elif r < 0.9:
                # well-formed requests whose header values are hostile: the headers the library itself interprets
                # (timeout) and arbitrary ones, with long / non-numeric / non-ASCII text, multi-byte characters at every offset
                def nasty():
                    k = rng.randrange(0, 70)
                    return rng.choice([
                        "1" * k + "\u00e9" * rng.randrange(1, 12), "\u00e9" * k, "\U0001F600" * rng.randrange(1, 20), "9" * k, "-" + "1" * k, " " * k,
                        "1" * k + "\u20ac" + "x" * rng.randrange(0, 40), "\x00" * k, "18446744073709551616", "1e9", "+5", "0x10", "",
                        "0", "1", "999", "999999", "1000000", "18446744073709551615", "00000000000000000000001"]).encode()
                hs = [(b"id", b"adv")]
                for _ in range(rng.randrange(1, 4)):
                    hs.append((rng.choice([b"timeout", b"timeout", b"status-message", b"content-type", b"x-" + nasty()[:20]]), nasty()))
                hs = list(dict(hs).items())
                data = req_bytes(rng.choice([b"/echo", b"/echo", b"/none", nasty()[:40], derived(rng, table)]), hs, b"hello")
            elif r < 0.96 or table:
                # byte-wise well-formed requests whose route is an odd relative of the routes the victim serves
                data = req_bytes(derived(rng, table), [(b"id", b"adv")], b"hello")
            else:
                data = valid
            kind = rng.random()
            if kind < 0.75:
                act = rng.choice(["finish", "reset", "hold", "abandon", "stop"])
                ops.append("advop 8 1 bi:%s:%s" % (data.hex() or "-", act))
            elif kind < 0.85:
                ops.append("advop 8 1 uni:%s:%s" % (data.hex() or "-", rng.choice(["finish", "hold", "hold", "reset"])))
            elif kind < 0.95:
                ops.append("advop 8 1 datagram:%s" % (data[:1000].hex() or "-"))
            else:
                ops.append("advop 8 1 bi:%s:finish" % valid.hex())
            if rng.random() < 0.3:
                ops.append("rpc 2 1 id=h%d size=%d" % (j, rng.choice([0, 100, 5000])))
            if rng.random() < 0.25:
                # the victim calls the hostile peer, which answers with scripted bytes: valid with hostile header values,
                # truncated, mutated, unknown status, absurd lengths, nothing at all; finished, reset or left open
                good = resp_bytes(200, [(b"status-message", ("m" * rng.randrange(0, 70) + rng.choice(["", "\u00e9\u00e9", "\U0001F600"])).encode()),
                                        (b"content-type", b"x" * rng.randrange(0, 40))], b"answer")
                k = rng.random()
                if k < 0.3:
                    rb, act = good, "finish"
                elif k < 0.5:
                    rb, act = good[:rng.randrange(0, len(good))], rng.choice(["finish", "reset", "hold"])
                elif k < 0.65:
                    m = bytearray(good)
                    m[rng.randrange(len(m))] ^= rng.choice([1, 0x80, 0xff])
                    rb, act = bytes(m), "finish"
                elif k < 0.75:
                    rb, act = resp_bytes(rng.choice([0, 1, 199, 299, 65535]), [], b""), "finish"
                elif k < 0.85:
                    rb, act = b"anemo\x00\x01\x00" + rng.choice([b"\xff\xff\xff\xff", b"\x00\x80\x00\x01", b"\x00\x00\x00\x00", b"\x00\x00\x00\x01\x00"]) + rng.randbytes(12), "finish"
                else:
                    rb, act = rng.randbytes(rng.choice([0, 3, 8, 30])), rng.choice(["finish", "reset", "hold"])
                ops.append("advserve 8 %s:%s" % (rb.hex() or "-", act))
                ops.append("rpc 1 8 id=v%d size=%d%s" % (j, rng.choice([0, 50]), " abandon-us=3000000" if act == "hold" else ""))
                hostile_answers["v%d" % j] = (rb == good and act == "finish")
        ops.append("advop 8 1 bi:%s:finish" % valid.hex())      # a well-formed request of the hostile peer is still served
        if rng.random() < 0.5:
            ops.append("advop 8 1 close")
        cmds += ops + ["join slow 600000", "rpc 2 1 id=after size=64", "rpc 1 2 id=rev size=64", "closed 1", "peers 1", "stat 1", "trace"]
        scen.append("simnet " + " ; ".join(cmds))
        answers.append(hostile_answers)
    outs, parsed = run_scenarios(chk, scen, "fabric:hostile")
    # trace acceptance: the victim's manager / handler events replayed on Shutdown.v; it must still be in its loop
    tcases = [mgr_trace_case(res[-1], 1)[0] if res is not None else "mgrtrace" for res in parsed]
    for sc, res, tc, m in zip(scen, parsed, tcases, run_model(tcases)):
        if res is None:
            continue
        chk.evaluations += 1
        chk.count("manager-trace-events", len(tc.split()) - 1)
        if not m.startswith("accepted ph=loop "):
            chk.disagree(sc, "manager trace: " + tc[:3000], "Shutdown.v: " + m, "simnet/mgrtrace")
        else:
            listed = sorted("2" if x == "2" else "adv" for x in res[-3].strip("[]").split(",") if x)
            ment = sorted("2" if x == "2" else "adv" for x in fields(m)["entries"].strip("[]").split(",") if x)
            if listed != ment:
                chk.disagree(sc, "peers 1 = %s" % listed, "Shutdown.v entries: " + m, "simnet/mgrtrace-observables")
    for sc, o, res, hostile_answers in zip(scen, outs, parsed, answers):
        if res is None:
            continue
        chk.nontriv(sc)
        cmds = [c.strip() for c in sc[len("simnet "):].split(" ; ")][1:]
        closed_conn = False
        for c, x in zip(cmds, res):
            if c.startswith("advop"):
                chk.count("hostile:" + c.split()[3].split(":")[0] + (":" + c.split()[3].split(":")[2] if c.split()[3].startswith("bi") else ""))
                if "routes=" in cmds[0]:
                    chk.count("victim-serves-a-router")
                if c.endswith("close"):
                    closed_conn = True
                if c == "advop 8 1 bi:%s:finish" % valid.hex() and not closed_conn and not x.startswith("answered"):
                    chk.monitor_fail("a well-formed request of the hostile peer on another stream was not served: " + x, dict(case=sc))
            if c.startswith("rpc 2 1") or c.startswith("rpc 1 2") or c.startswith("join slow"):
                if not x.startswith("ok st=200"):
                    chk.monitor_fail("an honest RPC failed while a hostile peer was misbehaving: %s -> %s" % (c, x[:100]), dict(case=sc))
                else:
                    f = fields(x)
                    if f["body"] != f["sent"]:
                        chk.monitor_fail("an honest RPC returned a wrong body while a hostile peer was misbehaving", dict(case=sc))
            if c.startswith("rpc 1 8 "):
                chk.count("hostile-answer:" + x.split()[0])
                if x == "HANG" or "stuck" in x:
                    chk.monitor_fail("a call answered by the hostile peer never returned: " + x[:100], dict(case=sc))
                elif x.startswith("ok") and (c.split()[3][3:].startswith("w") or hostile_answers.get(c.split()[3][3:])) and (fields(x)["st"] != "200" or fields(x)["body"] != digest(b"answer")):
                    chk.monitor_fail("a call answered by the hostile peer returned a body it did not send: " + x[:160], dict(case=sc))
            if c == "closed 1" and not x.startswith("closed=0"):
                chk.monitor_fail("the network shut down under hostile input: " + x, dict(case=sc))
            if c == "peers 1" and "2" not in x.strip("[]").split(","):
                chk.monitor_fail("the honest peer was disconnected under hostile input: " + x, dict(case=sc))
    if outs:
        chk.sample(dict(case=scen[0][:500], impl=outs[0][-400:]))


def c11(chk):
    """End-to-end deadlines: both ends' configured defaults x timeout header x handler duration."""
    quick = chk.tier == "quick"
    scen, models, metas = [], [], []
    n = 40 if quick else 500
    MS = 1000000
    # (the scenarios with a default of zero come last and draw from a generator of their own: the others do not depend on them)
    import random as _random
    rng0 = _random.Random("c11-zero-%d" % chk.seed)
    for i in range(n + (8 if quick else 60)):
        rng = chk.rng if i < n else rng0
        delay_ms = rng.choice([1, 5, 20])
        out_to = rng.choice([None, None, 100, 300, 1000])
        in_to = rng.choice([None, None, 100, 300, 1000])
        # a configured default of zero is a default like any other (deadline 0: nothing that has to wait gets through)
        if i >= n and i % 2 == 0:
            in_to = 0
        elif i >= n:
            out_to = 0
        hk = rng.choice(["none", "none", "ms", "ms", "garbage", "huge"])
        if hk == "ms":
            hv = rng.choice([50, 200, 600, 2000])
            hdr = str(hv * MS)
        elif hk == "garbage":
            hv, hdr = None, rng.choice(["abc", "-5", "", "1.5", str(2**64)])
        elif hk == "huge":
            hv, hdr = 2**64 - 1, str(2**64 - 1)
        else:
            hv, hdr = None, None
        # handler duration: keep >= 10 ms away from every deadline involved
        cands = [x for x in [10, 60, 150, 250, 400, 800, 1500, 3000]]
        h = rng.choice(cands)
        d1 = d2 = delay_ms
        e_in = min([x for x in [in_to, (hv // MS if hv is not None and hv < 2**63 else None)] if x is not None], default=None)
        e_out = min([x for x in [out_to, (hv // MS if hv is not None and hv < 2**63 else None)] if x is not None], default=None)
        def near(a, b):
            return a is not None and abs(a - b) < 10
        served = min(h, e_in) if e_in is not None else h
        if near(e_in, h) or near(e_out, d1 + served + d2):
            continue
        cmds = ["seed=%d delay=%d" % (rng.randrange(1 << 30), delay_ms * 1000),
                # in a third of the runs the caller was built with an outbound request layer of its own (a no-op one)
                "node 0 idle=600000 keepalive=5000" + (" out_to=%d" % out_to if out_to is not None else "") + (" outlayer=1" if rng.random() < 0.35 else ""),
                "node 1 idle=600000 keepalive=5000" + (" in_to=%d" % in_to if in_to is not None else ""),
                "connect 0 1", "sleep 500",
                # the handler needs its time in one await, or in several (7, 30) shorter ones: the deadline counts from the start
                "rpc 0 1 id=t size=20 sleep-ms=%d%s%s" % (h, " timeout-hdr=%s" % (hdr.encode().hex() or "-") if hdr is not None else "", rng.choice(["", "", " ticks=7", " ticks=30"])),
                "sleep %d" % (4 * delay_ms + 50), "stat 1", "rpc 0 1 id=again size=5", "peers 0"]
        scen.append("simnet " + " ; ".join(cmds))
        o = lambda x: "none" if x is None else str(x * MS)
        models.append("trpc %s %s %s %d %d %d" % (o(out_to), o(in_to), "none" if hdr is None else (hdr.encode().hex() or "-"), h * MS, d1 * MS, d2 * MS))
        metas.append((out_to, in_to, hdr, h, delay_ms))
    outs, parsed = run_scenarios(chk, scen, "fabric:deadline")
    mouts = run_model(models)
    for sc, mc, o, res, mo, (out_to, in_to, hdr, h, delay_ms) in zip(scen, models, outs, parsed, mouts, metas):
        if res is None:
            continue
        chk.nontriv(sc)
        r = res[4]
        el_ms = int(fields(r).get("t", "0")) / 1000.0
        if r.startswith("ok st=200"):
            got = "response"
        elif r.startswith("ok st=408"):
            got = "status408"
        elif r.startswith("err timeout"):
            got = "callertimeout"
        else:
            got = "other:" + r[:40]
        chk.count("outcome:" + got.split(":")[0])
        mk, mt = (mo.split() + ["0"])[:2]
        if mk == "unspecified":
            continue
        mt_ms = int(mt) / 1e6
        # model-independent monitor: the call never lasts longer than the smallest configured local limit
        lim = [x for x in [out_to] if x is not None]
        if lim and el_ms > min(lim) + 5:
            chk.monitor_fail("an RPC lasted %.1f ms although the caller's outbound default is %d ms" % (el_ms, min(lim)), dict(case=sc, impl=r))
        if in_to is not None and h > in_to + 10 and got == "response":
            chk.monitor_fail("a handler needing %d ms was answered normally although the callee's inbound default is %d ms" % (h, in_to), dict(case=sc, impl=r))
        if got != mk or abs(el_ms - mt_ms) > 4 + 0.2 * delay_ms:
            chk.disagree(sc, "%s after %.1f ms" % (got, el_ms), "%s after %.1f ms (%s)" % (mk, mt_ms, mc), "simnet/deadline")
            continue
        st = fields(res[6])
        if out_to == 0:
            # an outbound default of zero: no call of this node can wait for anything, the follow-up call included
            chk.count("outbound-default-zero")
            if not res[7].startswith("err timeout"):
                chk.monitor_fail("the caller's outbound default is 0 ms, yet a follow-up RPC was not cut off at once: " + res[7][:80], dict(case=sc))
            continue
        if in_to == 0:
            chk.count("inbound-default-zero")
        if got != "response" and int(st["dropped"]) != 1:
            chk.monitor_fail("the handler of a timed-out request was not dropped (started=%s completed=%s dropped=%s)" % (st["started"], st["completed"], st["dropped"]), dict(case=sc, impl=res[6]))
        if not res[7].startswith("ok st=200"):
            chk.monitor_fail("a follow-up RPC after a deadline event failed: " + res[7][:80], dict(case=sc))
    if outs:
        chk.sample(dict(case=scen[0], impl=outs[0][:300], model=mouts[0]))
    # the deadline covers the whole call, also the wait for a stream: the callee allows B concurrent streams, B long calls
    # hold them all, and a further call with a deadline must fail at that deadline (not when a stream frees up)
    scen2, metas2, models2 = [], [], []
    for i in range(6 if quick else 60):
        rng = chk.rng
        B = rng.choice([1, 2, 4])
        out_to = None          # (an outbound default would cut the calls holding the streams as well)
        hv = rng.choice([150, 300, 800])
        E = hv
        cmds = ["seed=%d delay=1000" % rng.randrange(1 << 30),
                "node 0 idle=600000 keepalive=5000" + (" out_to=%d" % out_to if out_to else "") + (" outlayer=1" if rng.random() < 0.35 else ""),
                "node 1 idle=600000 keepalive=5000 maxbidi=%d" % B, "connect 0 1", "sleep 500"]
        cmds += ["bg hold%d rpc 0 1 id=hold%d size=10 sleep-ms=3000 timeout-hdr=%s" % (k, k, str(60000 * MS).encode().hex()) for k in range(B)]
        cmds += ["sleep 50", "rpc 0 1 id=late size=10 sleep-ms=10%s" % (" timeout-hdr=%s" % str(hv * MS).encode().hex() if hv else "")]
        cmds += ["join hold%d 600000" % k for k in range(B)] + ["rpc 0 1 id=after size=5"]
        scen2.append("simnet " + " ; ".join(cmds))
        metas2.append((B, E))
        # Timeout.rpc_outcome_w: the call is made 50 ms after the holders, which keep the streams for 3000 ms + 2 delays
        models2.append("trpcw none none %s %d %d %d %d" % (str(hv * MS).encode().hex(), (3000 + 2 - 50) * MS, 10 * MS, 1 * MS, 1 * MS))
    outs2, parsed2 = run_scenarios(chk, scen2, "fabric:deadline-waiting-for-a-stream")
    for sc, res, (B, E), mo in zip(scen2, parsed2, metas2, run_model(models2)):
        if res is None:
            continue
        chk.nontriv(sc)
        late0 = [x for c, x in zip([c.strip() for c in sc[len("simnet "):].split(" ; ")][1:], res) if c.startswith("rpc 0 1 id=late")][0]
        got = "callertimeout" if late0.startswith("err timeout") else "response" if late0.startswith("ok st=200") else "other:" + late0[:30]
        el0 = int(fields(late0).get("t", "0")) / 1000.0
        mk, mt = (mo.split() + ["0"])[:2]
        if mk != "unspecified" and (got != mk or abs(el0 - int(mt) / 1e6) > 6):
            chk.disagree(sc, "%s after %.1f ms" % (got, el0), "Timeout.rpc_outcome_w: %s after %.1f ms" % (mk, int(mt) / 1e6), "simnet/deadline-wait")
        cl = [c.strip() for c in sc[len("simnet "):].split(" ; ")][1:]
        late = [x for c, x in zip(cl, res) if c.startswith("rpc 0 1 id=late")][0]
        el_ms = int(fields(late).get("t", "0")) / 1000.0
        if late.startswith("ok") or el_ms > E + 15:
            chk.monitor_fail("a call with a %d ms deadline made while all %d streams of the connection were in use %s after %.1f ms" % (E, B, "was answered normally" if late.startswith("ok") else "failed only", el_ms), dict(case=sc, impl=late))
        holds = [x for c, x in zip(cl, res) if c.startswith("join hold")]
        if not all(x.startswith("ok st=200") for x in holds) or not res[-1].startswith("ok st=200"):
            chk.monitor_fail("the calls holding the streams or the follow-up call failed: %s / %s" % ([x[:30] for x in holds], res[-1][:40]), dict(case=sc))


def c11_raw(chk):
    """The serving side enforces min(its inbound default, the request's timeout header) on its own: a caller that is not
    anemo's client (a raw, properly authenticated peer that sets the header and simply waits) is answered RequestTimeout at
    that deadline, or normally when the handler is faster."""
    quick = chk.tier == "quick"
    MS = 1000000
    scen, metas = [], []
    for i in range(12 if quick else 120):
        rng = chk.rng
        in_to = rng.choice([None, None, None, 100, 300, 1000])
        hv = rng.choice([None, 50, 200, 600, 2000]) if i % 3 else rng.choice([50, 200, 600])
        h = rng.choice([10, 60, 150, 250, 400, 800, 1500, 3000])
        e_in = min([x for x in (in_to, hv) if x is not None], default=None)
        if e_in is not None and abs(e_in - h) < 15:
            continue
        hs = [(b"id", b"raw"), (b"sleep-ms", str(h).encode())] + ([(b"timeout", str(hv * MS).encode())] if hv is not None else [])
        if rng.random() < 0.5:
            hs.append((b"ticks", rng.choice([b"5", b"30"])))       # a handler that makes progress in many short steps
        cmds = ["seed=%d delay=1000" % rng.randrange(1 << 30),
                "node 1 key=1 name=n10 idle=600000 keepalive=5000" + (" in_to=%d" % in_to if in_to else ""),
                "adv 8 k=7 names=n10", "advdial 8 1 sni=n10", "sleep 300",
                "advop 8 1 bi:%s:finish" % req_bytes(b"/echo", hs, b"hello").hex(), "sleep 50", "stat 1"]
        scen.append("simnet " + " ; ".join(cmds))
        metas.append((in_to, hv, h, e_in))
    outs, parsed = run_scenarios(chk, scen, "fabric:deadline-raw-caller")
    # Timeout.v: the serving side alone (no outbound default, the header as sent)
    models = ["trpc none %s %s %d %d %d" % ("none" if in_to is None else str(in_to * MS), "none" if hv is None else str(hv * MS).encode().hex(), h * MS, 1 * MS, 1 * MS) for in_to, hv, h, e_in in metas]
    for sc, res, (in_to, hv, h, e_in), mo in zip(scen, parsed, metas, run_model(models)):
        if res is None:
            continue
        chk.nontriv(sc)
        r = res[4]
        f = fields(r) if r.startswith("answered") else {}
        el = int(f.get("t", 0)) / 1000.0
        cut = e_in is not None and e_in < h
        chk.count("raw-caller:" + ("cut-off" if cut else "served"))
        want_st, want_t = ("408", e_in + 2) if cut else ("200", h + 2)
        if not r.startswith("answered") or f.get("st") != want_st or abs(el - want_t) > 8:
            chk.monitor_fail("serving side (inbound default %s, timeout header %s ms, handler %d ms) answered a raw caller with %s after %.1f ms; the deadline min(default, header) requires status %s after about %d ms"
                             % (in_to, hv, h, r[:40], el, want_st, want_t), dict(case=sc, impl=r))
            continue
        st = fields(res[6])
        if cut and int(st["dropped"]) != 1:
            chk.monitor_fail("the handler of a request cut off at the serving side's deadline was not dropped (%s)" % res[6], dict(case=sc))
        # the model's view of the same call (a caller without a deadline of its own sees status 408 / the response)
        mk = mo.split()[0]
        if mk not in ("unspecified",) and mk != ("status408" if cut else "response") and hv is None:
            chk.disagree(sc, "status %s" % want_st, "Timeout.v: " + mo, "simnet/deadline-raw")


def c11_outlayer(chk):
    """The caller's application installed an outbound layer of its own that holds every request back for a while: the
    deadline min(outbound default, timeout header) still bounds the whole call as the caller sees it."""
    MS = 1000000
    scen, metas = [], []
    for i in range(6 if chk.tier == "quick" else 40):
        rng = chk.rng
        hold = rng.choice([50, 300, 800])
        out_to = rng.choice([None, 100, 500])
        hv = rng.choice([None, 200, 600]) if out_to is not None else rng.choice([200, 600])
        h = rng.choice([10, 100])
        e = min(x for x in (out_to, hv) if x is not None)
        if abs(e - (hold + h + 2)) < 30 or abs(e - hold) < 30:
            continue
        cmds = ["seed=%d delay=1000" % rng.randrange(1 << 30),
                "node 0 idle=600000 keepalive=5000 outlayer=delay%d%s" % (hold, " out_to=%d" % out_to if out_to else ""),
                "node 1 idle=600000 keepalive=5000", "connect 0 1", "sleep 500",
                "rpc 0 1 id=t size=20 sleep-ms=%d%s" % (h, " timeout-hdr=%s" % str(hv * MS).encode().hex() if hv else ""), "sleep 100", "rpc 0 1 id=again size=5"]
        scen.append("simnet " + " ; ".join(cmds))
        metas.append((hold, out_to, hv, h, e))
    outs, parsed = run_scenarios(chk, scen, "fabric:deadline-with-a-user-outbound-layer")
    for sc, res, (hold, out_to, hv, h, e) in zip(scen, parsed, metas):
        if res is None:
            continue
        chk.nontriv(sc)
        r = res[4]
        el = int(fields(r).get("t", "0")) / 1000.0
        total = hold + h + 2
        chk.count("user-outbound-layer:" + ("cut-off" if e < total else "served"))
        if e < total:
            if not r.startswith("err timeout") or abs(el - e) > 8:
                chk.monitor_fail("caller with a user outbound layer holding requests for %d ms, outbound default %s, timeout header %s ms, handler %d ms: the call %s after %.1f ms; the deadline %d ms bounds the whole call"
                                 % (hold, out_to, hv, h, r[:30], el, e), dict(case=sc, impl=r))
        elif not r.startswith("ok st=200") or abs(el - total) > 8:
            chk.monitor_fail("a call that needs %d ms under a deadline of %d ms: %s after %.1f ms" % (total, e, r[:30], el), dict(case=sc, impl=r))


def hdr_size_req(route, headers):
    return 8 + len(route) + 8 + sum(16 + len(k) + len(v) for k, v in headers)


def hdr_size_resp(headers):
    return 2 + 8 + sum(16 + len(k) + len(v) for k, v in headers)


def c15(chk):
    """The four placements of the limit x sizes around it x request vs response, header vs body."""
    quick = chk.tier == "quick"
    scen, models, metas = [], [], []
    n = 40 if quick else 500
    MIB8 = 8 * 1024 * 1024
    for i in range(n):
        rng = chk.rng
        m = rng.choice([200, 1000, 4096, 65536])
        place = rng.choice(["caller", "callee", "both", "neither", "different"])
        cmax = m if place in ("caller", "both") else (2 * m if place == "different" else None)
        smax = m if place in ("callee", "both", "different") else None
        rid = "z%d" % i
        which = rng.choice(["qb", "rb", "qh", "rh"])
        d = rng.choice([-2, -1, 0, 1, 2, 50])
        base_req_h = [("id", rid)]
        qb = rb = 10
        qpad = rpad = None
        lim = min(x for x in [cmax, smax, MIB8] if x is not None)
        if which == "qb":
            qb = lim + d
        elif which == "rb":
            rb = lim + d
        args = "id=%s size=%d resp-size=%d" % (rid, qb, rb)
        req_h = [("id", rid), ("resp-size", str(rb))]
        if which == "qh":
            base = hdr_size_req("/echo", req_h + [("pad", "")])
            qpad = max(0, lim + d - base)
            args += " hdr-size=%d" % qpad
            req_h.append(("pad", "q" * qpad))
        if which == "rh":
            # response headers written by the harness service: pad, srv, id, seen-from, origin
            base = hdr_size_resp([("pad", ""), ("srv", "1"), ("id", rid), ("seen-from", "0"), ("origin", "in"), ("hdr-digest", "0" * 16)])
            rpad = max(0, lim + d - base)
            args += " resp-hdr-size=%d" % rpad
            req_h.append(("resp-hdr-size", str(rpad)))
        qh = hdr_size_req("/echo", req_h)
        rh = hdr_size_resp([("srv", "1"), ("id", rid), ("seen-from", "0"), ("origin", "in"), ("hdr-digest", "0" * 16)] + ([("pad", "p" * rpad)] if rpad is not None else []))
        cmds = ["seed=%d delay=500" % rng.randrange(1 << 30),
                "node 0 idle=600000 keepalive=5000" + (" maxframe=%d" % cmax if cmax else ""),
                "node 1 idle=600000 keepalive=5000" + (" maxframe=%d" % smax if smax else ""),
                "connect 0 1", "sleep 300", "bg x rpc 0 1 " + args, "join x 60000", "rpc 0 1 id=after size=5", "peers 0", "stat 1"]
        scen.append("simnet " + " ; ".join(cmds))
        f = lambda x: "none" if x is None else str(x)
        models.append("rpcsize %s %s %d %d %d %d" % (f(cmax), f(smax), qh, qb, rh, rb))
        metas.append((cmax, smax, qh, qb, rh, rb, rid))
    outs, parsed = run_scenarios(chk, scen, "fabric:size-limit")
    mouts = run_model(models)
    for sc, mc, o, res, mo, (cmax, smax, qh, qb, rh, rb, rid) in zip(scen, models, outs, parsed, mouts, metas):
        if res is None:
            continue
        chk.nontriv(sc)
        r = res[5]
        chk.count("outcome:" + mo)
        if r == "HANG":
            chk.monitor_fail("an RPC with a frame near the limit neither returned nor failed (hang)", dict(case=sc, model=mo))
            continue
        delivered = r.startswith("ok st=200")
        if delivered:
            f = fields(r)
            if f["body"] != pat_digest(rb, len(rid)):
                chk.monitor_fail("delivered response is not intact", dict(case=sc, impl=r[:200]))
        # the connection survives and a follow-up RPC works
        if not res[6].startswith("ok st=200") or res[7] != "[1]":
            chk.monitor_fail("a size-limit refusal damaged the connection: follow-up %s, peers %s" % (res[6][:60], res[7]), dict(case=sc))
        # monitor restating C15 with configured limits (the unconfigured 8 MiB default is the codec-level known finding)
        lim = min(x for x in [cmax, smax] if x is not None) if (cmax or smax) else None
        if lim is not None:
            want = all(x <= lim for x in (qh, qb, rh, rb))
            if delivered != want:
                chk.monitor_fail("limit %d: sizes (request header %d, body %d; response header %d, body %d) -> %s" % (lim, qh, qb, rh, rb, r[:60]), dict(case=sc))
        if (mo == "delivered") != delivered or (mo == "caller-refuses-send" and not r.startswith("err toobig")):
            chk.disagree(sc, r[:120], mo + " (" + mc + ")", "simnet/size-limit")
    if outs:
        chk.sample(dict(case=scen[0], impl=outs[0][:300], model=mouts[0]))


def mgr_trace_case(trace, node):
    """Translates the H4/H4b trace of one scenario into the event tokens of ShutdownTrace.v for
    node <node>.  Returns (model case line, facts observed in the trace itself)."""
    own = "own=n%d" % node
    lines = [l.split(",") for l in trace.strip("[]").split("|") if l]
    hid = {}          # stable id of a connection registered at this node -> model handler id
    toks = []
    facts = dict(answered_ok=0, answered_err=0, submitted=0, cleanup_removed=0)
    in_cleanup = False
    inst = None
    pending_registered = None
    waiting = {"c": 0, "s": 0}     # API calls that have not got their request into the mailbox yet
    finished = False
    for i, f in enumerate(lines):
        cat = f[1]
        kv = dict(x.split("=", 1) for x in f[2:] if "=" in x)
        if cat == "active" and f[3] == "add" and f[4] == own:
            inst = f[2]
        if cat == "api" and f[2] == own:
            k = "c" if kv["kind"] == "connect" else "s"
            if f[3] == "submit":
                # the model's Submit is the moment the request enters the mailbox ("submitted"; a caller may wait for
                # room in a bounded mailbox first) or the moment the call finds the receiver gone
                facts["submitted"] += 1
                nxt = lines[i + 1] if i + 1 < len(lines) else []
                at_once = len(nxt) > 3 and nxt[1] == "api" and nxt[2] == own and nxt[3] == "submitted" and nxt[4] == f[4]
                if finished:
                    toks.append("S:%s:0" % k)
                elif not at_once:
                    # the bounded mailbox is full: the caller waits for room (Shutdown.Issue); its request enters the
                    # mailbox at "submitted" (Shutdown.Admit), or the manager finishes first and the call fails with the rest
                    toks.append("W:%s" % k)
                    waiting[k] += 1
                    facts["waited"] = facts.get("waited", 0) + 1
            elif f[3] == "submitted":
                prev = lines[i - 1] if i > 0 else []
                at_once = len(prev) > 3 and prev[1] == "api" and prev[2] == own and prev[3] == "submit" and prev[4] == f[4]
                if at_once:
                    toks.append("S:%s:1" % k)
                else:
                    toks.append("M:%s" % k)
                    waiting[k] -= 1
            elif f[3] == "answered":
                facts["answered_ok" if kv["ok"] == "true" else "answered_err"] += 1
        elif cat == "mgr" and f[2] == own:
            ev = f[3]
            if ev == "process":
                toks.append("P:%s" % ("c" if kv["kind"] == "connect" else "s"))
            elif ev == "incoming":
                toks.append("I")
            elif ev == "accept-none":
                toks.append("N")
            elif ev == "add-peer":
                hid[kv["id"]] = len(hid)
                pending_registered = kv["peer"]
            elif ev == "conn-result":
                ok = kv["ok"] == "true"
                reg = ok and pending_registered is not None
                peer = kv["peer"].lstrip("n") if kv["peer"] != "-" else "0"
                if not peer.isdigit():
                    peer = "99"
                toks.append("R:%d:%d:%d:%s" % (kv["reply"] == "true", ok, reg, peer))
                pending_registered = None
            elif ev == "join":
                toks.append("J:%d" % (kv["cancelled"] == "true"))
            elif ev == "handles-dropped":
                toks.append("H")
            elif ev == "abort-pending":
                toks.append("AP")
            elif ev == "all-joined":
                toks.append("AJ")
                toks.append("C:%s" % kv["leftover"])
                in_cleanup = True
            elif ev == "cleanup-done":
                in_cleanup = False
            elif ev == "finish":
                toks.append("F")
                # the receiver is gone: calls still waiting for room in the mailbox fail with it (Shutdown.finish_calls)
                finished = True
        elif cat == "handler" and kv.get("id") in hid:
            h = hid[kv["id"]]
            toks.append({"req-start": "q+:%d", "req-end": "q-:%d", "drained": "A:%d"}[f[3]] % h)
        elif cat == "active" and inst is not None and f[2] == inst:
            if f[3] == "remove_stable" and kv.get("id") in hid:
                toks.append("X:%d" % hid[kv["id"]])
            elif f[3] == "remove" and kv.get("present") == "true":
                if in_cleanup:
                    facts["cleanup_removed"] += 1
                else:
                    peer = kv["peer"].lstrip("n")
                    toks.append("D:%s" % (peer if peer.isdigit() else "99"))
    # stream arrivals are not recorded (they happen inside quinn): each accepted stream arrived at some
    # point before it was accepted and before the endpoint was closed; they are placed as late as that allows
    close_at = next((i for i, t in enumerate(toks) if t in ("P:s", "H")), len(toks))
    late = [t for t in toks[close_at:] if t.startswith("q+:")]
    out = []
    for i, t in enumerate(toks):
        if i == close_at:
            out += ["a:" + x[3:] for x in late]
        if t.startswith("q+:") and i < close_at:
            out.append("a:" + t[3:])
        out.append(t)
    facts["late_requests"] = len(late)
    return "mgrtrace " + " ".join(out), facts


def c08(chk):
    """Shutdown (explicit or by dropping the last handle) with work in flight."""
    quick = chk.tier == "quick"
    scen, metas = [], []
    n = 24 if quick else 300
    for i in range(n):
        rng = chk.rng
        idle_wait = rng.choice([500, 2000])
        mode = rng.choice(["explicit", "explicit", "drop", "double", "burst"])
        # burst: the shutdown call is issued right behind a burst of other API calls, more of them than the manager's
        # mailbox holds (a small configured mailbox, or the default one and a large burst)
        mbox, burst = rng.choice([(1, 1), (1, 3), (2, 2), (2, 5), (None, 128), (None, 200), (None, 4), (16, 40)])
        cmds = ["seed=%d delay=%d" % (rng.randrange(1 << 30), rng.choice([500, 5000])),
                "node 0 idle=10000 keepalive=3000 shutdown_idle=%d ctimeout=3000%s" % (idle_wait, " mbox=%d" % mbox if mode == "burst" and mbox else ""),
                "node 1 idle=10000 keepalive=3000", "node 2 idle=10000 keepalive=3000",
                "connect 0 1", "connect 2 0", "sleep 300", "sub 0"]
        jobs = []
        def bg(cmd):
            jid = "j%d" % len(jobs)
            jobs.append((jid, cmd))
            cmds.append("bg %s %s" % (jid, cmd))
        for _ in range(rng.randrange(0, 4)):
            bg("rpc 0 1 id=o%d size=%d sleep-ms=%d" % (len(jobs), rng.choice([0, 2000, 200000]), rng.choice([10, 2000, 60000])))
        for _ in range(rng.randrange(0, 4)):
            bg("rpc 1 0 id=i%d size=%d sleep-ms=%d" % (len(jobs), rng.choice([0, 2000]), rng.choice([10, 2000, 60000])))
        for _ in range(rng.randrange(0, 3)):
            bg("rpc 2 0 id=k%d size=10 sleep-ms=%d" % (len(jobs), rng.choice([10, 30000])))
        if rng.random() < 0.5:
            bg("connect 0 9 port=9")           # outbound dial to a dead address: pending when shutdown starts
        if rng.random() < 0.3:
            cmds += ["adv 8 k=7 names=net", "bg adv connect 0 8"]   # placeholder: an extra peer connecting
            jobs.append(("adv", "connect 0 8"))
        if rng.random() < 0.4:
            cmds.append("holdpeer 0 1")          # the application keeps a Peer handle across the shutdown
        cmds.append("sleep %d" % rng.choice([0, 1, 5, 50, 500]))
        if mode == "explicit":
            cmds.append("shutdown 0")
        elif mode == "burst":
            for q in range(burst):
                bg("connect 0 %d%s" % ((1, "") if q % 3 == 2 else (9, " port=9")))
            cmds += ["bg s1 shutdown 0", "join s1 120000"]
        elif mode == "double":
            cmds += ["bg s1 shutdown 0", "bg s2 shutdown 0", "bg c1 connect 0 1", "join s1 120000", "join s2 120000", "join c1 120000"]
        else:
            # calls made through node 0's own handle borrow it: a handle can only be the last one
            # to go once they are gone, so they are abandoned first
            for jid, cmd in jobs:
                if cmd.split()[1] == "0":
                    cmds.append("cancel %s" % jid)
            jobs = [(jid, cmd) for jid, cmd in jobs if cmd.split()[1] != "0"]
            cmds += ["drop 0", "sleep %d" % (idle_wait + 1500)]
        for jid, _ in jobs:
            cmds.append("join %s 120000" % jid)
        cmds += ["sleep 500", "closed 0", "stat 0", "events 0", "peers 1", "peers 2", "sleep 18000", "peers 1", "peers 2", "events 1"]
        if mode != "drop":
            cmds += ["connect 0 1", "rpc 0 1 id=late size=1", "shutdown 0", "disconnect 0 1", "peers 0"]
        cmds.append("trace")
        scen.append("simnet " + " ; ".join(cmds))
        metas.append((mode, idle_wait, jobs))
    outs, parsed = run_scenarios(chk, scen, "fabric:shutdown")
    # trace acceptance: node 0's manager / handler / API events replayed on Shutdown.v (ShutdownTrace.trun)
    tcases, tfacts = [], []
    for res in parsed:
        if res is None:
            tcases.append("mgrtrace")
            tfacts.append(None)
        else:
            c, f = mgr_trace_case(res[-1], 0)
            tcases.append(c)
            tfacts.append(f)
    tm = run_model(tcases)
    for sc, res, tc, f, m in zip(scen, parsed, tcases, tfacts, tm):
        if res is None:
            continue
        chk.evaluations += 1
        chk.count("manager-trace-events", len(tc.split()) - 1)
        chk.count("requests-accepted-after-endpoint-close", f["late_requests"])
        chk.count("calls-that-waited-for-mailbox-room", f.get("waited", 0))
        mf = fields(m)
        ev0 = [c for c, x in zip([c.strip() for c in sc[len("simnet "):].split(" ; ")][1:], res) if c == "events 0"]
        lost_impl = len([e for e in res[[c.strip() for c in sc[len("simnet "):].split(" ; ")][1:].index("events 0")].strip("[]").split(",") if e.startswith("-")])
        want = "accepted ph=done entries=[] hands=0 inbound=0"
        if not m.startswith(want):
            chk.disagree(sc, "manager trace: " + tc[:3000], "Shutdown.v: " + m, "simnet/mgrtrace")
            continue
        if mf["unanswered"] != "0" or int(mf["ansok"]) != f["answered_ok"] or int(mf["ansfail"]) < f["answered_err"] or int(mf["lost"]) != lost_impl or f["cleanup_removed"] != 0:
            chk.disagree(sc, "manager trace: answered ok=%d err=%d, LostPeer events=%d, removed by cleanup=%d" % (f["answered_ok"], f["answered_err"], lost_impl, f["cleanup_removed"]),
                         "Shutdown.v: " + m, "simnet/mgrtrace-observables")
    for sc, o, res, (mode, idle_wait, jobs) in zip(scen, outs, parsed, metas):
        if res is None:
            continue
        chk.nontriv(sc)
        chk.count("mode:" + mode)
        chk.count("inflight-jobs", len(jobs))
        cmds = [c.strip() for c in sc[len("simnet "):].split(" ; ")][1:]
        r = {}
        for c, x in zip(cmds, res):
            r.setdefault(c, []).append(x)
        bound_us = (idle_wait + 1000) * 1000
        if mode == "explicit":
            x = r["shutdown 0"][0]
            if not x.startswith("ok"):
                chk.monitor_fail("explicit shutdown returned an error: " + x, dict(case=sc))
            elif int(fields(x)["t"]) > bound_us:
                chk.monitor_fail("shutdown took %s us, idle-wait bound is %d ms" % (fields(x)["t"], idle_wait), dict(case=sc))
        for c, x in zip(cmds, res):
            if (c == "shutdown 0" or c.startswith("join s")) and x.startswith(("ok closed=", "err closed=")):
                f = fields(x)
                # whichever way a shutdown call returns (Ok, or "has been shut down" for a repeated one): the network is closed by then
                if f["closed"] != "1" or f["peers"] != "0":
                    chk.monitor_fail("a shutdown call returned %s while the network still reports closed=%s with %s peer(s)" % (x.split()[0].capitalize(), f["closed"], f["peers"]), dict(case=sc))
        if mode == "burst":
            chk.count("burst-before-shutdown:%d-calls-mailbox-%s" % (len([j for j in jobs if j[1].startswith("connect 0")]), "default" if "mbox=" not in cmds[0] else cmds[0].split("mbox=")[1]))
            x = r["join s1 120000"][0]
            if not x.startswith("ok"):
                chk.monitor_fail("the only shutdown call, issued behind a burst of other API calls, did not succeed: " + x, dict(case=sc))
            elif int(fields(x)["t"]) > bound_us:
                chk.monitor_fail("shutdown took %s us, idle-wait bound is %d ms" % (fields(x)["t"], idle_wait), dict(case=sc))
        if mode == "double":
            a, b = r["join s1 120000"][0], r["join s2 120000"][0]
            if "HANG" in (a, b, r["join c1 120000"][0]):
                chk.monitor_fail("a shutdown / connect call issued concurrently with shutdown hangs: %s %s %s" % (a, b, r["join c1 120000"][0]), dict(case=sc))
            if not (a.startswith("ok") or b.startswith("ok")):
                chk.monitor_fail("neither of two concurrent shutdown calls succeeded: %s / %s" % (a, b), dict(case=sc))
        for jid, cmd in jobs:
            x = r["join %s 120000" % jid][0]
            if x == "HANG" or x.startswith("task-failed"):
                chk.monitor_fail("a call pending at shutdown never returned (%s): %s" % (cmd, x), dict(case=sc))
        cl = r["closed 0"][0]
        if mode != "drop" and cl != "closed=1 upgrade=0":
            chk.monitor_fail("after shutdown: %s (expected closed, weak reference not upgradable)" % cl, dict(case=sc))
        if mode == "drop" and "upgrade=0" not in cl:
            chk.monitor_fail("after dropping the last handle the weak reference still upgrades: " + cl, dict(case=sc))
        st = fields(r["stat 0"][0])
        if st["clones"] != "0":
            chk.monitor_fail("%s clone(s) of the user's service are still alive after shutdown" % st["clones"], dict(case=sc, impl=r["stat 0"][0]))
        ev = r["events 0"][0].strip("[]").split(",")
        if ev[-1] != "END":
            chk.monitor_fail("subscriber did not reach end-of-stream after shutdown: %s" % ev[-5:], dict(case=sc))
        lost = set(e[1:].split(":")[0] for e in ev if e.startswith("-"))
        if not {"1", "2"} <= lost and mode != "x":
            chk.monitor_fail("subscriber did not receive the pending LostPeer events before end-of-stream: %s" % ev, dict(case=sc))
        prompt = not ("0" in r["peers 1"][0].strip("[]").split(",") or "0" in r["peers 2"][0].strip("[]").split(","))
        chk.count("remote-noticed-promptly" if prompt else "remote-noticed-by-idle-timeout")
        if "0" in r["peers 1"][1].strip("[]").split(",") or "0" in r["peers 2"][1].strip("[]").split(","):
            chk.monitor_fail("remote peers did not observe the disconnect within the idle timeout: %s %s" % (r["peers 1"][1], r["peers 2"][1]), dict(case=sc))
        if mode != "drop":
            late = [r["connect 0 1"][-1], r["rpc 0 1 id=late size=1"][0], r["shutdown 0"][-1], r["disconnect 0 1"][0]]
            if any(x.startswith("ok") for x in late) or "HANG" in late:
                chk.monitor_fail("an API call issued after shutdown did not return an error: %s" % late, dict(case=sc))
            if r["peers 0"][0] != "[]":
                chk.monitor_fail("peers() after shutdown: " + r["peers 0"][0], dict(case=sc))
    if outs:
        chk.sample(dict(case=scen[0][:500], impl=outs[0][-500:]))
