"""Scenario generators and monitors for the fabric runs (driver `simnet`)."""
import re
from common import *


def parse(out):
    """Splits a simnet result line into per-command results and the trailer dict."""
    body, _, trailer = out.partition(" ;; ")
    res = [r.strip() for r in body.split(" ; ")]
    tr = dict(x.split("=") for x in trailer.split()) if trailer else {}
    return res, tr


def fields(r):
    return dict(x.split("=", 1) for x in r.split() if "=" in x)


def run_scenarios(chk, scenarios, tag):
    outs = run_impl("simnet", scenarios, shards=NCPU)
    parsed = []
    for sc, o in zip(scenarios, outs):
        chk.evaluations += 1
        chk.count(tag)
        if o.startswith(("PANIC", "CRASH", "TIMEOUT")):
            chk.monitor_fail("simulated network run panicked / crashed / hung", dict(case=sc[:1500], impl=o[:300]))
            parsed.append(None)
            continue
        res, tr = parse(o)
        if tr.get("panics", "0") != "0":
            chk.monitor_fail("a task panicked during the simulated network run (panics=%s)" % tr.get("panics"), dict(case=sc[:1500], impl=o[:600]))
        parsed.append(res)
    return outs, parsed


def c05(chk):
    """Whole networks dialing each other simultaneously over the fabric."""
    quick = chk.tier == "quick"
    scen = []
    n = 40 if quick else 500
    for i in range(n):
        rng = chk.rng
        delay = rng.choice([100, 1000, 5000, 20000])
        jitter = rng.choice([0, 0, delay // 2, delay * 2])
        stagger = rng.choice([0, 0, 0, 1, delay // 1000 + 1, 2 * delay // 1000 + 1])
        k0, k1 = rng.randrange(1, 10**6), rng.randrange(1, 10**6)
        cmds = ["seed=%d delay=%d jitter=%d" % (rng.randrange(1 << 30), delay, jitter),
                "node 0 key=%d" % k0, "node 1 key=%d" % k1, "idlt 0 1",
                "bg a connect 0 1"]
        if stagger:
            cmds.append("sleep %d" % stagger)
        cmds += ["bg b connect 1 0", "join a", "join b", "sleep 3000",
                 "peers 0", "peers 1", "events 0", "events 1",
                 "rpc 0 1 id=x size=100", "rpc 1 0 id=y size=100",
                 "sleep 5000", "events 0", "events 1", "peers 0", "peers 1"]
        scen.append("simnet " + " ; ".join(cmds))
    outs, parsed = run_scenarios(chk, scen, "fabric:mutual-dial")
    for sc, o, res in zip(scen, outs, parsed):
        if res is None:
            continue
        chk.nontriv(sc)
        cmds = [c.strip() for c in sc[len("simnet "):].split(" ; ")][1:]
        r = dict()
        for c, x in zip(cmds, res):
            r.setdefault(c, []).append(x)
        lt = r["idlt 0 1"][0] == "1"
        ja, jb = r["join a"][0], r["join b"][0]
        if not ja.startswith("ok 1") or not jb.startswith("ok 0"):
            chk.monitor_fail("a simultaneous dial failed or returned the wrong identity: %s / %s" % (ja, jb), dict(case=sc, impl=o[:800]))
            continue
        if r["peers 0"] != ["[1]", "[1]"] or r["peers 1"] != ["[0]", "[0]"]:
            chk.monitor_fail("after mutual dials the two sides do not list each other exactly once: %s %s" % (r["peers 0"], r["peers 1"]), dict(case=sc, impl=o[:800]))
            continue
        x01, x10 = r["rpc 0 1 id=x size=100"][0], r["rpc 1 0 id=y size=100"][0]
        if not x01.startswith("ok st=200") or not x10.startswith("ok st=200"):
            chk.monitor_fail("RPC over the surviving connection failed: %s / %s" % (x01, x10), dict(case=sc, impl=o[:800]))
            continue
        if r["events 0"][1] != "[]" or r["events 1"][1] != "[]":
            chk.monitor_fail("further connect/disconnect events after the network went quiet: %s %s" % (r["events 0"][1], r["events 1"][1]), dict(case=sc, impl=o[:800]))
        # events so far alternate and end listed
        for k in ("events 0", "events 1"):
            evs = [e for e in r[k][0].strip("[]").split(",") if e]
            listed = False
            for e in evs:
                if e[0] == "+" and listed or e[0] == "-" and not listed:
                    chk.monitor_fail("events do not alternate: %s" % evs, dict(case=sc, impl=o[:800]))
                listed = e[0] == "+"
            if not listed:
                chk.monitor_fail("event stream does not end with NewPeer although the peer is listed", dict(case=sc, impl=o[:800]))
        # survivor = the connection dialed by the greater identity (model: MutualDial.survivor)
        o1 = fields(x01)["origin"]   # origin of node 1's connection to 0, as seen by its handler
        o0 = fields(x10)["origin"]
        want1 = "out" if lt else "in"   # id0 < id1: node 1 dialed the survivor
        want0 = "in" if lt else "out"
        if o1 != want1 or o0 != want0:
            chk.monitor_fail("the surviving connection is not the one dialed by the greater identity (origins %s/%s, expected %s/%s)" % (o0, o1, want0, want1), dict(case=sc, impl=o[:800]))
    if outs:
        chk.sample(dict(case=scen[0][:300], impl=outs[0][:500]))


def c13(chk):
    """Background dialing of a whole network over the fabric, tick by tick, against Dialer.v."""
    quick = chk.tier == "quick"
    P = 1000  # ms
    scen, models, metas = [], [], []
    n = 40 if quick else 400
    for i in range(n):
        rng = chk.rng
        k = rng.randrange(1, 5)
        ticks = rng.choice([8, 12, 20]) if quick else rng.choice([12, 20, 40])
        step = rng.choice([500, 1000, 1500, 2500])
        maxb = rng.choice([1000, 3000, 6000])
        cap_binds = rng.random() < 0.15
        maxout = rng.choice([1, 2]) if cap_binds else 100
        cmds = ["seed=%d delay=%d" % (rng.randrange(1 << 30), rng.choice([200, 1000, 5000])),
                "node 0 ctick=%d ctimeout=400 backoff=%d maxbackoff=%d maxout=%d idle=600000" % (P, step, maxb, maxout)]
        known_m = []
        up0 = {}
        for j in range(1, k + 1):
            up0[j] = rng.random() < 0.75
            cmds.append("node %d key=%d" % (j, 100 + j))
        for j in range(1, k + 1):
            if not up0[j]:
                cmds.append("drop %d" % j)
        for j in range(1, k + 1):
            aff = rng.choice(["high", "high", "high", "allowed", "never"])
            addrs = []
            for _ in range(rng.choice([0, 1, 1, 2, 3])):
                r = rng.random()
                if r < 0.55:
                    addrs.append(("%d" % j, j))
                elif r < 0.85:
                    b = 100 + rng.randrange(5)
                    addrs.append(("p%d" % (b - 91), b))
                else:
                    o = rng.randrange(1, k + 1)
                    addrs.append(("%d" % o, o if o == j else 200 + o))  # another peer's address: identity mismatch
            cmds.append("known 0 %d %s addr=%s" % (j, aff, ",".join(a for a, _ in addrs) or "none"))
            known_m.append("%d:%s:%s" % (j, aff, ",".join(str(m) for _, m in addrs)))
        if rng.random() < 0.3:
            cmds.append("known 0 0 high addr=self")
            known_m.append("0:high:0")
        cmds += ["sleep 10", "trace dial", "peers 0"]
        avail = ["0:%d:down" % j for j in range(1, k + 1) if not up0[j]]
        up = dict(up0)
        for t in range(1, ticks):
            cmds.append("sleep 490")
            for j in range(1, k + 1):
                if rng.random() < 0.12:
                    at = (t - 1) * P + 500
                    if up[j]:
                        cmds.append("drop %d" % j)
                        avail.append("%d:%d:down" % (at, j))
                    else:
                        cmds.append("node %d key=%d fport=%d" % (j, 100 + j, j))
                        avail.append("%d:%d:up" % (at, j))
                    up[j] = not up[j]
            cmds += ["sleep 510", "trace dial", "peers 0"]
        scen.append("simnet " + " ; ".join(cmds))
        models.append("dialer own=0 step=%d maxb=%d maxout=%d P=%d ticks=%d | %s | %s"
                      % (step, maxb, maxout, P, ticks, ";".join(known_m), " ".join(avail)))
        metas.append(dict(k=k, ticks=ticks, cap=cap_binds, maxout=maxout, known=known_m))
    outs, parsed = run_scenarios(chk, scen, "fabric:dialer")
    mouts = run_model(models)
    for sc, mc, o, res, mo, meta in zip(scen, models, outs, parsed, mouts, metas):
        if res is None:
            continue
        cmds = [c.strip() for c in sc[len("simnet "):].split(" ; ")][1:]
        ports = {}
        per_tick = []
        peers_tick = []
        for c, x in zip(cmds, res):
            if c.startswith("node ") and x.startswith("ok"):
                ports[x.split()[2]] = int(c.split()[1])
            if c == "trace dial":
                ds = []
                for line in x.strip("[]").split("|"):
                    m = re.search(r"peer=Some\(PeerId\(n(\d+)\)\),address=SocketAddr\(127\.0\.0\.1:(\d+)\)", line)
                    if m:
                        port = m.group(2)
                        ds.append((int(m.group(1)), port))
                per_tick.append(ds)
            if c == "peers 0":
                peers_tick.append(x)
        aff = {int(e.split(":")[0]): e.split(":")[1] for e in meta["known"]}
        naddr = {int(e.split(":")[0]): len([a for a in e.split(":")[2].split(",") if a]) for e in meta["known"]}
        mt = mo.split()
        ok_case = True
        for i, ds in enumerate(per_tick):
            # model-independent monitors
            for p, port in ds:
                if p == 0 or aff.get(p) != "high" or naddr.get(p, 0) == 0:
                    chk.monitor_fail("background dial to an ineligible peer (self / not High / no address): peer %d at tick %d" % (p, i), dict(case=sc[:1500], impl=str(per_tick)[:600]))
                    ok_case = False
            if len(ds) > meta["maxout"]:
                chk.monitor_fail("more background dials started (%d) than max outstanding (%d) at tick %d" % (len(ds), meta["maxout"], i), dict(case=sc[:1500]))
                ok_case = False
            if len(set(p for p, _ in ds)) != len(ds):
                chk.monitor_fail("a peer was dialed twice in one check", dict(case=sc[:1500], impl=str(ds)))
                ok_case = False
            if i > 0:
                listed = peers_tick[i - 1].strip("[]").split(",")
                for p, _ in ds:
                    if str(p) in listed and str(p) in peers_tick[i].strip("[]").split(","):
                        pass  # may have been lost and re-established within the tick; not decidable here
        if not ok_case:
            continue
        chk.nontriv(sc)
        # model comparison: per tick, the set of (peer, address)
        def norm_port(p, port):
            port = int(port)
            if port < 100:
                return 91 + port          # p9.. -> 100..
            j = ports.get(str(port))
            if j is None:
                return -1
            return j if j == p else 200 + j
        for i, ds in enumerate(per_tick):
            if i >= len(mt):
                break
            f = mt[i].split(":")
            mds = set(x for x in f[1].split(",") if x)
            ids = set("%d@%d" % (p, norm_port(p, port)) for p, port in ds)
            if meta["cap"]:
                elig = set(x for x in f[2][1:].split(",") if x)
                if not set(str(p) for p, _ in ds) <= elig or len(ds) != min(len(elig), meta["maxout"]):
                    chk.disagree(mc[:800], "tick %d dials %s" % (i, sorted(ids)), "eligible %s cap %d" % (sorted(elig), meta["maxout"]), "simnet/dialer-cap")
                break   # which peers were taken is unspecified (hash order): later ticks diverge
            if ids != mds:
                chk.disagree(mc[:800], "tick %d: %s (all: %s)" % (i, sorted(ids), per_tick), "tick %d: %s (all: %s)" % (i, sorted(mds), mo), "simnet/dialer")
                break
    if outs:
        chk.sample(dict(case=scen[0][:400], impl=outs[0][:400], model=mouts[0][:300]))


# ------------------------------------------------------------------ sequential network scripts (NetModel.v)

def gen_netscript(rng, nn, length, w):
    """Random op list over nodes 1..nn. w: weights dict for emphasis. Returns (node specs, ops)."""
    names = [10, 10, 10, 20] if w.get("names") else [10]
    nodes = {}
    for i in range(1, nn + 1):
        name = rng.choice(names)
        alt = rng.choice([None, None, 10, 20, 30]) if w.get("names") else None
        if alt == name:
            alt = None
        limit = rng.choice([None, None, 0, 1, 2, 3]) if w.get("limits") else None
        nodes[i] = (name, alt, limit)
    ops = []
    cut = set()
    def pair():
        a = rng.randrange(1, nn + 1)
        b = rng.choice([x for x in range(1, nn + 1) if x != a])
        return a, b
    i = 0
    while i < length:
        r = rng.random()
        if r < w.get("fault", 0.0):
            # fault block: partition(s), ops under the cut, heal, quiesce
            a, b = pair()
            ops.append(("P", a, b))
            for _ in range(rng.randrange(0, 3)):
                k = rng.random()
                if k < 0.35:
                    ops.append(("X", a, b) if rng.random() < 0.5 else ("X", b, a))
                elif k < 0.6:
                    ops.append(("R", rng.choice([a, b])))
                elif k < 0.8:
                    ops.append(("D", a, b) if rng.random() < 0.5 else ("D", b, a))
                else:
                    ops.append(("Q",))
            if rng.random() < 0.8:
                ops.append(("H", a, b))
            ops.append(("Q",))
            if ("H", a, b) != ops[-2]:
                ops.append(("H", a, b))
                ops.append(("Q",))
            i += 3
            continue
        if r < w.get("fault", 0.0) + 0.5:
            a, b = pair()
            if rng.random() < w.get("pin", 0.1):
                x = rng.choice(list(range(1, nn + 1)) + [b, b])
                ops.append(("D", a, b, x))
            else:
                ops.append(("D", a, b))
        elif r < w.get("fault", 0.0) + 0.65:
            a, b = pair()
            ops.append(("X", a, b))
        elif r < w.get("fault", 0.0) + 0.65 + w.get("known", 0.1):
            a, b = pair()
            ops.append(("K", a, b, rng.choice(["high", "allowed", "never", "none"])))
        elif r < w.get("fault", 0.0) + 0.65 + w.get("known", 0.1) + w.get("restart", 0.05):
            ops.append(("R", rng.randrange(1, nn + 1)))
        else:
            ops.append(("Q",))
        i += 1
    ops.append(("Q",))
    return nodes, ops


def net_scenario(rng, nodes, ops):
    nn = len(nodes)
    def nodecmd(i, restart=False):
        name, alt, limit = nodes[i]
        c = "node %d key=%d name=n%d idle=3000 keepalive=1000 ctimeout=1000" % (i, 10 + i, name)
        if alt is not None:
            c += " alt=n%d" % alt
        if limit is not None:
            c += " maxconn=%d" % limit
        if restart:
            c += " fport=%d" % i
        return c
    cmds = ["seed=%d delay=%d" % (rng.randrange(1 << 30), rng.choice([500, 1000, 3000]))]
    cmds += [nodecmd(i) for i in range(1, nn + 1)]
    marks = []   # (op index, position of first 'peers' result, rpc positions)
    for oi, op in enumerate(ops):
        k = op[0]
        pos_res = None
        if k == "D":
            pos_res = len(cmds)
            cmds.append("connect %d %d%s" % (op[1], op[2], " pin=%d" % op[3] if len(op) > 3 else ""))
            cmds.append("sleep 300")
        elif k == "X":
            cmds += ["disconnect %d %d" % (op[1], op[2]), "sleep 300"]
        elif k == "R":
            cmds += ["drop %d" % op[1], "sleep 200", nodecmd(op[1], True), "sleep 300"]
        elif k == "K":
            if op[3] == "none":
                cmds.append("unknown %d %d" % (op[1], op[2]))
            else:
                # no address for High entries: background dialing is C13's subject, not this model's
                cmds.append("known %d %d %s%s" % (op[1], op[2], op[3], " addr=none" if op[3] == "high" else ""))
        elif k == "P":
            cmds.append("part %d %d" % (op[1], op[2]))
        elif k == "H":
            cmds.append("heal %d %d" % (op[1], op[2]))
        elif k == "Q":
            cmds.append("sleep 4500")
        ppos = len(cmds)
        cmds += ["peers %d" % i for i in range(1, nn + 1)]
        rpcs = []
        if k == "Q":
            for a in range(1, nn + 1):
                for b in range(1, nn + 1):
                    if a != b:
                        rpcs.append((a, b, len(cmds)))
                        cmds.append("rpc %d %d id=q%d size=50" % (a, b, oi))
        marks.append((oi, pos_res, ppos, rpcs))
    epos = len(cmds)
    cmds += ["events %d" % i for i in range(1, nn + 1)]
    cmds += ["ranks", "trace active"]
    return "simnet " + " ; ".join(cmds), marks, epos


def model_case(nodes, ops):
    spec = ";".join("%d:%d:%s:%s" % (i, n, "-" if a is None else a, "-" if l is None else l) for i, (n, a, l) in sorted(nodes.items()))
    toks = []
    for op in ops:
        toks.append(" ".join(str(x) for x in op))
    return "netmodel %s | %s" % (spec, " / ".join(toks))


def run_netscripts(chk, n, nn_choices, length, weights, tag, extra_monitor=None):
    """Runs sequential scripts on fabric and model; compares dial results at every Dial and
    listings / reachability at every Quiesce. Returns per-script records for extra monitors."""
    scen, models, metas = [], [], []
    for _ in range(n):
        rng = chk.rng
        nn = rng.choice(nn_choices)
        nodes, ops = gen_netscript(rng, nn, length(rng), weights)
        sc, marks, epos = net_scenario(rng, nodes, ops)
        scen.append(sc)
        models.append(model_case(nodes, ops))
        metas.append((nodes, ops, marks, epos))
    outs, parsed = run_scenarios(chk, scen, tag)
    mouts = run_model(models)
    records = []
    for sc, mc, o, res, mo, (nodes, ops, marks, epos) in zip(scen, models, outs, parsed, mouts, metas):
        if res is None:
            continue
        nn = len(nodes)
        mres = mo.split(" | ")
        if len(mres) != len(ops):
            chk.broken.append("netmodel driver output malformed: " + mo[:200])
            continue
        chk.nontriv(sc)
        ok = True
        for (oi, pos_res, ppos, rpcs), mr in zip(marks, mres):
            op = ops[oi]
            mdial, mlist = mr.split(" L=")
            mlists = dict(x.split(":") for x in mlist.split(";"))
            listings = {i: res[ppos - 1 + (i - 1)] for i in range(1, nn + 1)}
            if op[0] == "D":
                r = res[pos_res - 1]
                got = "err" if r.startswith("err") else ("ok" + r.split()[1] if r.startswith("ok") else r)
                chk.count("dial:" + ("ok" if got.startswith("ok") else "err"))
                # C03 monitors, model independent
                if got.startswith("ok"):
                    if got != "ok%d" % op[2]:
                        chk.monitor_fail("a dial to the address of node %d returned identity %s" % (op[2], got), dict(case=sc[:2000], op=str(op)))
                        ok = False
                    if len(op) > 3 and op[3] != op[2]:
                        chk.monitor_fail("a dial pinned to identity %d succeeded against node %d" % (op[3], op[2]), dict(case=sc[:2000], op=str(op)))
                        ok = False
                    if "listed=1" not in r:
                        chk.monitor_fail("connect returned %s but that peer is not in the caller's connected set" % got, dict(case=sc[:2000], op=str(op), impl=r))
                        ok = False
                if got != mdial:
                    chk.disagree(mc[:1500], "op %d %s -> %s" % (oi, op, got), "-> %s" % mdial, "simnet/netmodel-dial")
                    ok = False
                    break
            if op[0] == "Q":
                for i in range(1, nn + 1):
                    if listings[i] != mlists[str(i)]:
                        chk.disagree(mc[:1500], "after op %d %s node %d lists %s" % (oi, op, i, listings[i]), "lists %s" % mlists[str(i)], "simnet/netmodel-listing")
                        ok = False
                # C09 monitors: mutual listing and reachability
                for a in range(1, nn + 1):
                    la = listings[a].strip("[]").split(",")
                    for b in range(1, nn + 1):
                        if a == b:
                            continue
                        lb = listings[b].strip("[]").split(",")
                        if (str(b) in la) != (str(a) in lb):
                            chk.monitor_fail("after a quiet period node %d lists %d but not vice versa (%s / %s)" % (a, b, listings[a], listings[b]), dict(case=sc[:2000], op_index=oi))
                            ok = False
                for a, b, pos in rpcs:
                    r = res[pos - 1]
                    listed = str(b) in listings[a].strip("[]").split(",")
                    if listed and not r.startswith("ok st=200"):
                        chk.monitor_fail("node %d lists %d after a quiet period but an RPC to it fails: %s" % (a, b, r[:80]), dict(case=sc[:2000], op_index=oi))
                        ok = False
                    if not listed and r.startswith("ok"):
                        chk.monitor_fail("RPC to an unlisted peer succeeded (%d -> %d)" % (a, b), dict(case=sc[:2000], op_index=oi))
                        ok = False
                if not ok:
                    break
            if op[0] == "X":
                # C09: explicit disconnect removes the peer locally at once
                if str(op[2]) in listings[op[1]].strip("[]").split(","):
                    chk.monitor_fail("disconnect(%d) at node %d left the peer listed" % (op[2], op[1]), dict(case=sc[:2000], op_index=oi))
                    ok = False
        # events: alternation per peer
        for i in range(1, nn + 1):
            evs = [e for e in res[epos - 1 + (i - 1)].strip("[]").split(",") if e and e != "END"]
            listed = {}
            for e in evs:
                if e.startswith("LAG"):
                    continue
                p = e[1:].split(":")[0]
                if (e[0] == "+") == listed.get(p, False):
                    chk.monitor_fail("peer events of node %d do not alternate for peer %s: %s" % (i, p, evs), dict(case=sc[:2000]))
                    ok = False
                    break
                listed[p] = e[0] == "+"
        records.append(dict(scenario=sc, ops=ops, nodes=nodes, res=res, ok=ok, marks=marks, epos=epos, out=o))
        if extra_monitor:
            extra_monitor(records[-1])
    if outs:
        chk.sample(dict(case=scen[0][:400], impl=outs[0][:400], model=mouts[0][:300]))
    return records


ADV_VARIANTS = [
    # (label, adversary spec relative to victim identity key V and network name N, can it ever be admitted as itself?)
    ("own-identity", "k=7 names=nN", "self"),
    ("replay-cert-of-V", "k=V signkey=7 names=nN", "none"),
    ("replay-cert-of-V-ecdsa-key", "k=V signkey=e names=nN", "none"),
    ("resigned-cert-with-key-of-V", "k=V by=7 signkey=7 names=nN", "none"),
    ("ecdsa-identity", "k=e names=nN", "none"),
    ("expired", "k=7 names=nN valid=expired", "none"),
    ("not-yet-valid", "k=7 names=nN valid=future", "none"),
    ("wrong-name", "k=7 names=nX", "none"),
    ("malformed", "k=7 names=nN wf=flip", "none"),
    ("no-client-cert", "k=7 names=nN nocert=1", "server-only"),
    ("client-only-eku", "k=7 names=nN eku=client", "client-only"),
    ("server-only-eku", "k=7 names=nN eku=server", "server-only"),
]


def adversary_scenarios(chk, n, tag):
    """Honest nodes 1 (victim of impersonation: identity key V) and 2 (observer), an adversary 8
    that dials node 2 and is dialed by node 2 (plain and pinned to node 1's identity)."""
    scen, metas = [], []
    for i in range(n):
        rng = chk.rng
        label, spec, mode = ADV_VARIANTS[i % len(ADV_VARIANTS)]
        V = rng.randrange(100, 10**6)
        name = rng.choice([10, 20])
        spec = spec.replace("k=V", "k=%d" % V).replace("nN", "n%d" % name).replace("nX", "n%d" % (30 if name != 30 else 10))
        cmds = ["seed=%d delay=%d" % (rng.randrange(1 << 30), rng.choice([500, 2000])),
                "node 1 key=%d name=n%d" % (V, name), "node 2 key=%d name=n%d" % (V + 1, name),
                "adv 8 " + spec,
                "advdial 8 2 sni=n%d" % name, "sleep 500", "peers 2",
                "connect 2 8", "sleep 300", "peers 2",
                "connect 2 8 pin=1", "sleep 300", "peers 2",
                "rpc 2 1 id=probe size=10",
                "connect 2 1", "sleep 300", "peers 2", "rpc 2 1 id=real size=10", "log 1",
                "events 2"]
        scen.append("simnet " + " ; ".join(cmds))
        metas.append((label, mode))
    outs, parsed = run_scenarios(chk, scen, tag)
    for sc, o, res, (label, mode) in zip(scen, outs, parsed, metas):
        if res is None:
            continue
        chk.nontriv(sc)
        chk.count("adversary:" + label)
        cmds = [c.strip() for c in sc[len("simnet "):].split(" ; ")][1:]
        r = {}
        for c, x in zip(cmds, res):
            r.setdefault(c, []).append(x)
        peers = r["peers 2"]
        # never listed, announced or attributed as node 1 before the real node 1 is connected
        for k, l in enumerate(peers[:3]):
            if "1" in l.strip("[]").split(","):
                chk.monitor_fail("[%s] the adversary was listed as identity 1 at node 2 (step %d)" % (label, k), dict(case=sc, impl=o[:1200]))
        if r["connect 2 8 pin=1"][0].startswith("ok"):
            chk.monitor_fail("[%s] a dial pinned to identity 1 succeeded against the adversary" % label, dict(case=sc, impl=o[:1200]))
        if r["connect 2 8"][0].startswith("ok 1"):
            chk.monitor_fail("[%s] a dial to the adversary returned identity 1" % label, dict(case=sc, impl=o[:1200]))
        if r["rpc 2 1 id=probe size=10"][0].startswith("ok"):
            chk.monitor_fail("[%s] an RPC addressed to identity 1 was served although node 1 is not connected" % label, dict(case=sc, impl=o[:1200]))
        ev = r["events 2"][0]
        pre = ev.strip("[]").split(",")
        if "+1" in pre[:-1] and False:
            pass
        # admission of the adversary under its own identity must follow the model
        dialed_ok = r["advdial 8 2 sni=n%s" % sc.split("name=n")[1][:2]][0] == "ok" if False else [x for c, x in zip(cmds, res) if c.startswith("advdial 8 2")][0] == "ok"
        conn_ok = r["connect 2 8"][0].startswith("ok")
        want_dial = mode in ("self", "client-only")
        want_conn = mode in ("self", "server-only")
        if dialed_ok != want_dial or conn_ok != want_conn:
            chk.disagree(sc[:1500], "[%s] adversary-as-client admitted=%s, as-server accepted=%s" % (label, dialed_ok, conn_ok),
                         "Tls.v: as-client %s, as-server %s" % (want_dial, want_conn), "simnet/adversary")
        # the genuine node 1 still connects and is attributed correctly on both sides
        real = r["rpc 2 1 id=real size=10"][0]
        if not r["connect 2 1"][0].startswith("ok 1") or "from=1" not in real or "seen=2" not in real:
            chk.monitor_fail("[%s] genuine peer not connected / attributed correctly afterwards: %s %s" % (label, r["connect 2 1"][0], real[:120]), dict(case=sc, impl=o[:1200]))
    if outs:
        chk.sample(dict(case=scen[1][:500], impl=outs[1][:500]))


def adversary_c03(chk):
    adversary_scenarios(chk, 12 if chk.tier == "quick" else 120, "fabric:adversary")


def adversary_c14(chk):
    """An adversarial dialer chooses the claimed name (SNI) and the certificate name independently."""
    quick = chk.tier == "quick"
    scen, metas = [], []
    combos = [(p, a, sni, cn) for p in (10, 20) for a in (None, 20, 30) for sni in (10, 20, 30) for cn in (10, 20, 30) if a != p]
    if quick:
        combos = chk.rng.sample(combos, 18)
    for (p, a, sni, cn) in combos:
        cmds = ["seed=%d" % chk.rng.randrange(1 << 30),
                "node 1 key=11 name=n%d%s" % (p, " alt=n%d" % a if a else ""),
                "adv 8 k=7 names=n%d" % cn, "advdial 8 1 sni=n%d" % sni, "sleep 300", "peers 1"]
        scen.append("simnet " + " ; ".join(cmds))
        metas.append((p, a, sni, cn))
    outs, parsed = run_scenarios(chk, scen, "fabric:adversary-names")
    mcases = ["advhello %d %s %d %d" % (p, a if a else "-", sni, cn) for (p, a, sni, cn) in metas]
    mouts = run_model(mcases)
    for sc, o, res, (p, a, sni, cn), mo in zip(scen, outs, parsed, metas, mouts):
        if res is None:
            continue
        chk.nontriv(sc)
        got = "accepted" if res[2] == "ok" else "rejected"
        names = {p} | ({a} if a else set())
        if got == "accepted" and (cn not in names or sni not in names):
            chk.monitor_fail("listener (names %s) admitted a dialer claiming n%d with a certificate for n%d" % (sorted(names), sni, cn), dict(case=sc, impl=o[:600]))
        if got != mo:
            chk.disagree(sc, got, mo, "simnet/adversary-names")
    if outs:
        chk.sample(dict(case=scen[0], impl=outs[0][:300], model=mouts[0]))
