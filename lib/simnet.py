"""Scenario generators and monitors for the fabric runs (driver `simnet`)."""
import re
from common import *


def parse(out):
    """Splits a simnet result line into per-command results and the trailer dict."""
    body, _, trailer = out.partition(" ;; ")
    res = [r.strip() for r in body.split(" ; ")]
    tr = dict(x.split("=") for x in trailer.split()) if trailer else {}
    return res, tr


def fields(r):
    return dict(x.split("=", 1) for x in r.split() if "=" in x)


def run_scenarios(chk, scenarios, tag):
    outs = run_impl("simnet", scenarios)
    parsed = []
    for sc, o in zip(scenarios, outs):
        chk.evaluations += 1
        chk.count(tag)
        if o.startswith(("PANIC", "CRASH", "TIMEOUT")):
            chk.monitor_fail("simulated network run panicked / crashed / hung", dict(case=sc[:1500], impl=o[:300]))
            parsed.append(None)
            continue
        res, tr = parse(o)
        if tr.get("panics", "0") != "0":
            chk.monitor_fail("a task panicked during the simulated network run (panics=%s)" % tr.get("panics"), dict(case=sc[:1500], impl=o[:600]))
        parsed.append(res)
    return outs, parsed


def c05(chk):
    """Whole networks dialing each other simultaneously over the fabric."""
    quick = chk.tier == "quick"
    scen = []
    n = 40 if quick else 500
    for i in range(n):
        rng = chk.rng
        delay = rng.choice([100, 1000, 5000, 20000])
        jitter = rng.choice([0, 0, delay // 2, delay * 2])
        stagger = rng.choice([0, 0, 0, 1, delay // 1000 + 1, 2 * delay // 1000 + 1])
        k0, k1 = rng.randrange(1, 10**6), rng.randrange(1, 10**6)
        cmds = ["seed=%d delay=%d jitter=%d" % (rng.randrange(1 << 30), delay, jitter),
                "node 0 key=%d" % k0, "node 1 key=%d" % k1, "idlt 0 1",
                "bg a connect 0 1"]
        if stagger:
            cmds.append("sleep %d" % stagger)
        cmds += ["bg b connect 1 0", "join a", "join b", "sleep 3000",
                 "peers 0", "peers 1", "events 0", "events 1",
                 "rpc 0 1 id=x size=100", "rpc 1 0 id=y size=100",
                 "sleep 5000", "events 0", "events 1", "peers 0", "peers 1"]
        scen.append("simnet " + " ; ".join(cmds))
    outs, parsed = run_scenarios(chk, scen, "fabric:mutual-dial")
    for sc, o, res in zip(scen, outs, parsed):
        if res is None:
            continue
        chk.nontriv(sc)
        cmds = [c.strip() for c in sc[len("simnet "):].split(" ; ")][1:]
        r = dict()
        for c, x in zip(cmds, res):
            r.setdefault(c, []).append(x)
        lt = r["idlt 0 1"][0] == "1"
        ja, jb = r["join a"][0], r["join b"][0]
        if not ja.startswith("ok 1") or not jb.startswith("ok 0"):
            chk.monitor_fail("a simultaneous dial failed or returned the wrong identity: %s / %s" % (ja, jb), dict(case=sc, impl=o[:800]))
            continue
        if r["peers 0"] != ["[1]", "[1]"] or r["peers 1"] != ["[0]", "[0]"]:
            chk.monitor_fail("after mutual dials the two sides do not list each other exactly once: %s %s" % (r["peers 0"], r["peers 1"]), dict(case=sc, impl=o[:800]))
            continue
        x01, x10 = r["rpc 0 1 id=x size=100"][0], r["rpc 1 0 id=y size=100"][0]
        if not x01.startswith("ok st=200") or not x10.startswith("ok st=200"):
            chk.monitor_fail("RPC over the surviving connection failed: %s / %s" % (x01, x10), dict(case=sc, impl=o[:800]))
            continue
        if r["events 0"][1] != "[]" or r["events 1"][1] != "[]":
            chk.monitor_fail("further connect/disconnect events after the network went quiet: %s %s" % (r["events 0"][1], r["events 1"][1]), dict(case=sc, impl=o[:800]))
        # events so far alternate and end listed
        for k in ("events 0", "events 1"):
            evs = [e for e in r[k][0].strip("[]").split(",") if e]
            listed = False
            for e in evs:
                if e[0] == "+" and listed or e[0] == "-" and not listed:
                    chk.monitor_fail("events do not alternate: %s" % evs, dict(case=sc, impl=o[:800]))
                listed = e[0] == "+"
            if not listed:
                chk.monitor_fail("event stream does not end with NewPeer although the peer is listed", dict(case=sc, impl=o[:800]))
        # survivor = the connection dialed by the greater identity (model: MutualDial.survivor)
        o1 = fields(x01)["origin"]   # origin of node 1's connection to 0, as seen by its handler
        o0 = fields(x10)["origin"]
        want1 = "out" if lt else "in"   # id0 < id1: node 1 dialed the survivor
        want0 = "in" if lt else "out"
        if o1 != want1 or o0 != want0:
            chk.monitor_fail("the surviving connection is not the one dialed by the greater identity (origins %s/%s, expected %s/%s)" % (o0, o1, want0, want1), dict(case=sc, impl=o[:800]))
    if outs:
        chk.sample(dict(case=scen[0][:300], impl=outs[0][:500]))
