"""C19 — per-peer rate limit."""
import json
from common import *


def windows_check(chk, c, t_ns, burst, events, outs):
    """Model-independent window monitor over the implementation's decisions for one case.
    events: [(key, time)], outs: ['ok' | 'no:<wait>']"""
    per = {}
    for (k, at), o in zip(events, outs):
        per.setdefault(k, []).append((at, o == "ok"))
    for k, seq in per.items():
        adm = [at for at, ok in seq if ok]
        # observed theoretical-arrival-time before each admission, from the implementation's own admissions
        tat = None
        tat_before = []
        for at in adm:
            tb = tat if tat is not None else at + t_ns
            tat_before.append(tb)
            tat = max(tb, at) + t_ns
        for i in range(len(adm)):
            for j in range(i, len(adm)):
                n = j - i + 1
                span = adm[j] - adm[i]
                stated = burst + span // t_ns
                if n > stated + 1:
                    chk.monitor_fail("key %s: %d requests admitted within %d ns, more than burst+1+replenishment (%d)" % (k, n, span, stated + 1),
                                     dict(case=c, window=[adm[i], adm[j]]))
                    return
                if n > stated:
                    # the stated bound is exceeded by one: known only when the window's first admission found the key fully replenished
                    idle = tat_before[i] < adm[i] + t_ns
                    chk.monitor_fail("key %s: %d requests admitted within %d ns, stated bound burst+replenishment is %d" % (k, n, span, stated),
                                     dict(case=c, window=[adm[i], adm[j]]),
                                     cls="gcra-burst-plus-one-after-idle" if idle else None)
                    if not idle:
                        return


def run(chk):
    quick = chk.tier == "quick"
    chk.rule = ("(a) governor's keyed RateLimiter under its fake clock vs Gcra.v on random timed arrival sequences (1-3 keys, quotas t in "
                "{1..10^9} ns, burst 1..8, gaps from 0 to several bursts), exact agreement incl. wait times; (b) the real RateLimitLayer in real time "
                "(periods 40-100 ms): refused never reach the service, positive wait-nanos, peers independent; (c) a 200k-request hunt for a zero "
                "wait-nanos hint; distinct = case text; non-trivial = at least one refusal")
    if not chk.prepare():
        return
    cases, parsed = [], []
    n = 300 if quick else 6000
    for i in range(n):
        rng = chk.rng
        t_ns = rng.choice([1, 2, 10, 1000, 10**6, 10**9, rng.randrange(1, 5000)])
        burst = rng.choice([1, 1, 2, 3, 5, 8])
        nk = rng.randrange(1, 4)
        at = rng.choice([0, 0, 5, 10**6])
        evs = []
        for _ in range(rng.randrange(1, 60)):
            r = rng.random()
            if r < 0.45:
                gap = 0
            elif r < 0.8:
                gap = rng.choice([1, t_ns // 2, t_ns - 1 if t_ns > 1 else 0, t_ns, t_ns + 1])
            else:
                gap = rng.choice([t_ns * burst, t_ns * (burst + 1), t_ns * burst * 3 + 7, 10 * t_ns])
            at += gap
            evs.append((rng.randrange(1, nk + 1), at))
        cases.append("gcra %d %d %s" % (t_ns, burst, " ".join("%d@%d" % e for e in evs)))
        parsed.append((t_ns, burst, evs))
    ci = run_impl("layers", cases)
    cm = run_model(cases)
    for c, (t_ns, burst, evs), a, b in zip(cases, parsed, ci, cm):
        chk.evaluations += 1
        chk.count("gcra")
        if a.startswith(("PANIC", "CRASH", "TIMEOUT", "HANG")):
            chk.monitor_fail("limiter panicked", dict(case=c, impl=a))
            continue
        outs = a.split()
        if any(o.startswith("no") for o in outs):
            chk.nontriv(c)
        for o in outs:
            if o.startswith("no:") and int(o[3:]) <= 0:
                chk.monitor_fail("refusal with a non-positive wait time", dict(case=c, impl=a))
        windows_check(chk, c, t_ns, burst, evs, outs)
        if a != b:
            chk.disagree(c[:500], a[:400], b[:400], "layers/gcra")
    chk.sample(dict(case=cases[0][:300], impl=ci[0][:200], model=cm[0][:200]))

    # (b) the real layer, real clock (wide margins; only margin-free monitors)
    rl = []
    for i in range(4 if quick else 24):
        rng = chk.rng
        period = rng.choice([40, 60, 100])
        burst = rng.choice([1, 2, 3])
        mode = "err" if i % 2 == 0 else "block"
        usage = "+same" if (i // 2) % 2 == 1 else ""      # every request through one service value, or a fresh clone each
        evs = []
        # two distinct identities that differ in one byte only (the first, a middle or the last one: see `peer` in the driver)
        pa, pb = rng.choice([(1, 2), (2, 3), (6, 12), (3, 9), (4, 5), (0, 4), (8, 14)])
        # in half of the cases every request of a peer asks for a different route
        routed = i % 4 >= 2
        for p in (pa, pb):
            for j in range(burst + 3):
                evs.append("%d@%d%s" % (p, 0 if p == pa else 5, "@%d" % j if routed else ""))
        evs.append("%d@%d" % (pa, period * (burst + 2)))
        if i % 2 == 0 or i % 4 == 1:
            # a client that honours the hint: refused at 0, it comes back just after one period, three requests at a time,
            # for four periods (each time one cell has been replenished)
            evs.pop()
            for cyc in range(1, 5):
                evs += ["%d@%d%s" % (pa, cyc * (period + 3), "@%d" % (10 * cyc + q) if routed else "") for q in range(3)]
        rl.append("ratelayer %s%s %d %d %s" % (mode, usage, period, burst, " ".join(evs)))
    # many peers: one peer exhausts its quota (period one hour), then 1100-3000 other identities send one request each,
    # then the first peer again: still over its quota, whatever the number of peers the layer has seen in between
    many = []
    for i in range(2 if quick else 8):
        rng = chk.rng
        burst = rng.choice([1, 2])
        others = rng.choice([1100, 1500, 3000])
        evs = ["5@0"] * (burst + 1) + ["%d@%d" % (100 + j, 1 + j // 100) for j in range(others)] + ["5@%d" % (others // 100 + 20)] * 2
        many.append("ratelayer %s 3600000 %d %s" % ("err" if i % 2 == 0 else "err+same", burst, " ".join(evs)))
    for c, a in zip(many, run_impl("layers", many, shards=len(many))):
        chk.evaluations += 1
        chk.count("ratelayer-many-peers")
        chk.nontriv(c[:200])
        if a.startswith(("PANIC", "CRASH", "TIMEOUT", "HANG")):
            chk.monitor_fail("rate limit layer panicked / hung with many peers", dict(case=c[:300], impl=a[:300]))
            continue
        burst = int(c.split()[3])
        res = [x.split(":") for x in a.split(" | ")[0].split()]
        ok5 = len([r for r in res if r[0] == "5" and r[1] == "ok"])
        if ok5 > burst + 1:
            chk.monitor_fail("a peer with burst %d and a period of one hour got %d requests through within seconds while %d other peers were served" % (burst, ok5, len(res) - burst - 3), dict(case=c[:300], impl=a[:300]))
        refused_others = len([r for r in res if r[0] != "5" and r[1] != "ok"])
        if refused_others:
            chk.monitor_fail("%d peers were refused their first request" % refused_others, dict(case=c[:300], impl=a[:300]))
    # Block mode, peers independent: while a request of one peer is parked waiting for that peer's next cell (period 1.5 s),
    # another peer's first request goes straight through (generous real-time margin: 700 ms)
    hol = []
    for i in range(2 if quick else 8):
        rng = chk.rng
        burst = rng.choice([1, 2])
        pa, pb = rng.choice([(1, 2), (6, 12), (3, 9), (0, 4)])
        # (the first peer's requests carry a 50 ms timeout header of their own: a deadline on a request is no licence to pass)
        hol.append("ratelayer %s 1500 %d %s" % ("block" if i % 2 == 0 else "block+same", burst, " ".join(["%d@0@-@t50" % pa] * (burst + 2) + ["%d@60" % pb] * burst)))
    for c, a in zip(hol, run_impl("layers", hol, shards=len(hol))):
        chk.evaluations += 1
        chk.nontriv(c)
        chk.count("ratelayer-block-two-peers")
        if a.startswith(("PANIC", "CRASH", "TIMEOUT", "HANG")):
            chk.monitor_fail("rate limit layer panicked / hung", dict(case=c, impl=a[:300]))
            continue
        t = c.split()
        burst, pb = int(t[3]), t[-1].split("@")[0]
        res = [x.split(":") for x in a.split(" | ")[0].split()]
        inv = [x.split("@") for x in a.split(" | ")[1].split()] if " | " in a else []
        pa_ = t[4].split("@")[0]
        early = [int(x[1]) for x in inv if x[0] == pa_ and int(x[1]) < 1_000_000_000]
        if len(early) > burst + 1:
            chk.monitor_fail("Block mode: %d requests of peer %s reached the service within the first second (burst %d, period 1.5 s): over-quota requests were let through" % (len(early), pa_, burst), dict(case=c, impl=a[:400]))
        late = [r for r in res if r[0] == pb and (r[1] != "ok" or int(r[3]) - int(r[2]) > 700_000_000)]
        if late:
            chk.monitor_fail("Block mode: peer %s's first %d request(s), well within its own quota, waited %s ms while another peer's request was parked on that peer's quota" % (pb, burst, [(int(r[3]) - int(r[2])) // 1000000 if r[1] == "ok" else r[1] for r in late]), dict(case=c, impl=a[:400]))
    # a large burst, a few requests (not a whole burst), an idle gap of several periods, then a volley larger than the burst:
    # whatever was left unused before the gap must not add to the replenished burst afterwards
    vol = []
    for i in range(4 if quick else 12):
        rng = chk.rng
        burst = (8, 12, 9, 16)[(i // 4) % 4] if i >= 4 else 8
        first = (1, 2, 3, 5)[i % 4] if i < 8 else rng.randrange(1, burst)
        mode = ("err", "block", "err+same", "block+same")[i % 4]
        pa = rng.choice([1, 6, 3, 0])
        extra = 6 if mode.startswith("err") else 4
        vol.append("ratelayer %s 250 %d %s" % (mode, burst, " ".join(["%d@0" % pa] * first + ["%d@%d" % (pa, 250 * (first + 5))] * (burst + extra))))
    for c, a in zip(vol, run_impl("layers", vol, shards=len(vol))):
        chk.evaluations += 1
        chk.nontriv(c)
        chk.count("ratelayer-volley-after-idle")
        if a.startswith(("PANIC", "CRASH", "TIMEOUT", "HANG")) or " | " not in a:
            chk.monitor_fail("rate limit layer panicked / hung", dict(case=c, impl=a[:300]))
            continue
        t = c.split()
        period, burst, pa_ = int(t[2]), int(t[3]), t[4].split("@")[0]
        inv = [x.split("@") for x in a.split(" | ")[1].split()]
        ts = sorted(int(x[1]) for x in inv if x[0] == pa_)
        worst = None
        for i_ in range(len(ts)):
            for j_ in range(i_, len(ts)):
                if j_ - i_ + 1 > burst + 1 + (ts[j_] - ts[i_] + 5_000_000) // (period * 1_000_000) and worst is None:
                    worst = (j_ - i_ + 1, ts[j_] - ts[i_])
        if worst:
            chk.monitor_fail("peer %s (burst %d, one cell per %d ms) sent %d request(s), stayed idle, then a volley: %d requests reached the service within %d ns, more than burst+1+replenishment"
                             % (pa_, burst, period, len([x for x in t[4:] if x.endswith("@0")]), worst[0], worst[1]), dict(case=c, impl=a[:600]))
    ri = run_impl("layers", rl, shards=len(rl))
    for c, a in zip(rl, ri):
        chk.evaluations += 1
        chk.count("ratelayer")
        t = c.split()
        mode, period, burst = t[1].split("+")[0], int(t[2]), int(t[3])
        if a.startswith(("PANIC", "CRASH", "TIMEOUT", "HANG")):
            chk.monitor_fail("rate limit layer panicked / hung", dict(case=c, impl=a))
            continue
        res, inv = a.split(" | ")
        res = [x.split(":") for x in res.split()]
        inv = [x.split("@") for x in inv.split()]
        oks = [r for r in res if r[1] == "ok"]
        refused = [r for r in res if r[1] != "ok"]
        if len(inv) != len(oks):
            chk.monitor_fail("wrapped service invoked %d times but %d requests were answered Ok (refused requests must not reach it)" % (len(inv), len(oks)), dict(case=c, impl=a))
        for r in refused:
            if r[1] != "429" or r[3] == "none" or int(r[3]) <= 0:
                chk.monitor_fail("refusal is not TooManyRequests with a positive wait-nanos hint: %s" % ":".join(r), dict(case=c, impl=a))
        if mode == "block" and refused:
            chk.monitor_fail("Block mode refused a request", dict(case=c, impl=a))
        if mode == "err" and not refused:
            chk.monitor_fail("ReturnError mode let burst+3 simultaneous requests through", dict(case=c, impl=a))
        if len(t) > 4 + 2 * (burst + 3) + 1:
            chk.count("ratelayer-with-hint-honouring-retries")
        # peers independent: peer 2 gets at least its burst although peer 1 exhausted its quota first
        pa, pb = t[4].split("@")[0], t[4 + burst + 3].split("@")[0]
        n2 = len([r for r in oks if r[0] == pb])
        n1 = len([r for r in oks if r[0] == pa])
        if mode == "err" and (n2 < burst or n1 < burst):
            chk.monitor_fail("a peer got fewer than its burst (%d,%d < %d): quotas are not per peer" % (n1, n2, burst), dict(case=c, impl=a))
        # window bound (general) on invocation timestamps per peer, 5 ms tolerance per replenishment
        for p in (pa, pb):
            ts = sorted(int(x[1]) for x in inv if x[0] == p)
            for i in range(len(ts)):
                for j in range(i, len(ts)):
                    if j - i + 1 > burst + 1 + (ts[j] - ts[i] + 5_000_000) // (period * 1_000_000):
                        chk.monitor_fail("peer %s: %d invocations within %d ns exceed burst+1+replenishment" % (p, j - i + 1, ts[j] - ts[i]), dict(case=c, impl=a))
        chk.nontriv(c)
    if ri:
        chk.sample(dict(case=rl[0], impl=ri[0][:300]))
    # (c) zero-hint hunt (regression for the fixed finding)
    hz = ["ratezero 1000 1 %d" % (100000 if quick else 1000000), "ratezero 1000 3 %d" % (100000 if quick else 1000000)]
    for c, a in zip(hz, run_impl("layers", hz, shards=2)):
        chk.evaluations += 1
        chk.nontriv(c)
        m = dict(x.split("=") for x in a.split()) if "=" in a else {}
        if not m or int(m.get("zero", 1)) > 0:
            chk.monitor_fail("refusals carrying wait-nanos 0: %s" % a, dict(case=c, impl=a), cls="wait-nanos-zero")
        chk.extra.setdefault("zero_hint_hunt", []).append(dict(case=c, impl=a))
    chk.assumptions += ["governor 0.6.3 is third-party: its keyed GCRA is modelled (Gcra.v) and tied under its FakeRelativeClock; the anemo-tower layer's DefaultClock cannot be replaced, "
                        "so the layer itself is exercised in real time with margin-free monitors only",
                        "Block mode's until_key_ready (governor, jittered sleeps) is exercised, its timing is not modelled"]
    if not quick:
        ok, out = coqchk(chk.prop)
        chk.extra["coqchk"] = "ok" if ok else out[-500:]
        if not ok:
            chk.broken.append("coqchk failed or reported axioms")


def replay(chk, path):
    r = json.load(open(path))
    cases = [x["case"]["case"] for x in r.get("failing_inputs", [])] + [x["case"] for x in r.get("correspondence_disagreements", [])]
    if not chk.prepare():
        return
    for c, a in zip(cases, run_impl("layers", cases)):
        b = run_model([c])[0] if c.startswith("gcra") else "-"
        log("case:  %s\nimpl:  %s\nmodel: %s" % (c, a, b))
        if c.startswith("gcra") and a != b:
            chk.disagree(c, a, b, "layers/replay")
