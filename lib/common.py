"""Shared machinery of the checks: builds (Coq, extracted model, harness), sharded runs of the
implementation and model drivers, decision logic, evidence and replay files."""
import fcntl, hashlib, json, os, re, subprocess, sys, time, random, glob
from concurrent.futures import ThreadPoolExecutor

VERIF = os.path.dirname(os.path.dirname(os.path.abspath(__file__)))
REPO = "/repo"
CACHE = os.path.join(VERIF, ".cache")
COQ = os.path.join(VERIF, "coq")
TARGET = os.path.join(CACHE, "target")
IMPLRUN = os.path.join(TARGET, "debug", "implrun")
MODELRUN = os.path.join(VERIF, "ml", "modelrun")
GUARD = "bmwill_anemo_verif"
NCPU = os.cpu_count() or 4

FORBIDDEN = re.compile(
    r"\b(Admitted|admit|Axiom|Axioms|Parameter|Parameters|Conjecture|Conjectures|Hypothesis|Hypotheses|Variable|Variables)\b"
    r"|Unset\s+Guard|bypass_check|type-in-type|impredicative-set|Admit\s+Obligations|Unset\s+Universe\s+Checking|Unset\s+Positivity")

# standard-library axioms a theorem may depend on (named in DESIGN.md section 6); none expected
ALLOWED_AXIOMS = set()

TRUSTED_BASE = [
    "Coq 8.16.1 kernel incl. vm_compute (no native_compute, no checks disabled)",
    "axioms: none (every property theorem prints 'Closed under the global context')",
    "extraction to OCaml with ExtrOcamlBasic only (bool, option, unit, list, prod, sumbool, sumor); OCaml 4.13.1; ml/driver.ml parsing/printing glue",
    "correspondence harness /verif/harness (Rust) and cfg(bmwill_anemo_verif) pass-through hooks in /repo",
    "generators, canonicalisers and monitors in /verif/lib",
    "hand-written Gallina model of the code (tied to /repo only by the executed correspondence)",
]


def log(*a):
    print(*a, file=sys.stderr, flush=True)


class Lock:
    def __init__(self, name):
        os.makedirs(CACHE, exist_ok=True)
        self.path = os.path.join(CACHE, name + ".lock")

    def __enter__(self):
        self.f = open(self.path, "w")
        fcntl.flock(self.f, fcntl.LOCK_EX)
        return self

    def __exit__(self, *a):
        fcntl.flock(self.f, fcntl.LOCK_UN)
        self.f.close()


def sh(cmd, cwd=None, timeout=None, env=None, input=None):
    e = dict(os.environ)
    if env:
        e.update(env)
    p = subprocess.run(cmd, cwd=cwd, shell=isinstance(cmd, str), stdout=subprocess.PIPE,
                       stderr=subprocess.STDOUT, timeout=timeout, env=e, input=input)
    return p.returncode, p.stdout.decode("utf-8", "replace")


def file_hash(paths):
    h = hashlib.sha256()
    for p in sorted(paths):
        h.update(p.encode())
        with open(p, "rb") as f:
            h.update(f.read())
    return h.hexdigest()


# ---------------------------------------------------------------- Coq

def coq_sources():
    return sorted(glob.glob(os.path.join(COQ, "*", "*.v")))


def forbidden_tokens():
    """Greps the whole development for axioms / admits / disabled checks. Comments are stripped
    first; `Variable`/`Hypothesis` are allowed only inside a Section."""
    bad = []
    for p in coq_sources():
        src = open(p).read()
        src = strip_comments(src)
        depth = 0
        for ln, line in enumerate(src.split("\n"), 1):
            if re.match(r"\s*Section\b", line):
                depth += 1
            if re.match(r"\s*End\b", line) and depth > 0:
                depth -= 1
            for m in FORBIDDEN.finditer(line):
                tok = m.group(0)
                if tok.split()[0] in ("Variable", "Variables", "Hypothesis", "Hypotheses") and depth > 0:
                    continue
                bad.append("%s:%d: %s" % (os.path.relpath(p, VERIF), ln, tok))
    return bad


def strip_comments(s):
    out, depth, i = [], 0, 0
    while i < len(s):
        if s.startswith("(*", i):
            depth += 1
            i += 2
        elif s.startswith("*)", i) and depth > 0:
            depth -= 1
            i += 2
        else:
            if depth == 0:
                out.append(s[i])
            elif s[i] == "\n":
                out.append("\n")
            i += 1
    return "".join(out)


def coq_build(prop):
    """Builds props/<prop>.vo and everything it depends on (full .vo build through the generated
    Makefile), then re-compiles the props file alone to capture fresh Print Assumptions output.
    Returns dict(ok, obligations, discharged, theorems, assumptions, log)."""
    res = dict(ok=False, obligations=0, discharged=0, theorems=[], axioms=[], log="", broken=None)
    propfile = os.path.join(COQ, "props", prop + ".v")
    src = strip_comments(open(propfile).read())
    theorems = re.findall(r"^\s*Theorem\s+(\w+)", src, re.M)
    res["theorems"] = theorems
    res["obligations"] = len(theorems)
    bad = forbidden_tokens()
    if bad:
        res["log"] = "forbidden tokens: " + "; ".join(bad)
        res["broken"] = "forbidden-token " + bad[0]
        return res
    # every Theorem must have a Print Assumptions line
    printed = set(re.findall(r"Print\s+Assumptions\s+(\w+)", src))
    missing = [t for t in theorems if t not in printed]
    if missing:
        res["log"] = "theorems without Print Assumptions: " + ", ".join(missing)
        res["broken"] = "missing Print Assumptions " + missing[0]
        return res
    with Lock("coq"):
        if not os.path.exists(os.path.join(COQ, "Makefile")) or \
                os.path.getmtime(os.path.join(COQ, "Makefile")) < os.path.getmtime(os.path.join(COQ, "_CoqProject")):
            rc, out = sh("coq_makefile -f _CoqProject -o Makefile", cwd=COQ, timeout=120)
            if rc != 0:
                res["log"] = out
                res["broken"] = "coq_makefile"
                return res
        rc, out = sh("timeout 1500 make -j%d props/%s.vo" % (NCPU, prop), cwd=COQ, timeout=1600)
        if rc != 0:
            res["log"] = out[-4000:]
            m = re.search(r'File "\./([^"]+)", line (\d+)', out)
            res["broken"] = "proof obligation in %s line %s" % (m.group(1), m.group(2)) if m else "coq build"
            return res
        # fresh compile of the props file for its output
        outdir = os.path.join(CACHE, "props-out")
        os.makedirs(outdir, exist_ok=True)
        cmd = "timeout 600 coqc -q -Q theories AnemoVerif -Q proofs AnemoVerif.Proofs -Q props AnemoVerif.Props " \
              "-o %s/%s.vo props/%s.v" % (outdir, prop, prop)
        rc, out = sh(cmd, cwd=COQ, timeout=700)
    res["log"] = out[-4000:]
    if rc != 0:
        res["broken"] = "props/%s.v does not compile" % prop
        return res
    closed = out.count("Closed under the global context")
    axioms = re.findall(r"^(\w[\w\.']*)\s*:", out, re.M)
    axioms = [a for a in axioms if a not in ("Axioms",)]
    res["axioms"] = sorted(set(axioms))
    notallowed = [a for a in res["axioms"] if a not in ALLOWED_AXIOMS]
    if notallowed:
        res["broken"] = "theorem depends on axiom(s) " + ", ".join(notallowed)
        res["discharged"] = closed
        return res
    res["discharged"] = len(theorems)
    res["ok"] = True
    return res


CHECKER_CMD = ("make -C coq props/<id>.vo (coq_makefile full .vo build) && coqc props/<id>.v "
               "(fresh, Print Assumptions parsed) && forbidden-token grep; coqchk -o in the thorough tier")


def coqchk(prop):
    """Independent re-check of the compiled development behind props/<prop>.vo (thorough tier)."""
    with Lock("coq"):
        rc, out = sh("timeout 1700 coqchk -silent -o -Q theories AnemoVerif -Q proofs AnemoVerif.Proofs "
                     "-Q props AnemoVerif.Props AnemoVerif.Props.%s" % prop, cwd=COQ, timeout=1800)
    ok = rc == 0 and "Axioms: <none>" in out.replace("\n", " ").replace("  ", " ")
    if rc == 0 and not ok:
        # tolerate formatting differences: accept when no axiom is listed after "* Axioms:"
        m = re.search(r"\* Axioms:\s*(.*?)\n\s*\*", out, re.S)
        ok = bool(m) and m.group(1).strip() in ("<none>", "")
    return ok, out[-3000:]


# ---------------------------------------------------------------- model and harness builds

def ml_build():
    with Lock("ml"):
        srcs = sorted(glob.glob(os.path.join(COQ, "theories", "*.v"))) + \
            [os.path.join(COQ, "extract", "Extract.v"), os.path.join(VERIF, "ml", "driver.ml"),
             os.path.join(VERIF, "ml", "build.sh")]
        h = file_hash(srcs)
        stamp = os.path.join(CACHE, "ml.stamp")
        if os.path.exists(MODELRUN) and os.path.exists(stamp) and open(stamp).read() == h:
            return True, ""
        with Lock("coq"):
            rc, out = sh("coq_makefile -f _CoqProject -o Makefile && timeout 1500 make -j%d $(ls theories/*.v | sed 's/\\.v$/.vo/')" % NCPU,
                         cwd=COQ, timeout=1600)
            if rc != 0:
                return False, out[-3000:]
            rc, out = sh("sh ml/build.sh", cwd=VERIF, timeout=900)
        if rc != 0:
            return False, out[-3000:]
        open(stamp, "w").write(h)
        return True, ""


def harness_build():
    """Rebuilds the harness (and therefore anemo) from /repo's current working tree with the
    verification cfg enabled. Incremental; cargo decides what is stale."""
    with Lock("harness"):
        hd = os.path.join(VERIF, "harness")
        try:
            lock_src = open(os.path.join(REPO, "Cargo.lock")).read()
            dst = os.path.join(hd, "Cargo.lock")
            if not os.path.exists(dst):
                open(dst, "w").write(lock_src)
        except OSError:
            pass
        env = {"CARGO_NET_OFFLINE": "true", "RUSTFLAGS": "--cfg " + GUARD, "CARGO_TARGET_DIR": TARGET}
        rc, out = sh("timeout 3000 cargo build --offline 2>&1", cwd=hd, timeout=3100, env=env)
        return rc == 0, out[-6000:]


# ---------------------------------------------------------------- running drivers

def _run_lines(cmd, lines, env=None, timeout=3000):
    data = ("\n".join(lines) + "\n").encode()
    e = dict(os.environ)
    if env:
        e.update(env)
    def big_stack():
        # extracted list functions are not tail recursive: give the model runs a large stack
        import resource
        try:
            resource.setrlimit(resource.RLIMIT_STACK, (resource.RLIM_INFINITY, resource.RLIM_INFINITY))
        except (ValueError, OSError):
            pass
    p = subprocess.run(cmd, input=data, stdout=subprocess.PIPE, stderr=subprocess.PIPE, timeout=timeout, env=e,
                       preexec_fn=big_stack if cmd and cmd[0] == MODELRUN else None)
    out = p.stdout.decode("utf-8", "replace").split("\n")
    if out and out[-1] == "":
        out.pop()
    return p.returncode, out, p.stderr.decode("utf-8", "replace")


def run_sharded(cmd, lines, shards=None, env=None, timeout=3000):
    """Runs `cmd` over the case lines in parallel shards; returns one output line per case.
    A shard that dies yields 'CRASH' for the cases it did not answer."""
    if not lines:
        return []
    shards = max(1, min(shards or NCPU, len(lines))) if shards else max(1, min(NCPU, (len(lines) + 49) // 50))
    chunks = [lines[i::shards] for i in range(shards)]

    def work(chunk):
        done = []
        while len(done) < len(chunk):
            rest = chunk[len(done):]
            try:
                rc, out, err = _run_lines(cmd, rest, env=env, timeout=timeout)
            except subprocess.TimeoutExpired:
                return done + ["TIMEOUT"] * len(rest)
            out = out[:len(rest)]
            done += out
            if len(out) < len(rest):
                if out and out[-1].startswith("HANG"):
                    continue          # the driver's watchdog ended the process on that case: go on with the next ones
                done += ["CRASH rc=%s %s" % (rc, err.strip()[-200:].replace("\n", " "))] * (len(rest) - len(out))
        return done

    with ThreadPoolExecutor(max_workers=shards) as ex:
        outs = list(ex.map(work, chunks))
    res = [None] * len(lines)
    for s, o in enumerate(outs):
        for j, r in enumerate(o):
            res[s + j * shards] = r
    return res


def run_impl(driver, lines, args=(), shards=None, env=None, timeout=3000):
    return run_sharded([IMPLRUN, driver] + list(args), lines, shards=shards, env=env, timeout=timeout)


def run_model(lines, shards=None, timeout=3000):
    return run_sharded([MODELRUN], lines, shards=shards, timeout=timeout)


# ---------------------------------------------------------------- context / decision / evidence

def load_known():
    p = os.path.join(VERIF, "known_findings.json")
    if os.path.exists(p):
        return json.load(open(p)).get("findings", [])
    return []


class Check:
    def __init__(self, prop, tier, seed):
        self.prop, self.tier, self.seed = prop, tier, seed
        self.t0 = time.time()
        self.rng = random.Random(seed)
        self.evaluations = 0
        self.nontrivial = set()
        self.samples = []
        self.distribution = {}
        self.monitor_failures = []      # property fails on the implementation: (what, case)
        self.known_hits = []
        self.disagreements = []         # model vs implementation: (case, impl, model)
        self.broken = []                # broken proof obligations / builds
        self.notes = []
        self.proof = None
        self.extra = {}
        self.exhaustive = False
        self.rule = ""
        self.assumptions = []
        self.known = [k for k in load_known() if k.get("property") == prop and k.get("status") == "open"]

    # --- bookkeeping
    def count(self, key, n=1):
        self.distribution[key] = self.distribution.get(key, 0) + n

    def sample(self, s, limit=6):
        if len(self.samples) < limit:
            self.samples.append(s)

    def nontriv(self, key):
        self.nontrivial.add(key if isinstance(key, (str, int, tuple)) else str(key))

    def monitor_fail(self, what, case, cls=None):
        """The property itself fails on the implementation for `case`. `cls` is the finding class
        used to match known findings (never the property id alone)."""
        for k in self.known:
            if cls is not None and k.get("class") == cls:
                if cls not in [c for c, _ in self.known_hits]:
                    self.known_hits.append((cls, k.get("what", what)))
                return
        self.monitor_failures.append(dict(monitor=what, case=case, **({"class": cls} if cls else {})))

    def disagree(self, case, impl, model, driver=""):
        self.disagreements.append(dict(driver=driver, case=case, impl=impl, model=model))

    # --- steps
    def prepare(self, need_model=True, need_harness=True):
        log("[%s] coq build ..." % self.prop)
        self.proof = coq_build(self.prop)
        if not self.proof["ok"]:
            self.broken.append("proof: " + str(self.proof["broken"]))
            log(self.proof["log"][-1500:])
        if need_model:
            log("[%s] model build ..." % self.prop)
            ok, out = ml_build()
            if not ok:
                self.broken.append("model build failed")
                log(out[-1500:])
                need_model = False
        if need_harness:
            log("[%s] harness build from /repo working tree ..." % self.prop)
            ok, out = harness_build()
            if not ok:
                self.broken.append("correspondence: harness does not build against /repo with --cfg " + GUARD)
                log(out[-3000:])
                return False
        return True

    def compare(self, driver, cases, impl, model, canon=None):
        """Line-by-line differential comparison."""
        n = 0
        for c, a, b in zip(cases, impl, model):
            x, y = (canon(a), canon(b)) if canon else (a, b)
            if x != y:
                n += 1
                if len(self.disagreements) < 50:
                    self.disagree(c, a, b, driver)
        return n

    def finish(self):
        wall = time.time() - self.t0
        violations = 0
        replay = None
        lines = []
        for cls, what in self.known_hits:
            lines.append("KNOWN-FINDING: property=%s %s" % (self.prop, what))
        # timing-dependent open findings are listed on every run of their property's check, hit or not
        for k in self.known:
            if k.get("property") == self.prop and k.get("status") == "open" and str(k.get("report", "")).startswith("always") \
                    and k.get("class") not in [c for c, _ in self.known_hits]:
                lines.append("KNOWN-FINDING: property=%s %s" % (self.prop, k.get("what", "")))
        if self.monitor_failures or self.disagreements or self.broken:
            violations = max(1, len(self.monitor_failures))
            os.makedirs(os.path.join(VERIF, "replay"), exist_ok=True)
            replay = os.path.join(VERIF, "replay", "%s-%d.json" % (self.prop, self.seed))
            json.dump(dict(property=self.prop, seed=self.seed, tier=self.tier,
                           failing_inputs=self.monitor_failures[:20],
                           broken=self.broken,
                           correspondence_disagreements=self.disagreements[:20],
                           note=("property monitor failed on the implementation for failing_inputs[0]"
                                 if self.monitor_failures else
                                 "no input was found on which the property fails; the listed theorem / "
                                 "correspondence no longer checks")),
                      open(replay, "w"), indent=1)
            tail = "" if self.monitor_failures else " no-failing-input-found"
            lines.append("VIOLATION property=%s replay=%s%s" % (self.prop, replay, tail))
        pr = self.proof or dict(obligations=0, discharged=0, theorems=[], axioms=[])
        cov = dict(
            obligations=max(pr["obligations"], 1), discharged=pr["discharged"],
            checker_cmd=CHECKER_CMD.replace("<id>", self.prop),
            trusted_base=TRUSTED_BASE + self.assumptions,
            theorems=pr["theorems"], axioms=pr["axioms"],
            evaluations=self.evaluations, distinct_nontrivial=len(self.nontrivial),
            rule=self.rule, samples=self.samples or ["(none)"],
            input_distribution=self.distribution,
            correspondence_disagreements=len(self.disagreements),
            monitor_failures=len(self.monitor_failures),
            known_findings_hit=[c for c, _ in self.known_hits],
            exhaustive=self.exhaustive,
        )
        cov.update(self.extra)
        ev = dict(property_id=self.prop, tier=self.tier, seed=self.seed, level="proof", coverage=cov,
                  assumptions=self.assumptions + self.notes, wall_s=round(wall, 2), violations=violations)
        os.makedirs(os.path.join(VERIF, "evidence"), exist_ok=True)
        json.dump(ev, open(os.path.join(VERIF, "evidence", self.prop + ".json"), "w"), indent=1)
        for l in lines:
            print(l)
        sys.stdout.flush()
        log("[%s] tier=%s seed=%d evaluations=%d nontrivial=%d disagreements=%d monitor_failures=%d broken=%s wall=%.1fs"
            % (self.prop, self.tier, self.seed, self.evaluations, len(self.nontrivial), len(self.disagreements),
               len(self.monitor_failures), self.broken, wall))
        return 1 if violations else 0


def hx(b):
    return b.hex() if b else "-"


def unhx(s):
    return b"" if s == "-" else bytes.fromhex(s)
