"""C05 — simultaneous mutual dials converge on one shared connection."""
import json
from common import *


def run(chk):
    quick = chk.tier == "quick"
    chk.rule = ("(X) simultaneous_dial_tie_breaking on all 4 origin pairs x ordered id pairs differing in the first / last byte (256x256 sample of ranks, exhaustive over the 12 decision classes); "
                "(T) every maximal schedule of the mutual-dial transition system (enumerated by the extracted model, both id orders) replayed on two real ActivePeers sets with two real connections; "
                "(D) whole networks dialing each other simultaneously over the fabric under seeded delay/jitter, with both sides' recorded active-peer histories replayed on ActivePeers.v (pre-state of every operation, event log, final listing); distinct = case text; non-trivial = all")
    if not chk.prepare():
        return
    # (X) tie-break
    tb = []
    vals = [0, 1, 2, 127, 128, 254, 255]
    for a in vals:
        for b in vals:
            for e in "io":
                for n in "io":
                    for pos in (0, 31):
                        tb.append("tb %d %d %s %s %d" % (a, b, e, n, pos))
    ti = run_impl("activepeers", tb)
    tm = run_model(tb)
    classes = set()
    for c, a, b in zip(tb, ti, tm):
        chk.evaluations += 1
        t = c.split()
        x, y = int(t[1]), int(t[2])
        classes.add((t[3], t[4], (x > y) - (x < y)))
        # monitor: mixed origins keep the connection dialed by the greater identity
        if t[3] != t[4] and x != y:
            existing_dialed_by_own = t[3] == "o"
            own_greater = x > y
            keep_existing = existing_dialed_by_own == own_greater
            if (a == "1") == keep_existing:
                chk.monitor_fail("tie-break does not keep the connection dialed by the greater identity", dict(case=c, impl=a))
        if a != b:
            chk.disagree(c, a, b, "activepeers/tb")
    chk.count("tie-break classes", len(classes))
    chk.nontriv("tb-all-classes")
    chk.extra["exhaustive_parts"] = ["tie-break decision over all 12 (ordering x origin x origin) classes", "all maximal schedules of the mutual-dial transition system"]
    # (T) all maximal schedules
    sched = run_model(["mdreach 1", "mdreach 0"])
    md = []
    for lt, line in zip("10", sched):
        for s in line.split():
            labels, verdict = s.split(":")
            if verdict != "ok":
                chk.broken.append("model: a maximal schedule does not converge: " + s)
            md.append("md %s %s" % (lt, labels))
    mi = run_impl("activepeers", md)
    mm = run_model(md)
    for c, a, b in zip(md, mi, mm):
        chk.evaluations += 1
        chk.count("schedules")
        chk.nontriv(c)
        if a.startswith(("PANIC", "CRASH", "TIMEOUT", "HANG")):
            chk.monitor_fail("panic while replaying a mutual-dial schedule", dict(case=c, impl=a))
            continue
        f = dict(x.split("=") for x in a.split())
        lt = c.split()[1] == "1"
        surv = "Y" if lt else "X"
        if f["A"] != surv or f["B"] != surv or f["nA"] != "1" or f["nB"] != "1":
            chk.monitor_fail("after schedule the two sides do not both hold the connection dialed by the greater identity (A=%s B=%s, expected %s)" % (f["A"], f["B"], surv), dict(case=c, impl=a))
        if f["open" + surv] != "11":
            chk.monitor_fail("the surviving connection was closed", dict(case=c, impl=a))
        if "0" in [x.split(":")[1] for x in f["pre"].split(",")]:
            chk.disagree(c, a, b, "activepeers/md-enabledness")   # the real connection did not observe what the model step presupposes
        if a != b:
            chk.disagree(c, a, b, "activepeers/md")
    chk.sample(dict(case=md[0], impl=mi[0], model=mm[0]))
    # (D) fabric
    import simnet
    simnet.c05(chk)
    simnet.c05_inflight(chk)
    chk.assumptions += ["QUIC delivers a close to the other end (the Notice/Fail steps become enabled); handshakes complete in the absence of loss",
                        "only the comparison of the two identities matters (PeerId derives Ord on [u8;32]); ranks 0..255 in the first / last byte exercise it"]
    if not quick:
        ok, out = coqchk(chk.prop)
        chk.extra["coqchk"] = "ok" if ok else out[-500:]
        if not ok:
            chk.broken.append("coqchk failed or reported axioms")


def replay(chk, path):
    r = json.load(open(path))
    cases = [x["case"]["case"] for x in r.get("failing_inputs", [])] + [x["case"] for x in r.get("correspondence_disagreements", [])]
    if not chk.prepare():
        return
    for c in cases:
        drv = "simnet" if c.startswith("simnet") else "activepeers"
        log("case: %s\nimpl: %s" % (c, run_impl(drv, [c])[0][:1500]))
