"""C08 — shutdown always completes, releases everything and never panics."""
import json
from common import *
import simnet


def run(chk):
    quick = chk.tier == "quick"
    chk.rule = ("(fabric) three whole networks; shutdown of one (explicit, two concurrent explicit calls, or dropping the last handle) at seeded instants with RPCs in both "
                "directions (some with long-running handlers or large bodies), an outbound dial to a dead address, concurrent connect calls; checked: completion within the "
                "idle-wait bound, closed / no peers / weak reference dead, every service clone dropped, subscribers get LostPeer events then end-of-stream, remote peers observe "
                "the disconnect, every pending or later API call returns, no panic; (T) the manager / handler / API events of every run (H4b trace points) are replayed on Shutdown.v by ShutdownTrace.trun: it must accept them, end in MDone with nothing left and agree on LostPeer count and answered calls; (real time) runtime teardown with live handles on a multi-thread runtime under a watchdog, incl. re-binding the address after shutdown with idle-wait bounds of 0-200 ms, and shutdown while a request is inside a handler's blocking section (every service clone must be gone when it returns); "
                "distinct = scenario; non-trivial = all")
    if not chk.prepare():
        return
    simnet.c08(chk)
    teardown(chk)
    chk.assumptions += ["user handlers are cancellable at their await points and do not panic (a user panic is deliberately propagated to the manager)",
                        "tokio's scheduler and runtime-drop behaviour are the runtime's: the model exhibits the logic of the two teardown failures, the real-time run exhibits them on the code",
                        "immediate re-bindability of the UDP address is exercised by the real-socket teardown driver, not by the fabric runs"]
    if not quick:
        ok, out = coqchk(chk.prop)
        chk.extra["coqchk"] = "ok" if ok else out[-500:]
        if not ok:
            chk.broken.append("coqchk failed or reported axioms")


def teardown(chk):
    """Real sockets, multi-thread runtime dropped at seeded moments with handles alive."""
    quick = chk.tier == "quick"
    cases = []
    for variant in ("connected", "idle", "shutdown-in-progress", "after-shutdown", "rebind", "busy"):
        runs = (40 if quick else 400) if variant != "busy" else (16 if quick else 100)
        cases.append("teardown %s %d %d" % (variant, runs, chk.rng.randrange(1 << 30)))
    outs = run_impl("teardown", cases, shards=len(cases), timeout=1200)
    for c, a in zip(cases, outs):
        chk.evaluations += 1
        chk.nontriv(c)
        chk.count("teardown:" + c.split()[1])
        f = dict(x.split("=") for x in a.split() if "=" in x)
        chk.extra.setdefault("teardown_runs", []).append(dict(case=c, result=a))
        if not f:
            chk.monitor_fail("teardown driver crashed: " + a[:200], dict(case=c))
            continue
        if int(f.get("panics", 0)) > 0:
            chk.monitor_fail("runtime teardown with live handles (%s): %s of %s runs panicked (first: %s)" % (c.split()[1], f["panics"], f["runs"], f.get("where", "?")),
                             dict(case=c, impl=a), cls="teardown-panic")
        if int(f.get("hangs", 0)) > 0:
            chk.monitor_fail("runtime teardown with live handles (%s): %s of %s runs hung" % (c.split()[1], f["hangs"], f["runs"]),
                             dict(case=c, impl=a), cls="teardown-hang")
        if int(f.get("clones_left", 0)) > 0:
            chk.monitor_fail("shutdown() returned Ok while clones of the user's service were still alive in %s of %s shutdowns issued with a request inside a handler's blocking section" % (f["clones_left"], f["busy_shutdowns"]), dict(case=c, impl=a))
        if c.split()[1] == "busy":
            chk.count("shutdowns-with-a-handler-mid-poll", int(f.get("busy_shutdowns", 0)))
        if int(f.get("rebind_failures", 0)) > 0:
            chk.monitor_fail("socket address still bound 1.5 s after shutdown returned, with the handle alive, in %s of %s runs" % (f["rebind_failures"], f["runs"]), dict(case=c, impl=a))
        if int(f.get("rebind_transient", 0)) > 0:
            chk.monitor_fail("socket address not re-bindable at once after shutdown (free a moment later) in %s of %s runs" % (f["rebind_transient"], f["runs"]), dict(case=c, impl=a), cls="rebind-transient-after-idle-bound")
        chk.count("rebind-transient", int(f.get("rebind_transient", 0)))


replay = __import__("c_c09").replay
