"""C18 — per-peer in-flight limit holds and never leaks capacity."""
import json, re
from common import *


def gen_script(rng, maxn, npeers, length):
    toks = []
    for _ in range(length):
        r = rng.random()
        if r < 0.5:
            toks.append("a%d" % rng.randrange(1, npeers + 1))
        elif r < 0.72:
            toks.append("F%d" % rng.randrange(0, 50))
        elif r < 0.8:
            toks.append("X%d" % rng.randrange(0, 50))
        else:
            toks.append("C%d" % rng.randrange(0, 50))
    # drain: finish / cancel everything, then probe that every permit is back
    toks += ["F0"] * (length + 2) + ["C0"] * (length + 2)
    for p in range(1, npeers + 1):
        toks += ["a%d" % p] * (maxn + 1)
    return toks


def run(chk):
    quick = chk.tier == "quick"
    chk.rule = ("event scripts (arrive / finish ok / finish with error / cancel anywhere) over 1-4 peers, limits 0-5, both wait modes, "
                "length up to 200, applied one by one to the real layer around a gate-controlled service; each script ends by draining "
                "everything and probing max+1 fresh arrivals per peer; first bursts of never-seen peers and bursts of 300-1500 distinct peers at once (each peer must get its own slots); distinct = script text; non-trivial = at least one request waited or was rejected")
    if not chk.prepare():
        return
    cases = []
    n = 120 if quick else 2500
    for i in range(n):
        rng = chk.rng
        # "+same": all requests go through one service value instead of a fresh clone each (the limit is per layer, whatever the usage)
        mode = rng.choice(["block", "err", "block+same", "err+same"])
        maxn = rng.choice([0, 1, 1, 2, 2, 3, 5])
        npeers = rng.randrange(1, 5)
        length = rng.choice([5, 10, 20, 40, 200 if i % 10 == 0 else 30])
        cases.append("inflight %s %d %s" % (mode, maxn, " ".join(gen_script(rng, maxn, npeers, length))))
    ci = run_impl("layers", cases)
    # concrete events chosen by the implementation run -> model cases
    mcases = []
    for c, a in zip(cases, ci):
        t = c.split()
        evs = [x.split(":")[0] for x in a.split()] if not a.startswith(("PANIC", "CRASH", "TIMEOUT", "HANG")) else []
        mcases.append("inflight %s %s %s" % (t[1].split("+")[0], t[2], " ".join(evs)))
    cm = run_model(mcases)
    for c, mc, a, b in zip(cases, mcases, ci, cm):
        chk.evaluations += 1
        t = c.split()
        mode, maxn = t[1].split("+")[0], int(t[2])
        chk.count("mode:" + t[1])
        chk.count("max:%d" % maxn)
        if a.startswith(("PANIC", "CRASH", "TIMEOUT", "HANG")):
            chk.monitor_fail("inflight layer panicked / hung", dict(case=c, impl=a))
            continue
        obs = a.split()
        chk.count("events", len(obs))
        waited = False
        # monitors: gauge <= max at every step; statuses; permits all back at the end
        for o in obs:
            ev, rest = o.split(":")
            res, g = rest.split(";g")
            if int(g) > maxn:
                chk.monitor_fail("gauge %s exceeds max %d after %s" % (g, maxn, ev), dict(case=c, impl=a))
                break
            if res.startswith("?"):
                chk.monitor_fail("arrival answered with unexpected status %s" % res, dict(case=c, impl=a))
                break
            if res in ("Q", "R"):
                waited = True
            if res == "R" and mode == "block":
                chk.monitor_fail("Block mode answered 429", dict(case=c, impl=a))
            if res == "Q" and mode == "err":
                chk.monitor_fail("ReturnError mode left a request waiting", dict(case=c, impl=a))
        # final probe: per peer, the last max+1 arrivals: exactly max enter, the last one waits / 429
        peers = sorted(set(re.findall(r"\ba(\d+)\b", c)))
        tail = obs[-(len(peers) * (maxn + 1)):]
        for i, p in enumerate(peers):
            grp = tail[i * (maxn + 1):(i + 1) * (maxn + 1)]
            ent = [o for o in grp if o.split(":")[1].startswith("E")]
            last = grp[-1].split(":")[1].split(";")[0]
            if len(ent) != maxn or last not in ("Q", "R"):
                chk.monitor_fail("capacity leaked or exceeded for peer %s: after draining, %d of %d probe requests entered (last=%s)" % (p, len(ent), maxn + 1, last),
                                 dict(case=c, impl=" ".join(grp)))
        if waited:
            chk.nontriv(c)
        if a != b:
            chk.disagree(mc, a[:600], b[:600], "layers/inflight")
    chk.sample(dict(case=cases[0][:300], impl=ci[0][:300], model=cm[0][:300]))
    # the first requests of never-seen peers handed over back to back (every call() made before any future is polled):
    # the count inside the wrapped service per peer must be what the model gives for the same arrivals one after the other
    bursts, bmodels = [], []
    for i in range(12 if quick else 120):
        rng = chk.rng
        mode, maxn, k, npeers = rng.choice(["block", "err"]), rng.choice([1, 1, 2, 3]), rng.randrange(2, 7), rng.randrange(1, 4)
        bursts.append("inflightburst %s %d %d %d" % (mode, maxn, k, npeers))
        bmodels.append("inflight %s %d %s" % (mode, maxn, " ".join("a%d.%d" % (p, (p - 1) * k + j) for p in range(1, npeers + 1) for j in range(k))))
    # many peers at once (hundreds of distinct identities, a few requests each): one peer's load never consumes another's slots
    for i in range(4 if quick else 24):
        rng = chk.rng
        mode, maxn, k, npeers = rng.choice(["block", "err"]), rng.choice([1, 2]), rng.randrange(1, 4), rng.choice([300, 700, 1500 if not quick else 400])
        bursts.append("inflightburst %s %d %d %d" % (mode, maxn, k, npeers))
        bmodels.append("inflight %s %d %s" % (mode, maxn, " ".join("a%d.%d" % (p, (p - 1) * k + j) for p in range(1, npeers + 1) for j in range(k))))
    for c, a, m in zip(bursts, run_impl("layers", bursts), run_model(bmodels)):
        chk.evaluations += 1
        chk.nontriv(c)
        t = c.split()
        mode, maxn, k = t[1], int(t[2]), int(t[3])
        if a.startswith(("PANIC", "CRASH", "TIMEOUT", "HANG")):
            chk.monitor_fail("inflight layer panicked / hung on a first burst", dict(case=c, impl=a))
            continue
        for tok in a.split():
            p, rest = tok.split(":")
            f = dict(x.split("=") for x in rest.split(","))
            inside, refused = int(f["inside"]), int(f["refused"])
            m_inside = len([x for x in m.split() if x.startswith("a%s." % p[1:]) and x.split(":")[1].startswith("E")])
            chk.count("burst-peers")
            if inside > maxn:
                chk.monitor_fail("first burst of a new peer: %d requests of %s are inside the wrapped service, the limit is %d" % (inside, p, maxn), dict(case=c, impl=a))
            elif inside < min(k, maxn):
                chk.monitor_fail("peer %s sent %d request(s) and has only %d inside the wrapped service although its limit is %d: its slots are used by somebody else (%d peers active)" % (p, k, inside, maxn, int(t[4])), dict(case=c, impl=a[:3000]))
                break
            elif (mode == "err" and refused != k - inside) or (mode == "block" and refused != 0):
                chk.monitor_fail("first burst of a new peer: %d inside, %d refused of %d (mode %s)" % (inside, refused, k, mode), dict(case=c, impl=a))
            elif inside != m_inside:
                chk.disagree(c, a, m[:400], "layers/inflight-burst")
    chk.assumptions += ["tokio::sync::Semaphore is FIFO and hands a released permit to the queue head (modelled in Inflight.p_release; exercised, not proved)",
                        "each observation is taken after 50 yields on a current-thread runtime (quiescence)"]
    if not quick:
        ok, out = coqchk(chk.prop)
        chk.extra["coqchk"] = "ok" if ok else out[-500:]
        if not ok:
            chk.broken.append("coqchk failed or reported axioms")


def replay(chk, path):
    r = json.load(open(path))
    if not chk.prepare():
        return
    for x in r.get("failing_inputs", []):
        c = x["case"]["case"]
        log("case: %s\nimpl: %s" % (c, run_impl("layers", [c])[0]))
