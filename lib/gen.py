"""Seeded generators shared by several checks."""
import struct

UTF8_SAMPLES = ["", "/", "a", "/foo", "/svc.Name/Method", "content-type", "timeout", "status-message",
                "é", "ü/ß", "日本語", "/路由/✓", "\U0001F600", "a b", "\x00", "\x7f", "x" * 300]


def utf8_string(rng, maxlen=40):
    r = rng.random()
    if r < 0.25:
        return rng.choice(UTF8_SAMPLES)
    n = rng.choice([0, 1, 2, 3, 5, 8, 13, maxlen]) if r < 0.6 else rng.randrange(0, maxlen + 1)
    out = []
    for _ in range(n):
        k = rng.random()
        if k < 0.7:
            out.append(chr(rng.randrange(0x20, 0x7f)))
        elif k < 0.8:
            out.append(chr(rng.randrange(0x00, 0x20)))
        elif k < 0.9:
            out.append(chr(rng.randrange(0x80, 0x800)))
        elif k < 0.97:
            c = rng.randrange(0x800, 0x10000)
            if 0xD800 <= c <= 0xDFFF:
                c = 0xE000
            out.append(chr(c))
        else:
            out.append(chr(rng.randrange(0x10000, 0x110000)))
    return "".join(out)


def headers(rng, maxn=40):
    r = rng.random()
    n = 0 if r < 0.25 else (1 if r < 0.45 else rng.randrange(2, maxn + 1) if r > 0.9 else rng.randrange(2, 6))
    d = {}
    while len(d) < n:
        k = utf8_string(rng, 16)
        if k in d and len(k) < 3:
            k = k + str(len(d))
        d[k] = utf8_string(rng, 24)
    return list(d.items())


def body(rng, big=65536):
    r = rng.random()
    if r < 0.2:
        n = 0
    elif r < 0.8:
        n = rng.randrange(1, 200)
    elif r < 0.97:
        n = rng.randrange(200, 5000)
    else:
        n = rng.choice([big, big - 1, rng.randrange(5000, big)])
    return rng.randbytes(n)


def hx(b):
    return b.hex() if b else "-"


def headers_tokens(h):
    return " ".join([str(len(h))] + [hx(k.encode()) + " " + hx(v.encode()) for k, v in h])


INVALID_UTF8 = [b"\x80", b"\xc0\x80", b"\xc1\xbf", b"\xe0\x80\x80", b"\xed\xa0\x80", b"\xf4\x90\x80\x80",
                b"\xf5\x80\x80\x80", b"\xff", b"\xc2", b"\xe1\x80", b"\xf0\x90\x80", b"a\xc2", b"\xe0\x9f\xbf",
                b"\xf0\x8f\xbf\xbf", b"\xfe\xfe"]


def le64(n):
    return struct.pack("<Q", n)


def be32(n):
    return struct.pack(">I", n)
