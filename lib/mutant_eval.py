#!/usr/bin/env python3
"""Applies a seeded change to /repo, runs the given checks (default: all claimed), reverts.
usage: python3 lib/mutant_eval.py <patch.diff> [--tier quick|thorough] [Cxx ...]"""
import json, os, subprocess, sys, time
VERIF = os.path.dirname(os.path.dirname(os.path.abspath(__file__)))

def main():
    args = sys.argv[1:]
    tier = "quick"
    if "--tier" in args:
        i = args.index("--tier"); tier = args[i + 1]; del args[i:i + 2]
    patch = os.path.abspath(args[0])
    props = args[1:] or [c["property_id"] for c in json.load(open(os.path.join(VERIF, "MANIFEST.json")))["checks"]]
    st = subprocess.run(["git", "-C", "/repo", "status", "--porcelain"], capture_output=True, text=True).stdout.strip()
    if st:
        print("refusing: /repo working tree not clean:\n" + st); sys.exit(2)
    r = subprocess.run(["git", "-C", "/repo", "apply", patch], capture_output=True, text=True)
    if r.returncode != 0:
        print("patch does not apply:", r.stderr); sys.exit(2)
    results = {}
    first = {}
    try:
        for p in props:
            t0 = time.time()
            r = subprocess.run([os.path.join(VERIF, "check"), p, "--tier", tier], cwd=VERIF, capture_output=True, text=True)
            v = [l for l in r.stdout.splitlines() if l.startswith(("VIOLATION", "KNOWN-FINDING"))]
            results[p] = (r.returncode, v, time.time() - t0)
            print("%s exit=%d %.0fs %s" % (p, r.returncode, time.time() - t0, " | ".join(x[:160] for x in v if x.startswith("VIOLATION"))), flush=True)
            if r.returncode != 0:
                rp = [x.split("replay=")[1].split()[0] for x in v if "replay=" in x]
                for f in rp[:1]:
                    try:
                        d = json.load(open(f))
                        fi = d.get("failing_inputs", [])
                        if fi:
                            print("   monitor:", fi[0].get("monitor", "")[:300])
                            first[p] = "failing input: " + fi[0].get("monitor", "")[:300]
                        elif d.get("correspondence_disagreements"):
                            x = d["correspondence_disagreements"][0]
                            print("   disagreement[%s]: impl=%s | model=%s" % (x.get("driver"), str(x.get("impl"))[:120], str(x.get("model"))[:120]))
                            first[p] = "correspondence disagreement [%s]" % x.get("driver")
                        else:
                            print("   broken:", d.get("broken"))
                    except Exception as e:
                        print("   (replay unreadable: %s)" % e)
    finally:
        subprocess.run(["git", "-C", "/repo", "checkout", "--", "."])
        subprocess.run(["git", "-C", "/repo", "clean", "-fdq", "crates"])
    caught = [p for p, (rc, v, _) in results.items() if rc != 0]
    print("CAUGHT BY:", caught)
    # record what was run next to a stored seeded change
    d = os.path.dirname(patch)
    if os.path.dirname(d) == os.path.join(VERIF, "seeded") and os.path.exists(os.path.join(d, "meta.json")):
        meta = json.load(open(os.path.join(d, "meta.json")))
        ran = meta.setdefault("verif_ran", {})
        ran["confirm"] = "lib/seed_confirm.sh in a scratch worktree: suite passes with the change; demo fails with it and passes without (confirm.log)"
        ran.setdefault("checks", {})
        for p_, (rc, v, dt) in results.items():
            ran["checks"]["%s/%s" % (p_, tier)] = dict(exit=rc, lines=[x[:300] for x in v], first=first.get(p_, ""))
        ran["caught_by"] = sorted(set(ran.get("caught_by", [])) | set(caught))
        json.dump(meta, open(os.path.join(d, "meta.json"), "w"), indent=1)

main()
